//! Minimal JSON value + renderer (no external crates).

#[derive(Clone, Debug)]
pub enum J {
    Null,
    Bool(bool),
    Num(f64),
    Str(String),
    Arr(Vec<J>),
    Obj(Vec<(String, J)>),
}

impl J {
    pub fn obj(fields: Vec<(&str, J)>) -> J {
        J::Obj(fields.into_iter().map(|(k, v)| (k.to_owned(), v)).collect())
    }
    pub fn s(v: impl Into<String>) -> J {
        J::Str(v.into())
    }
    pub fn n(v: usize) -> J {
        J::Num(v as f64)
    }
    pub fn render(&self) -> String {
        let mut out = String::new();
        self.write(&mut out);
        out
    }
    fn write(&self, out: &mut String) {
        match self {
            J::Null => out.push_str("null"),
            J::Bool(b) => out.push_str(if *b { "true" } else { "false" }),
            J::Num(n) => {
                if n.fract() == 0.0 && n.abs() < 9e15 {
                    out.push_str(&format!("{}", *n as i64));
                } else {
                    out.push_str(&format!("{n}"));
                }
            }
            J::Str(s) => {
                out.push('"');
                for c in s.chars() {
                    match c {
                        '"' => out.push_str("\\\""),
                        '\\' => out.push_str("\\\\"),
                        '\n' => out.push_str("\\n"),
                        '\r' => out.push_str("\\r"),
                        '\t' => out.push_str("\\t"),
                        c if (c as u32) < 0x20 => out.push_str(&format!("\\u{:04x}", c as u32)),
                        c => out.push(c),
                    }
                }
                out.push('"');
            }
            J::Arr(a) => {
                out.push('[');
                for (i, v) in a.iter().enumerate() {
                    if i > 0 {
                        out.push(',');
                    }
                    v.write(out);
                }
                out.push(']');
            }
            J::Obj(o) => {
                out.push('{');
                for (i, (k, v)) in o.iter().enumerate() {
                    if i > 0 {
                        out.push(',');
                    }
                    J::Str(k.clone()).write(out);
                    out.push(':');
                    v.write(out);
                }
                out.push('}');
            }
        }
    }
}
