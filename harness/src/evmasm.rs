//! A tiny structured EVM assembler: data-dependent contracts for the block generators.

use revm_primitives::{Address, U256};

#[derive(Clone, Debug)]
pub enum Expr {
    C(u64),
    Big(U256),
    Addr(Address),
    Sload(Box<Expr>),
    /// calldataload(32 * i)
    Cd(usize),
    CdSize,
    Add(Box<Expr>, Box<Expr>),
    Sub(Box<Expr>, Box<Expr>),
    Mod(Box<Expr>, Box<Expr>),
    Lt(Box<Expr>, Box<Expr>),
    Eq(Box<Expr>, Box<Expr>),
    IsZero(Box<Expr>),
    Balance(Box<Expr>),
    SelfBalance,
    Caller,
    Origin,
    CallValue,
    ExtCodeSize(Box<Expr>),
    ExtCodeHash(Box<Expr>),
    Coinbase,
    Number,
    Gas,
    /// BLOCKHASH of the given block number
    BlockHash(Box<Expr>),
}

#[derive(Clone, Copy, Debug, PartialEq, Eq)]
pub enum CallKind {
    Call,
    StaticCall,
    DelegateCall,
}

#[derive(Clone, Debug)]
pub enum Stmt {
    Sstore(Expr, Expr),
    If(Expr, Vec<Stmt>, Vec<Stmt>),
    /// call `to` with `value`, one optional word of calldata; store success flag if a slot is given
    Call { kind: CallKind, to: Expr, value: Expr, arg: Option<Expr>, result_slot: Option<u64>, gas: Option<u64> },
    /// store first return word of the last call into slot
    SstoreReturnWord(u64),
    SelfDestruct(Expr),
    Revert,
    Stop,
    /// CREATE (salt None) / CREATE2 with initcode; store the created address in slot
    Create { value: Expr, initcode: Vec<u8>, salt: Option<u64>, result_slot: Option<u64> },
    /// return one word
    ReturnWord(Expr),
    /// return `code` as runtime code (for initcode)
    ReturnCode(Vec<u8>),
    Log0Word(Expr),
    Invalid,
}

pub fn c(v: u64) -> Expr {
    Expr::C(v)
}
pub fn sload(slot: u64) -> Expr {
    Expr::Sload(Box::new(Expr::C(slot)))
}
pub fn add(a: Expr, b: Expr) -> Expr {
    Expr::Add(Box::new(a), Box::new(b))
}
pub fn addr(a: Address) -> Expr {
    Expr::Addr(a)
}

struct Asm {
    code: Vec<u8>,
    /// (position of the 2-byte operand, label id)
    fixups: Vec<(usize, usize)>,
    labels: Vec<Option<usize>>,
    /// data blobs appended after the code: (fixup position of 2-byte offset, blob)
    blobs: Vec<(usize, Vec<u8>)>,
}

impl Asm {
    fn op(&mut self, b: u8) {
        self.code.push(b);
    }
    fn push_u256(&mut self, v: U256) {
        let bytes = v.to_be_bytes::<32>();
        let first = bytes.iter().position(|b| *b != 0).unwrap_or(31);
        let slice = &bytes[first..];
        self.code.push(0x5f + slice.len() as u8); // PUSH1..PUSH32
        self.code.extend_from_slice(slice);
    }
    fn push(&mut self, v: u64) {
        self.push_u256(U256::from(v));
    }
    fn new_label(&mut self) -> usize {
        self.labels.push(None);
        self.labels.len() - 1
    }
    fn push_label(&mut self, l: usize) {
        self.code.push(0x61); // PUSH2
        self.fixups.push((self.code.len(), l));
        self.code.extend_from_slice(&[0, 0]);
    }
    fn place(&mut self, l: usize) {
        self.labels[l] = Some(self.code.len());
        self.code.push(0x5b); // JUMPDEST
    }

    fn expr(&mut self, e: &Expr) {
        match e {
            Expr::C(v) => self.push(*v),
            Expr::Big(v) => self.push_u256(*v),
            Expr::Addr(a) => self.push_u256(U256::from_be_slice(a.as_slice())),
            Expr::Sload(k) => {
                self.expr(k);
                self.op(0x54);
            }
            Expr::Cd(i) => {
                self.push(32 * *i as u64);
                self.op(0x35);
            }
            Expr::CdSize => self.op(0x36),
            Expr::Add(a, b) => {
                self.expr(b);
                self.expr(a);
                self.op(0x01);
            }
            Expr::Sub(a, b) => {
                self.expr(b);
                self.expr(a);
                self.op(0x03);
            }
            Expr::Mod(a, b) => {
                self.expr(b);
                self.expr(a);
                self.op(0x06);
            }
            Expr::Lt(a, b) => {
                self.expr(b);
                self.expr(a);
                self.op(0x10);
            }
            Expr::Eq(a, b) => {
                self.expr(b);
                self.expr(a);
                self.op(0x14);
            }
            Expr::IsZero(a) => {
                self.expr(a);
                self.op(0x15);
            }
            Expr::Balance(a) => {
                self.expr(a);
                self.op(0x31);
            }
            Expr::SelfBalance => self.op(0x47),
            Expr::Caller => self.op(0x33),
            Expr::Origin => self.op(0x32),
            Expr::CallValue => self.op(0x34),
            Expr::ExtCodeSize(a) => {
                self.expr(a);
                self.op(0x3b);
            }
            Expr::ExtCodeHash(a) => {
                self.expr(a);
                self.op(0x3f);
            }
            Expr::Coinbase => self.op(0x41),
            Expr::Number => self.op(0x43),
            Expr::BlockHash(n) => {
                self.expr(n);
                self.op(0x40);
            }
            Expr::Gas => self.op(0x5a),
        }
    }

    fn stmts(&mut self, ss: &[Stmt]) {
        for s in ss {
            self.stmt(s);
        }
    }

    fn stmt(&mut self, s: &Stmt) {
        match s {
            Stmt::Sstore(k, v) => {
                self.expr(v);
                self.expr(k);
                self.op(0x55);
            }
            Stmt::If(cond, then_, else_) => {
                let l_then = self.new_label();
                let l_end = self.new_label();
                self.expr(cond);
                self.push_label(l_then);
                self.op(0x57); // JUMPI
                self.stmts(else_);
                self.push_label(l_end);
                self.op(0x56); // JUMP
                self.place(l_then);
                self.stmts(then_);
                self.place(l_end);
            }
            Stmt::Call { kind, to, value, arg, result_slot, gas } => {
                let args_size = if let Some(a) = arg {
                    self.expr(a);
                    self.push(0);
                    self.op(0x52); // MSTORE
                    32
                } else {
                    0
                };
                self.push(32); // retSize
                self.push(0); // retOffset
                self.push(args_size);
                self.push(0); // argsOffset
                if *kind == CallKind::Call {
                    self.expr(value);
                }
                self.expr(to);
                match gas {
                    Some(g) => self.push(*g),
                    None => self.op(0x5a),
                }
                self.op(match kind {
                    CallKind::Call => 0xf1,
                    CallKind::StaticCall => 0xfa,
                    CallKind::DelegateCall => 0xf4,
                });
                match result_slot {
                    Some(slot) => {
                        // store success + 1 so that a failed call is distinguishable from "never ran"
                        self.push(1);
                        self.op(0x01);
                        self.push(*slot);
                        self.op(0x55);
                    }
                    None => self.op(0x50),
                }
            }
            Stmt::SstoreReturnWord(slot) => {
                // returndatasize >= 32 ? mload(0) : 0  — memory word 0 holds the return word when
                // the callee returned at least 32 bytes (retOffset = 0, retSize = 32)
                self.push(0);
                self.op(0x51); // MLOAD
                self.push(*slot);
                self.op(0x55);
            }
            Stmt::SelfDestruct(a) => {
                self.expr(a);
                self.op(0xff);
            }
            Stmt::Revert => {
                self.push(0);
                self.push(0);
                self.op(0xfd);
            }
            Stmt::Stop => self.op(0x00),
            Stmt::Invalid => self.op(0xfe),
            Stmt::Create { value, initcode, salt, result_slot } => {
                // codecopy(0, blob_offset, len)
                self.push(initcode.len() as u64);
                self.code.push(0x61);
                let fix = self.code.len();
                self.code.extend_from_slice(&[0, 0]);
                self.blobs.push((fix, initcode.clone()));
                self.push(0);
                self.op(0x39); // CODECOPY
                if let Some(salt) = salt {
                    self.push(*salt);
                }
                self.push(initcode.len() as u64);
                self.push(0);
                self.expr(value);
                self.op(if salt.is_some() { 0xf5 } else { 0xf0 });
                match result_slot {
                    Some(slot) => {
                        self.push(*slot);
                        self.op(0x55);
                    }
                    None => self.op(0x50),
                }
            }
            Stmt::ReturnWord(e) => {
                self.expr(e);
                self.push(0);
                self.op(0x52);
                self.push(32);
                self.push(0);
                self.op(0xf3);
            }
            Stmt::ReturnCode(code) => {
                self.push(code.len() as u64);
                self.code.push(0x61);
                let fix = self.code.len();
                self.code.extend_from_slice(&[0, 0]);
                self.blobs.push((fix, code.clone()));
                self.push(0);
                self.op(0x39);
                self.push(code.len() as u64);
                self.push(0);
                self.op(0xf3);
            }
            Stmt::Log0Word(e) => {
                self.expr(e);
                self.push(0);
                self.op(0x52);
                self.push(32);
                self.push(0);
                self.op(0xa0);
            }
        }
    }
}

/// Assemble a statement list into runtime bytecode (ends with STOP).
pub fn assemble(stmts: &[Stmt]) -> Vec<u8> {
    let mut a = Asm { code: Vec::new(), fixups: Vec::new(), labels: Vec::new(), blobs: Vec::new() };
    a.stmts(stmts);
    a.op(0x00);
    for (pos, l) in a.fixups.clone() {
        let target = a.labels[l].expect("label placed") as u16;
        a.code[pos] = (target >> 8) as u8;
        a.code[pos + 1] = target as u8;
    }
    for (pos, blob) in std::mem::take(&mut a.blobs) {
        let offset = a.code.len() as u16;
        a.code[pos] = (offset >> 8) as u8;
        a.code[pos + 1] = offset as u8;
        a.code.extend_from_slice(&blob);
    }
    a.code
}

/// Initcode running `ctor` statements and then deploying `runtime`.
pub fn initcode(ctor: &[Stmt], runtime: &[u8]) -> Vec<u8> {
    let mut stmts = ctor.to_vec();
    stmts.push(Stmt::ReturnCode(runtime.to_vec()));
    assemble(&stmts)
}
