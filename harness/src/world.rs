//! Pre-state database (with optional fault injection), block description, the stock-revm
//! in-order oracle, the grevm runner and the comparison of outcomes and bundles.

use crate::ctrl::{Ctrl, RunReport, Strategy};
use alloy_evm::{EthEvm, Evm, precompiles::PrecompilesMap};
use grevm::{
    DelegatedSafetyConfig, DynParallelPrecompile, GrevmConfig, GrevmError, ParallelState,
    ParallelTakeBundle, Scheduler, TxExecutionOutcome,
};
use revm::{
    Context, DatabaseCommit, DatabaseRef, MainBuilder, MainContext, handler::EthPrecompiles,
};
use revm_context::{
    BlockEnv, CfgEnv, DBErrorMarker, TxEnv,
    result::{EVMError, ExecutionResult},
};
use revm_database::{BundleState, StateBuilder, states::bundle_state::BundleRetention};
use revm_inspector::NoOpInspector;
use revm_primitives::{Address, B256, KECCAK_EMPTY, U256, hardfork::SpecId};
use revm_state::{AccountInfo, Bytecode};
use std::{
    collections::{BTreeMap, HashMap},
    fmt,
    sync::{
        Arc, Mutex,
        atomic::{AtomicU64, Ordering},
    },
};

// ------------------------------------------------------------------------------------------------
// Database
// ------------------------------------------------------------------------------------------------

#[derive(Clone, Debug, PartialEq, Eq)]
pub struct DbError(pub String);

impl fmt::Display for DbError {
    fn fmt(&self, f: &mut fmt::Formatter<'_>) -> fmt::Result {
        write!(f, "{}", self.0)
    }
}
impl core::error::Error for DbError {}
impl DBErrorMarker for DbError {}

#[derive(Clone, Debug, Default)]
pub struct MemAccount {
    pub info: AccountInfo,
    pub storage: BTreeMap<U256, U256>,
}

/// A database key, for fault injection and access logging.
#[derive(Clone, Debug, PartialEq, Eq, Hash, PartialOrd, Ord)]
pub enum Key {
    Basic(Address),
    Storage(Address, U256),
    Code(B256),
    BlockHash(u64),
}

#[derive(Clone, Copy, Debug, PartialEq, Eq)]
pub enum FaultMode {
    Persistent,
    /// fail the first `n` reads of the key, then succeed
    FailFirst(u64),
}

#[derive(Debug, Default)]
pub struct MemDb {
    pub accounts: BTreeMap<Address, MemAccount>,
    pub codes: HashMap<B256, Bytecode>,
    pub fault: Option<(Key, FaultMode)>,
    pub fault_hits: AtomicU64,
    /// every key ever read (for fault enumeration)
    pub touched: Mutex<std::collections::BTreeSet<Key>>,
    pub log_touched: bool,
    /// return accounts with their bytecode attached (as some node databases do)
    pub attach_code: bool,
    /// sleep this long in every read (lets entry-point callers arrive while a block is running)
    pub delay_us: u64,
    /// panic when this key is read (a user database that panics inside a worker)
    pub panic_key: Option<Key>,
    /// panic only on the first read of `panic_key`
    pub panic_once: bool,
    /// how many times the injected panic was raised
    pub panics_raised: AtomicU64,
}

impl Clone for MemDb {
    fn clone(&self) -> Self {
        Self {
            accounts: self.accounts.clone(),
            codes: self.codes.clone(),
            fault: self.fault.clone(),
            fault_hits: AtomicU64::new(0),
            touched: Mutex::new(Default::default()),
            log_touched: self.log_touched,
            attach_code: self.attach_code,
            delay_us: self.delay_us,
            panic_key: self.panic_key.clone(),
            panic_once: self.panic_once,
            panics_raised: AtomicU64::new(0),
        }
    }
}

impl MemDb {
    pub fn insert_eoa(&mut self, a: Address, balance: U256, nonce: u64) {
        self.accounts.insert(
            a,
            MemAccount {
                info: AccountInfo { balance, nonce, code_hash: KECCAK_EMPTY, code: None, ..Default::default() },
                storage: BTreeMap::new(),
            },
        );
    }
    pub fn insert_contract(&mut self, a: Address, code: Vec<u8>, balance: U256, storage: &[(u64, u64)]) {
        let bytecode = Bytecode::new_raw(code.into());
        let hash = bytecode.hash_slow();
        self.codes.insert(hash, bytecode);
        self.accounts.insert(
            a,
            MemAccount {
                info: AccountInfo { balance, nonce: 1, code_hash: hash, code: None, ..Default::default() },
                storage: storage.iter().map(|(k, v)| (U256::from(*k), U256::from(*v))).collect(),
            },
        );
    }
    /// EIP-7702 delegated EOA.
    pub fn insert_delegated(&mut self, a: Address, target: Address, balance: U256, nonce: u64) {
        let bytecode = Bytecode::new_eip7702(target);
        let hash = bytecode.hash_slow();
        self.codes.insert(hash, bytecode);
        self.accounts.insert(
            a,
            MemAccount {
                info: AccountInfo { balance, nonce, code_hash: hash, code: None, ..Default::default() },
                storage: BTreeMap::new(),
            },
        );
    }
    fn check(&self, key: Key) -> Result<(), DbError> {
        if self.panic_key.as_ref() == Some(&key) {
            let n = self.panics_raised.fetch_add(1, Ordering::SeqCst);
            if !self.panic_once || n == 0 {
                panic!("injected panic at {key:?}");
            }
        }
        if self.delay_us > 0 {
            std::thread::sleep(std::time::Duration::from_micros(self.delay_us));
        }
        if self.log_touched {
            self.touched.lock().unwrap().insert(key.clone());
        }
        if let Some((k, mode)) = &self.fault {
            if *k == key {
                let n = self.fault_hits.fetch_add(1, Ordering::SeqCst);
                let fail = match mode {
                    FaultMode::Persistent => true,
                    FaultMode::FailFirst(m) => n < *m,
                };
                if fail {
                    return Err(DbError(format!("injected fault at {key:?}")));
                }
            }
        }
        Ok(())
    }
}

impl DatabaseRef for MemDb {
    type Error = DbError;
    fn basic_ref(&self, address: Address) -> Result<Option<AccountInfo>, DbError> {
        self.check(Key::Basic(address))?;
        Ok(self.accounts.get(&address).map(|a| {
            let mut info = a.info.clone();
            if self.attach_code && info.code.is_none() && info.code_hash != KECCAK_EMPTY {
                info.code = self.codes.get(&info.code_hash).cloned();
            }
            info
        }))
    }
    fn code_by_hash_ref(&self, code_hash: B256) -> Result<Bytecode, DbError> {
        self.check(Key::Code(code_hash))?;
        if code_hash == KECCAK_EMPTY {
            return Ok(Bytecode::default());
        }
        self.codes.get(&code_hash).cloned().ok_or_else(|| DbError(format!("no code {code_hash}")))
    }
    fn storage_ref(&self, address: Address, index: U256) -> Result<U256, DbError> {
        self.check(Key::Storage(address, index))?;
        Ok(self.accounts.get(&address).and_then(|a| a.storage.get(&index).copied()).unwrap_or_default())
    }
    fn block_hash_ref(&self, number: u64) -> Result<B256, DbError> {
        self.check(Key::BlockHash(number))?;
        Ok(B256::from(U256::from(number).wrapping_mul(U256::from(0x9E3779B97F4A7C15u64))))
    }
}

// ------------------------------------------------------------------------------------------------
// Block
// ------------------------------------------------------------------------------------------------

#[derive(Clone)]
pub struct Block {
    pub spec: SpecId,
    pub disable_nonce_check: bool,
    pub env: BlockEnv,
    pub db: MemDb,
    pub txs: Vec<TxEnv>,
    pub precompiles: Vec<(Address, DynParallelPrecompile)>,
    /// human-readable description of each tx (for samples and replays)
    pub desc: Vec<String>,
    pub safety: DelegatedSafetyConfig,
}

impl Block {
    pub fn cfg(&self) -> CfgEnv {
        let mut cfg = CfgEnv::new_with_spec(self.spec);
        cfg.disable_nonce_check = self.disable_nonce_check;
        cfg
    }
}

/// Canonical summary of one transaction's finalized journal state (touched accounts only).
pub type StateSummary = BTreeMap<Address, String>;

pub fn summarize_state(state: &revm_state::EvmState, skip: Option<Address>) -> StateSummary {
    let mut out = BTreeMap::new();
    for (address, account) in state.iter() {
        if Some(*address) == skip || !account.is_touched() {
            continue;
        }
        let slots: BTreeMap<_, _> = account.changed_storage_slots().map(|(k, v)| (*k, v.present_value)).collect();
        out.insert(
            *address,
            format!(
                "destroyed={} created={} empty={} bal={} nonce={} code={} slots={:?}",
                account.is_selfdestructed(),
                account.is_created(),
                account.is_empty(),
                account.info.balance,
                account.info.nonce,
                account.info.code_hash,
                slots
            ),
        );
    }
    out
}

#[derive(Clone, Debug, PartialEq)]
pub struct RunResult {
    pub outcomes: Vec<TxExecutionOutcome>,
    /// `Err((txid, rendered error))`
    pub status: Result<(), (usize, String)>,
    pub bundle: BundleState,
}

// ------------------------------------------------------------------------------------------------
// Oracle: stock revm, one transaction at a time, skipping invalid ones
// ------------------------------------------------------------------------------------------------

fn render_err(e: &EVMError<DbError>) -> String {
    match e {
        EVMError::Database(d) => format!("db:{d}"),
        EVMError::Transaction(t) => format!("tx:{t:?}"),
        EVMError::Header(h) => format!("header:{h:?}"),
        EVMError::Custom(c) => format!("custom:{c}"),
        EVMError::CustomAny(c) => format!("customany:{c}"),
    }
}

pub fn render_grevm_err(e: &GrevmError<DbError>) -> (usize, String) {
    (e.txid, render_err(&e.error))
}

/// In-order reference execution. The beneficiary account is loaded up front (as the property
/// statement of C04 says), attributing a failure of that load to transaction 0.
pub fn oracle(block: &Block) -> RunResult {
    oracle_with_states(block).0
}

/// The oracle plus, per transaction, the summary of its finalized state (None if skipped).
pub fn oracle_with_states(block: &Block) -> (RunResult, Vec<Option<StateSummary>>) {
    let mut states: Vec<Option<StateSummary>> = Vec::new();
    let db = StateBuilder::new().with_bundle_update().with_database_ref(&block.db).build();
    let spec = block.spec;
    let mut precompiles = PrecompilesMap::from_static(EthPrecompiles::new(spec).precompiles);
    for (address, precompile) in &block.precompiles {
        let p = precompile.to_alloy();
        precompiles.apply_precompile(address, move |_| Some(p));
    }
    let mut evm = Context::mainnet()
        .with_db(db)
        .with_cfg(block.cfg())
        .with_block(block.env.clone())
        .build_mainnet_with_inspector(NoOpInspector {})
        .with_precompiles(precompiles);
    // CREATE / CREATE2 of the oracle consult the decision table of the Lean model
    // (`Guard.effective`, loaded from gmodel); everything else is stock revm.
    oracle_guard::ENABLED.with(|e| e.set(block.safety.forbid_delegated_create));
    evm.instruction = oracle_guard::instructions(spec);
    let mut evm = EthEvm::new(evm, false);
    let mut outcomes = Vec::new();
    let mut status = Ok(());
    if !block.txs.is_empty() {
        if let Err(e) = block.db.basic_ref(block.env.beneficiary) {
            status = Err((0, format!("db:{e}")));
        }
    }
    if status.is_ok() {
        for (i, tx) in block.txs.iter().enumerate() {
            if !block.disable_nonce_check && tx.nonce == u64::MAX {
                match evm.db_mut().basic_ref(tx.caller) {
                    Ok(info) => {
                        if info.map_or(0, |i| i.nonce) == u64::MAX {
                            outcomes.push(TxExecutionOutcome::Skipped(
                                grevm::InvalidTransaction::NonceOverflowInTransaction,
                            ));
                            states.push(None);
                            continue;
                        }
                    }
                    Err(e) => {
                        status = Err((i, format!("db:{}", e.into_external_error())));
                        break;
                    }
                }
            }
            match evm.transact_raw(tx.clone()) {
                Ok(rs) => {
                    states.push(Some(summarize_state(&rs.state, Some(block.env.beneficiary))));
                    evm.db_mut().commit(rs.state);
                    outcomes.push(TxExecutionOutcome::Executed(rs.result));
                }
                Err(EVMError::Transaction(t)) => {
                    states.push(None);
                    outcomes.push(TxExecutionOutcome::Skipped(t))
                }
                Err(e) => {
                    let e: EVMError<DbError> = match e {
                        EVMError::Database(d) => EVMError::Database(d.into_external_error()),
                        EVMError::Header(h) => EVMError::Header(h),
                        EVMError::Custom(c) => EVMError::Custom(c),
                        EVMError::CustomAny(c) => EVMError::CustomAny(c),
                        EVMError::Transaction(t) => EVMError::Transaction(t),
                    };
                    status = Err((i, render_err(&e)));
                    break;
                }
            }
        }
    }
    evm.db_mut().merge_transitions(BundleRetention::Reverts);
    let bundle = evm.db_mut().take_bundle();
    (RunResult { outcomes, status, bundle }, states)
}

/// The delegated-CREATE rule written down independently, from the property statement, on top of
/// stock revm: CREATE / CREATE2 executed in the context of an account whose code is an EIP-7702
/// delegation designator (`0xef0100 || address`) halt as not-activated; everything else is the
/// stock instruction.
pub mod oracle_guard {
    use revm::{
        bytecode::opcode::{CREATE, CREATE2},
        handler::instructions::EthInstructions,
        interpreter::{
            Host, Instruction, InstructionContext, InstructionExecResult, InstructionResult,
            instructions::contract,
            interpreter::EthInterpreter,
            interpreter_types::{InputsTr, InterpreterTypes, RuntimeFlag},
        },
    };
    use revm_primitives::hardfork::SpecId;
    use std::{cell::Cell, sync::OnceLock};

    thread_local! {
        /// the block's `forbid_delegated_create` switch (the oracle runs on the calling thread)
        pub static ENABLED: Cell<bool> = const { Cell::new(false) };
    }
    /// `Guard.effective` as a table indexed by (enabled, prague, static, create2, petersburg,
    /// delegated); values 0 static violation, 1 not activated, 2 stock create.
    pub static TABLE: OnceLock<[u8; 64]> = OnceLock::new();
    pub static GMODEL: OnceLock<String> = OnceLock::new();

    fn table() -> &'static [u8; 64] {
        TABLE.get_or_init(|| {
            let path = GMODEL.get().cloned().unwrap_or_else(|| "/verif/lean/.lake/build/bin/gmodel".to_owned());
            let out = crate::lean::run_gmodel(&path, "guard-table\nend\n").expect("gmodel guard-table");
            let mut t = [255u8; 64];
            for row in out.first().map(|l| l.split(' ').collect::<Vec<_>>()).unwrap_or_default() {
                if let Some((bits, v)) = row.split_once('=') {
                    let idx = usize::from_str_radix(bits, 2).expect("guard-table row");
                    t[idx] = v.parse().expect("guard-table value");
                }
            }
            assert!(t.iter().all(|v| *v <= 2), "incomplete guard table from the Lean model");
            t
        })
    }

    pub fn instructions<CTX: Host>(spec: SpecId) -> EthInstructions<EthInterpreter, CTX> {
        let mut t = EthInstructions::new_mainnet_with_spec(spec);
        t.insert_instruction(CREATE, Instruction::new(create::<false, _, _>), 0);
        t.insert_instruction(CREATE2, Instruction::new(create::<true, _, _>), 0);
        t
    }

    fn create<const IS_CREATE2: bool, WIRE: InterpreterTypes, H: Host + ?Sized>(
        context: InstructionContext<'_, H, WIRE>,
    ) -> InstructionExecResult {
        let spec = context.interpreter.runtime_flag.spec_id();
        let is_static = context.interpreter.runtime_flag.is_static();
        // does the account in whose context this frame runs carry `0xef0100 || address`?
        let mut delegated = false;
        if !is_static {
            let me = context.interpreter.input.target_address();
            if let Some(code) = context.host.load_account_code(me) {
                let bytes = &code.data;
                delegated = bytes.len() == 23 && bytes[0] == 0xef && bytes[1] == 0x01 && bytes[2] == 0x00;
            }
        }
        let bits = [
            ENABLED.with(Cell::get),
            spec.is_enabled_in(SpecId::PRAGUE),
            is_static,
            IS_CREATE2,
            spec.is_enabled_in(SpecId::PETERSBURG),
            delegated,
        ];
        let idx = bits.iter().fold(0usize, |acc, b| acc * 2 + *b as usize);
        match table()[idx] {
            0 => Err(InstructionResult::StateChangeDuringStaticCall),
            1 => Err(InstructionResult::NotActivated),
            _ => contract::create::<IS_CREATE2, WIRE, H>(context),
        }
    }
}

/// Commit events observed during one grevm run: `(txid, result rendering, state summary, deferred)`.
pub type CommitLog = Arc<Mutex<Vec<(usize, TxExecutionOutcome, StateSummary, Option<U256>)>>>;

pub fn install_commit_log(beneficiary: Address) -> CommitLog {
    let log: CommitLog = Arc::new(Mutex::new(Vec::new()));
    let l2 = log.clone();
    // an attempt is recorded first; it stays in the log only if the commit is then applied
    let pending: Arc<Mutex<Option<(usize, TxExecutionOutcome, StateSummary, Option<U256>)>>> =
        Arc::new(Mutex::new(None));
    let p2 = pending.clone();
    grevm::verif::set_commit_observer(Some(Arc::new(move |txid, rs, deferred| {
        *p2.lock().unwrap() = Some((
            txid,
            TxExecutionOutcome::Executed(rs.result.clone()),
            summarize_state(&rs.state, Some(beneficiary)),
            deferred,
        ));
    })));
    grevm::verif::set_commit_done_observer(Some(Arc::new(move |txid| {
        if let Some(ev) = pending.lock().unwrap().take() {
            if ev.0 == txid {
                l2.lock().unwrap().push(ev);
            }
        }
    })));
    log
}

/// Check the commit events of a run against the oracle: in order, each once, each equal to the
/// in-order result and state of that transaction.
pub fn check_commit_log(
    log: &[(usize, TxExecutionOutcome, StateSummary, Option<U256>)],
    expected: &RunResult,
    states: &[Option<StateSummary>],
) -> Option<String> {
    for (k, (txid, outcome, summary, _)) in log.iter().enumerate() {
        if *txid != k {
            return Some(format!("commit event {k} is for transaction {txid}: commits are not contiguous, in order, exactly once"));
        }
        match expected.outcomes.get(k) {
            None => return Some(format!("transaction {k} was committed but in-order execution stops before it")),
            Some(e) => {
                if e != outcome {
                    return Some(format!("commit of transaction {k}: result differs from in-order execution: expected {e:?}, committed {outcome:?}"));
                }
            }
        }
        match states.get(k).and_then(|s| s.as_ref()) {
            None => return Some(format!("transaction {k} was committed but in-order execution skips it")),
            Some(s) => {
                if s != summary {
                    return Some(format!("commit of transaction {k}: state changes differ from in-order execution: expected {s:?}, committed {summary:?}"));
                }
            }
        }
    }
    None
}

// ------------------------------------------------------------------------------------------------
// grevm runner
// ------------------------------------------------------------------------------------------------

#[derive(Clone, Debug)]
pub struct RunCfg {
    pub workers: usize,
    pub min_parallel_txs: usize,
    pub force_sequential: bool,
    /// call `fallback_sequential()` instead of `execute()`
    pub entry_fallback: bool,
}

impl RunCfg {
    pub fn parallel(workers: usize) -> Self {
        Self { workers, min_parallel_txs: 0, force_sequential: false, entry_fallback: false }
    }
    pub fn describe(&self) -> String {
        format!(
            "workers={} min_parallel={} force_seq={} entry={}",
            self.workers,
            self.min_parallel_txs,
            self.force_sequential,
            if self.entry_fallback { "fallback_sequential" } else { "execute" }
        )
    }
}

pub struct GrevmRun {
    pub result: RunResult,
    pub report: Option<RunReport>,
    pub panicked: Option<String>,
}

/// Run grevm on the block; with `schedule` the scheduler threads are serialised by the controller.
pub fn run_grevm(block: &Block, cfg: &RunCfg, schedule: Option<(Strategy, u64)>) -> GrevmRun {
    let state = ParallelState::new(block.db.clone(), true, false);
    run_grevm_on(block, cfg, schedule, state).0
}

/// Process-level watchdog: a run that does not return is itself the finding (C05). The harness
/// cannot cancel scheduler threads, so it reports what it knows and exits.
pub mod watchdog {
    use std::{
        sync::{Mutex, OnceLock},
        time::{Duration, Instant},
    };

    struct Armed {
        since: Instant,
        limit: Duration,
        what: String,
    }
    static ARMED: Mutex<Option<Armed>> = Mutex::new(None);
    static STARTED: OnceLock<()> = OnceLock::new();
    /// context of the running check (subcommand, case, seed), set by the subcommands
    pub static CONTEXT: Mutex<String> = Mutex::new(String::new());
    pub static CASES_DONE: std::sync::atomic::AtomicUsize = std::sync::atomic::AtomicUsize::new(0);

    pub fn arm(what: String, limit: Duration) {
        STARTED.get_or_init(|| {
            std::thread::spawn(|| loop {
                std::thread::sleep(Duration::from_millis(250));
                let fire = {
                    let g = ARMED.lock().unwrap();
                    g.as_ref().filter(|a| a.since.elapsed() > a.limit).map(|a| (a.what.clone(), a.limit))
                };
                if let Some((what, limit)) = fire {
                    let ctx = CONTEXT.lock().unwrap().clone();
                    let detail = format!("execution did not return within {}s: {what}; context: {ctx}", limit.as_secs());
                    let j = crate::json::J::obj(vec![
                        ("check", crate::json::J::s(format!("watchdog ({ctx})"))),
                        ("cases", crate::json::J::n(CASES_DONE.load(std::sync::atomic::Ordering::SeqCst))),
                        ("conforming", crate::json::J::n(0)),
                        ("distinct_nontrivial", crate::json::J::n(0)),
                        (
                            "divergences",
                            crate::json::J::Arr(vec![crate::json::J::obj(vec![
                                ("kind", crate::json::J::s("stall")),
                                ("detail", crate::json::J::s(detail)),
                            ])]),
                        ),
                        ("samples", crate::json::J::Arr(vec![])),
                    ]);
                    println!("{}", j.render());
                    std::process::exit(0);
                }
            });
        });
        *ARMED.lock().unwrap() = Some(Armed { since: Instant::now(), limit, what });
    }

    pub fn disarm() {
        *ARMED.lock().unwrap() = None;
    }
}

pub fn run_grevm_on(
    block: &Block,
    cfg: &RunCfg,
    schedule: Option<(Strategy, u64)>,
    state: ParallelState<MemDb>,
) -> (GrevmRun, Option<ParallelState<MemDb>>) {
    let config = GrevmConfig {
        concurrency_level: cfg.workers,
        force_sequential: cfg.force_sequential,
        min_parallel_txs: cfg.min_parallel_txs,
        delegated_safety: block.safety,
    };
    let precompiles =
        if block.precompiles.is_empty() { None } else { Some(Arc::new(block.precompiles.clone())) };
    let scheduler = Scheduler::new_with_runtime_config(
        block.cfg(),
        block.env.clone(),
        Arc::new(block.txs.clone()),
        state,
        precompiles,
        config,
    );
    let goes_parallel =
        !cfg.entry_fallback && !cfg.force_sequential && block.txs.len() >= cfg.min_parallel_txs;
    let ctrl = match (&schedule, goes_parallel) {
        (Some((strategy, seed)), true) => {
            let c = Ctrl::new(strategy.clone(), *seed, cfg.workers + 2);
            c.install();
            Some(c)
        }
        _ => None,
    };
    watchdog::arm(
        format!(
            "block of {} txs {:?}, config {}, schedule {:?}",
            block.txs.len(),
            block.desc,
            cfg.describe(),
            schedule.as_ref().map(|(s, seed)| (format!("{s:?}").chars().take(200).collect::<String>(), *seed))
        ),
        std::time::Duration::from_secs(if ctrl.is_some() { 90 } else { 60 }),
    );
    let run = std::panic::catch_unwind(std::panic::AssertUnwindSafe(|| {
        if cfg.entry_fallback { scheduler.fallback_sequential() } else { scheduler.execute() }
    }));
    watchdog::disarm();
    let report = ctrl.map(|c| c.finish());
    match run {
        Ok(res) => {
            let status = res.map_err(|e| render_grevm_err(&e));
            let (outcomes, mut state) = scheduler.take_result_and_state();
            let bundle = state.parallel_take_bundle(BundleRetention::Reverts);
            (
                GrevmRun { result: RunResult { outcomes, status, bundle }, report, panicked: None },
                Some(state),
            )
        }
        Err(p) => {
            let msg = p
                .downcast_ref::<String>()
                .cloned()
                .or_else(|| p.downcast_ref::<&str>().map(|s| (*s).to_owned()))
                .unwrap_or_else(|| "panic".to_owned());
            (
                GrevmRun {
                    result: RunResult {
                        outcomes: vec![],
                        status: Err((usize::MAX, format!("panic:{msg}"))),
                        bundle: BundleState::default(),
                    },
                    report,
                    panicked: Some(msg),
                },
                None,
            )
        }
    }
}

// ------------------------------------------------------------------------------------------------
// Comparison
// ------------------------------------------------------------------------------------------------

pub fn compare_bundles(a: &BundleState, b: &BundleState) -> Option<String> {
    if a.contracts.len() != b.contracts.len() || a.contracts.keys().any(|k| !b.contracts.contains_key(k)) {
        return Some(format!("contracts differ: {:?} vs {:?}", a.contracts.keys(), b.contracts.keys()));
    }
    let sa: BTreeMap<_, _> = a.state.iter().collect();
    let sb: BTreeMap<_, _> = b.state.iter().collect();
    if sa.len() != sb.len() {
        return Some(format!(
            "bundle account sets differ: {:?} vs {:?}",
            sa.keys().collect::<Vec<_>>(),
            sb.keys().collect::<Vec<_>>()
        ));
    }
    for ((ka, va), (kb, vb)) in sa.iter().zip(sb.iter()) {
        if ka != kb {
            return Some(format!("bundle account sets differ at {ka} vs {kb}"));
        }
        if va.info != vb.info {
            return Some(format!("account {ka} info differs: {:?} vs {:?}", va.info, vb.info));
        }
        if va.original_info != vb.original_info {
            return Some(format!(
                "account {ka} original_info differs: {:?} vs {:?}",
                va.original_info, vb.original_info
            ));
        }
        if va.status != vb.status {
            return Some(format!("account {ka} status differs: {:?} vs {:?}", va.status, vb.status));
        }
        let ta: BTreeMap<_, _> = va.storage.iter().collect();
        let tb: BTreeMap<_, _> = vb.storage.iter().collect();
        if ta != tb {
            return Some(format!("account {ka} storage differs: {ta:?} vs {tb:?}"));
        }
    }
    if a.reverts.len() != b.reverts.len() {
        return Some(format!("revert block counts differ: {} vs {}", a.reverts.len(), b.reverts.len()));
    }
    for (ra, rb) in a.reverts.iter().zip(b.reverts.iter()) {
        let ma: BTreeMap<_, _> = ra.iter().map(|(k, v)| (k, v)).collect();
        let mb: BTreeMap<_, _> = rb.iter().map(|(k, v)| (k, v)).collect();
        if ma.len() != ra.len() || mb.len() != rb.len() {
            return Some("duplicate address in a revert list".to_owned());
        }
        if ma != mb {
            for (k, v) in &ma {
                if mb.get(k) != Some(v) {
                    return Some(format!("revert of {k} differs: {v:?} vs {:?}", mb.get(k)));
                }
            }
            return Some("revert sets differ".to_owned());
        }
    }
    if a.state_size != b.state_size {
        return Some(format!("state_size differs: {} vs {}", a.state_size, b.state_size));
    }
    if a.reverts_size != b.reverts_size {
        return Some(format!("reverts_size differs: {} vs {}", a.reverts_size, b.reverts_size));
    }
    None
}

/// Compare a run with the reference. `None` = equal.
pub fn compare_runs(expected: &RunResult, actual: &RunResult) -> Option<String> {
    if expected.status != actual.status {
        return Some(format!("status differs: expected {:?}, got {:?}", expected.status, actual.status));
    }
    if expected.outcomes.len() != actual.outcomes.len() {
        return Some(format!(
            "outcome count differs: expected {}, got {}",
            expected.outcomes.len(),
            actual.outcomes.len()
        ));
    }
    for (i, (e, a)) in expected.outcomes.iter().zip(actual.outcomes.iter()).enumerate() {
        if e != a {
            return Some(format!("outcome {i} differs: expected {e:?}, got {a:?}"));
        }
    }
    compare_bundles(&expected.bundle, &actual.bundle).map(|m| format!("bundle: {m}"))
}

pub fn outcome_kind(o: &TxExecutionOutcome) -> &'static str {
    match o {
        TxExecutionOutcome::Executed(ExecutionResult::Success { .. }) => "success",
        TxExecutionOutcome::Executed(ExecutionResult::Revert { .. }) => "revert",
        TxExecutionOutcome::Executed(ExecutionResult::Halt { .. }) => "halt",
        TxExecutionOutcome::Skipped(_) => "skipped",
    }
}

// ------------------------------------------------------------------------------------------------
// Reserve policy (C13): checks of a policy-on result that need no policy-aware oracle
// ------------------------------------------------------------------------------------------------

fn max_cost(tx: &TxEnv) -> U256 {
    revm::context_interface::Transaction::max_balance_spending(tx).unwrap_or(U256::MAX)
}

fn field<'a>(summary: &'a str, key: &str) -> Option<&'a str> {
    let at = summary.find(key)? + key.len();
    summary[at..].split(' ').next()
}

/// `reference` is the result of running `block` with the balance reserve enabled. Checks
/// (1) fundability: a sender whose block-start balance covers the maximum cost of all its
///     transactions is never skipped for lack of funds;
/// (2) against stock revm with the policy off, up to and including the first transaction whose
///     outcome differs: an agreeing transaction must not have left a delegated account (debited by
///     somebody else's transaction) below the cost of its later transactions; the first differing
///     transaction must be a top-level revert with empty output, and some delegated account must
///     have ended below the cost of its later transactions in the policy-off execution.
pub fn reserve_checks(block: &Block, reference: &RunResult) -> Option<String> {
    let n = block.txs.len();
    let cost_after = |i: usize, a: Address| -> U256 {
        block.txs.iter().enumerate().filter(|(j, t)| *j > i && t.caller == a).fold(U256::ZERO, |acc, (_, t)| acc.saturating_add(max_cost(t)))
    };
    // (1)
    let callers: std::collections::BTreeSet<Address> = block.txs.iter().map(|t| t.caller).collect();
    for a in &callers {
        let start = block.db.accounts.get(a).map_or(U256::ZERO, |x| x.info.balance);
        let total = block.txs.iter().filter(|t| t.caller == *a).fold(U256::ZERO, |acc, t| acc.saturating_add(max_cost(t)));
        if start >= total {
            for (i, t) in block.txs.iter().enumerate() {
                if t.caller == *a {
                    if let Some(TxExecutionOutcome::Skipped(grevm::InvalidTransaction::LackOfFundForMaxFee { fee, balance })) = reference.outcomes.get(i) {
                        return Some(format!("fundability: account {a:#x} held {start} >= {total} (maximum cost of all its transactions) at block start, yet its transaction {i} was skipped for lack of funds (fee {fee}, balance {balance})"));
                    }
                }
            }
        }
    }
    // (2)
    let mut off_block = block.clone();
    off_block.safety.reserve_delegated_balance = false;
    let (off, off_states) = oracle_with_states(&off_block);
    let mut candidates: std::collections::BTreeSet<Address> = block
        .db
        .accounts
        .iter()
        .filter(|(_, acc)| block.db.codes.get(&acc.info.code_hash).is_some_and(|c| c.is_eip7702()))
        .map(|(a, _)| *a)
        .collect();
    for t in &block.txs {
        for auth in &t.authorization_list {
            if let revm_context::either::Either::Right(r) = auth {
                if let Some(a) = r.authority() {
                    candidates.insert(a);
                }
            }
        }
    }
    let mut bal: BTreeMap<Address, U256> = BTreeMap::new();
    let mut delegated: BTreeMap<Address, bool> = BTreeMap::new();
    for a in &candidates {
        let acc = block.db.accounts.get(a);
        bal.insert(*a, acc.map_or(U256::ZERO, |x| x.info.balance));
        delegated.insert(*a, acc.is_some_and(|x| x.info.code_hash != KECCAK_EMPTY));
    }
    for i in 0..n.min(reference.outcomes.len()).min(off.outcomes.len()) {
        let summary = off_states.get(i).and_then(|s| s.as_ref());
        let mut post = bal.clone();
        let mut post_delegated = delegated.clone();
        if let Some(summary) = summary {
            for a in &candidates {
                if let Some(s) = summary.get(a) {
                    if let Some(b) = field(s, "bal=").and_then(|b| b.parse::<U256>().ok()) {
                        post.insert(*a, b);
                    }
                    if let Some(c) = field(s, "code=").and_then(|c| c.parse::<B256>().ok()) {
                        post_delegated.insert(*a, c != KECCAK_EMPTY);
                    }
                }
            }
        }
        let agree = reference.outcomes[i] == off.outcomes[i];
        if agree {
            for a in &candidates {
                let fc = cost_after(i, *a);
                if delegated[a] && post_delegated[a] && block.txs[i].caller != *a && post[a] < bal[a] && fc > post[a] {
                    return Some(format!(
                        "transaction {i} (sent by {:#x}) lowered the delegated account {a:#x} from {} to {}, below the cost {fc} of its later transactions, but was not turned into a revert (outcome equals the policy-off outcome {:?})",
                        block.txs[i].caller, bal[a], post[a], reference.outcomes[i]
                    ));
                }
            }
        } else {
            match &reference.outcomes[i] {
                TxExecutionOutcome::Executed(ExecutionResult::Revert { output, .. }) if output.is_empty() => {}
                other => {
                    return Some(format!("with the reserve enabled transaction {i} differs from stock revm ({:?}) but is not a top-level revert with empty output: {other:?}", off.outcomes[i]));
                }
            }
            // a justifying account must have been DEBITED by delegated execution in the policy-off
            // run: its balance fell by more than what it paid itself as sender (fee on the gas
            // actually used, plus the top-level value unless sent to itself)
            let own_spend = |a: &Address| -> U256 {
                let tx = &block.txs[i];
                if tx.caller != *a {
                    return U256::ZERO;
                }
                let used = match &off.outcomes[i] {
                    TxExecutionOutcome::Executed(r) => r.tx_gas_used(),
                    TxExecutionOutcome::Skipped(_) => 0,
                };
                let price = revm::context_interface::Transaction::effective_gas_price(tx, block.env.basefee as u128);
                let value = match tx.kind {
                    revm_primitives::TxKind::Call(to) if to == *a => U256::ZERO,
                    _ => tx.value,
                };
                U256::from(used).saturating_mul(U256::from(price)).saturating_add(value)
            };
            // an account the transaction did not even touch cannot have been debited
            let touched = |a: &Address| summary.is_some_and(|s| s.contains_key(a));
            let justified = candidates.iter().any(|a| {
                touched(a) &&
                    (delegated[a] || post_delegated[a]) &&
                    cost_after(i, *a) > post[a] &&
                    // (for an account that is not the sender a credit may precede the debit, so
                    // nothing can be concluded from its net change: a credit followed by an equal debit
                    // still counts, the protected balance includes the credit)
                    (block.txs[i].caller != *a || bal[a].saturating_sub(post[a]) > own_spend(a))
            });
            if !justified {
                return Some(format!(
                    "transaction {i} was turned into a revert, but in the policy-off execution no delegated account ends below the cost of its later transactions (balances after: {:?})",
                    candidates.iter().map(|a| (format!("{a:#x}"), post[a], cost_after(i, *a))).collect::<Vec<_>>()
                ));
            }
            return None;
        }
        bal = post;
        delegated = post_delegated;
    }
    None
}
