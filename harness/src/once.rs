//! C14: a scheduler executes its block at most once, whichever public entry points are called,
//! in whatever order, from however many threads.
//!
//! Each case builds one scheduler over a generated block and issues `k` entry-point calls
//! (`execute`, `parallel_execute(Some(w))`, `fallback_sequential`) either one after another, or
//! from racing threads, or with late callers arriving while the first one is still inside the
//! block (the database is slowed down). Checked against the in-order oracle: exactly one call is
//! elected, every other call returns the only-once error and leaves no trace, and the final
//! outcomes and state are those of ONE in-order execution. The observed results are then replayed
//! through the Lean model `RunOnce.step`.

use crate::{
    Args,
    blocks,
    ctrl::Rng,
    json::J,
    lean,
    world::{self, Block, RunResult},
};
use grevm::{GrevmConfig, ParallelState, ParallelTakeBundle, Scheduler};
use revm_database::states::bundle_state::BundleRetention;
use std::{
    collections::BTreeMap,
    sync::{Arc, Barrier, Mutex},
};

#[derive(Clone, Copy, Debug)]
enum Entry {
    Execute,
    Parallel(usize),
    Fallback,
}

fn pick_entry(rng: &mut Rng) -> Entry {
    match rng.below(4) {
        0 | 1 => Entry::Execute,
        2 => Entry::Parallel(1 + rng.below(3)),
        _ => Entry::Fallback,
    }
}

const ONCE: &str = "can execute only once";

pub fn cmd_once(args: &Args) -> J {
    let seed = args.num("seed", 1);
    let cases = args.num("cases", 200);
    let gmodel = args.str("gmodel", "/verif/lean/.lake/build/bin/gmodel");
    let mut rng = Rng::new(seed ^ 0x0ce);
    // keep the injected panics (mode "panic") out of the output
    std::panic::set_hook(Box::new(|_| {}));
    let mut session = String::new();
    let mut divergences = Vec::new();
    let mut metas: Vec<String> = Vec::new();
    let mut mode_hist: BTreeMap<&'static str, u64> = BTreeMap::new();
    let mut calls_total = 0usize;
    let mut samples = Vec::new();
    for case in 0..cases {
        let family = ["mixed", "conf", "invalid", "lifecycle"][rng.below(4)];
        let n_txs = rng.below(9); // empty blocks included
        let mut block: Block = if n_txs == 0 {
            let mut b = blocks::gen_family(&mut rng, "conf", 1);
            b.txs.clear();
            b.desc.clear();
            b
        } else {
            blocks::gen_family(&mut rng, family, n_txs)
        };
        // without the nonce check a second application would really be applied, not skipped
        if rng.chance(1, 2) {
            block.disable_nonce_check = true;
        }
        let expected = world::oracle(&block);
        let mode = ["sequential", "race", "late", "panic"][rng.below(4)];
        *mode_hist.entry(mode).or_default() += 1;
        let k = if mode == "sequential" { 3 + rng.below(4) } else { 2 + rng.below(4) };
        let entries: Vec<Entry> = (0..k).map(|_| pick_entry(&mut rng)).collect();
        let workers = 1 + rng.below(3);
        let min_parallel = if rng.chance(1, 2) { 0 } else { block.txs.len() + 1 };
        let mut db = block.db.clone();
        if mode == "late" {
            db.delay_us = 300;
        }
        if mode == "panic" {
            // the user database panics once, somewhere in the block: the elected call unwinds;
            // a scheduler that has started must still refuse every later call
            let mut probe = block.clone();
            probe.db.log_touched = true;
            let _ = world::oracle(&probe);
            let keys: Vec<_> = probe.db.touched.lock().unwrap().iter().cloned().collect();
            if !keys.is_empty() {
                db.panic_key = Some(keys[rng.below(keys.len())].clone());
                db.panic_once = true;
                db.delay_us = 100;
            }
        }
        let scheduler = Scheduler::new_with_runtime_config(
            block.cfg(),
            block.env.clone(),
            Arc::new(block.txs.clone()),
            ParallelState::new(db, true, false),
            if block.precompiles.is_empty() { None } else { Some(Arc::new(block.precompiles.clone())) },
            GrevmConfig {
                concurrency_level: workers,
                force_sequential: false,
                min_parallel_txs: min_parallel,
                delegated_safety: block.safety,
            },
        );
        let call = |e: Entry| -> Result<(), (usize, String)> {
            let r = match e {
                Entry::Execute => scheduler.execute(),
                Entry::Parallel(w) => scheduler.parallel_execute(Some(w)),
                Entry::Fallback => scheduler.fallback_sequential(),
            };
            r.map_err(|e| world::render_grevm_err(&e))
        };
        // results in completion order
        let results: Mutex<Vec<(usize, Result<(), (usize, String)>)>> = Mutex::new(Vec::new());
        let panicked = std::panic::catch_unwind(std::panic::AssertUnwindSafe(|| match mode {
            "sequential" => {
                for (t, e) in entries.iter().enumerate() {
                    let r = call(*e);
                    results.lock().unwrap().push((t, r));
                }
            }
            "panic" => {
                for (t, e) in entries.iter().enumerate() {
                    let r = std::panic::catch_unwind(std::panic::AssertUnwindSafe(|| call(*e)))
                        .unwrap_or_else(|_| Err((usize::MAX, "panicked (injected database panic reached the caller)".to_owned())));
                    results.lock().unwrap().push((t, r));
                }
            }
            "race" => {
                let barrier = Barrier::new(k);
                std::thread::scope(|s| {
                    for (t, e) in entries.iter().enumerate() {
                        let (barrier, results, call) = (&barrier, &results, &call);
                        s.spawn(move || {
                            barrier.wait();
                            let r = call(*e);
                            results.lock().unwrap().push((t, r));
                        });
                    }
                });
            }
            _ => {
                std::thread::scope(|s| {
                    for (t, e) in entries.iter().enumerate() {
                        let (results, call) = (&results, &call);
                        s.spawn(move || {
                            // caller 0 starts at once; the others arrive while it is in the block
                            if t > 0 {
                                std::thread::sleep(std::time::Duration::from_micros(400 * t as u64));
                            }
                            let r = call(*e);
                            results.lock().unwrap().push((t, r));
                        });
                    }
                });
            }
        }));
        let results = results.into_inner().unwrap();
        calls_total += k;
        let desc = format!(
            "case {case}: {mode}, block of {} txs ({family}), workers {workers}, min_parallel_txs {min_parallel}, nonce check {}, calls {entries:?}",
            block.txs.len(),
            if block.disable_nonce_check { "off" } else { "on" }
        );
        if let Err(p) = panicked {
            let msg = p.downcast_ref::<String>().cloned().or_else(|| p.downcast_ref::<&str>().map(|s| (*s).to_owned())).unwrap_or_default();
            if divergences.len() < 5 {
                divergences.push(J::obj(vec![
                    ("kind", J::s("oracle")),
                    ("detail", J::s(format!("{desc}: a call panicked: {msg}"))),
                    ("calls", J::s(format!("{entries:?}"))),
                ]));
            }
            metas.push(desc);
            session.push_str(&format!("once {k}\nend\n"));
            continue;
        }
        let (outcomes, mut state) = scheduler.take_result_and_state();
        let bundle = state.parallel_take_bundle(BundleRetention::Reverts);
        let is_once = |r: &Result<(), (usize, String)>| matches!(r, Err((_, m)) if m.contains(ONCE));
        let winners: Vec<_> = results.iter().filter(|(_, r)| !is_once(r)).collect();
        let mut problem = None;
        if winners.len() != 1 {
            problem = Some(format!("{} of {k} calls were elected (results in completion order: {:?})", winners.len(), results));
        } else if mode == "panic" && winners[0].1.as_ref().is_err_and(|(_, m)| m.starts_with("panicked")) {
            // the elected call unwound: nothing to compare, the block was cut short
            let _ = bundle;
        } else {
            let actual = RunResult { outcomes: outcomes.clone(), status: winners[0].1.clone(), bundle };
            if let Some(d) = world::compare_runs(&expected, &actual) {
                problem = Some(format!("after all calls the scheduler does not hold one in-order execution: {d}"));
            }
        }
        if let Some(p) = problem {
            if divergences.len() < 5 {
                divergences.push(J::obj(vec![
                    ("kind", J::s("oracle")),
                    ("detail", J::s(format!("{desc}: {p}"))),
                    ("calls", J::s(format!("{entries:?}"))),
                    ("txs", J::Arr(block.desc.iter().map(|d| J::s(d.clone())).collect())),
                ]));
            }
        }
        // model session
        session.push_str(&format!("once {k}\n"));
        for (t, r) in &results {
            session.push_str(&format!("r {t} {}\n", if is_once(r) { "once" } else { "ran" }));
        }
        let applied = if expected.outcomes.is_empty() {
            None
        } else if outcomes.len() % expected.outcomes.len() == 0 {
            Some(outcomes.len() / expected.outcomes.len())
        } else {
            Some(99)
        };
        if let Some(a) = applied {
            if mode != "panic" {
                session.push_str(&format!("applied {a}\n"));
            }
        }
        session.push_str("end\n");
        if samples.len() < 2 {
            samples.push(J::s(format!("{desc} => {:?}", results.iter().map(|(t, r)| (*t, if is_once(r) { "once" } else { "ran" })).collect::<Vec<_>>())));
        }
        metas.push(desc);
    }
    // Tight races: the election window of `run_once` is a few instructions wide, and threads
    // released by a blocking barrier arrive microseconds apart.  Here four callers spin on one
    // atomic and call the moment it flips, over tiny blocks (the sequential path: the second
    // execution, if any, replays the block), round after round.
    let tight_rounds = args.num("tight-rounds", cases * 6) as usize;
    let mut tight_done = 0usize;
    {
        let mut block = blocks::gen_family(&mut rng, "conf", 1);
        block.disable_nonce_check = true;
        let expected = world::oracle(&block);
        for round in 0..tight_rounds {
            let scheduler = Scheduler::new_with_runtime_config(
                block.cfg(),
                block.env.clone(),
                Arc::new(block.txs.clone()),
                ParallelState::new(block.db.clone(), true, false),
                None,
                GrevmConfig { concurrency_level: 2, force_sequential: false, min_parallel_txs: 8, delegated_safety: block.safety },
            );
            let entries = [Entry::Fallback, Entry::Execute, Entry::Fallback, Entry::Execute];
            let go = std::sync::atomic::AtomicUsize::new(0);
            let results: Mutex<Vec<(usize, Result<(), (usize, String)>)>> = Mutex::new(Vec::new());
            std::thread::scope(|s| {
                for (t, e) in entries.iter().enumerate() {
                    let (go, results, scheduler) = (&go, &results, &scheduler);
                    s.spawn(move || {
                        go.fetch_add(1, std::sync::atomic::Ordering::AcqRel);
                        while go.load(std::sync::atomic::Ordering::Acquire) < 4 {
                            std::hint::spin_loop();
                        }
                        let r = match e {
                            Entry::Execute => scheduler.execute(),
                            Entry::Parallel(w) => scheduler.parallel_execute(Some(*w)),
                            Entry::Fallback => scheduler.fallback_sequential(),
                        }
                        .map_err(|e| world::render_grevm_err(&e));
                        results.lock().unwrap().push((t, r));
                    });
                }
            });
            tight_done += 1;
            calls_total += 4;
            let results = results.into_inner().unwrap();
            let (outcomes, mut state) = scheduler.take_result_and_state();
            let bundle = state.parallel_take_bundle(BundleRetention::Reverts);
            let winners: Vec<_> = results.iter().filter(|(_, r)| !matches!(r, Err((_, m)) if m.contains(ONCE))).collect();
            let problem = if winners.len() != 1 {
                Some(format!("{} of 4 spinning callers were elected (results in completion order: {:?})", winners.len(), results))
            } else {
                let actual = RunResult { outcomes, status: winners[0].1.clone(), bundle };
                world::compare_runs(&expected, &actual).map(|d| format!("after the race the scheduler does not hold one in-order execution: {d}"))
            };
            if let Some(p) = problem {
                divergences.push(J::obj(vec![
                    ("kind", J::s("oracle")),
                    ("detail", J::s(format!("tight race round {round} (one-transaction block, nonce check off, callers fallback/execute/fallback/execute released by a spin barrier): {p}"))),
                    ("txs", J::Arr(block.desc.iter().map(|d| J::s(d.clone())).collect())),
                ]));
                break;
            }
        }
    }
    let mut ok = 0usize;
    match lean::run_gmodel(&gmodel, &session) {
        Err(e) => divergences.push(J::obj(vec![("kind", J::s("correspondence")), ("detail", J::s(e))])),
        Ok(lines) => {
            for (i, m) in metas.iter().enumerate() {
                let l = lines.get(i).map(|s| s.as_str()).unwrap_or("missing");
                if l.starts_with("ok ") {
                    ok += 1;
                } else if divergences.len() < 8 {
                    divergences.push(J::obj(vec![
                        ("kind", J::s("correspondence")),
                        ("detail", J::s(format!("{m}: model says {l}"))),
                    ]));
                }
            }
        }
    }
    J::obj(vec![
        ("check", J::s("run-once (entry-point calls on one scheduler vs oracle and RunOnce model)")),
        ("seed", J::n(seed as usize)),
        ("cases", J::n(cases as usize)),
        ("entry_point_calls", J::n(calls_total)),
        ("tight_race_rounds", J::n(tight_done)),
        ("conforming", J::n(ok)),
        ("distinct_nontrivial", J::n(metas.iter().collect::<std::collections::BTreeSet<_>>().len())),
        ("modes", J::Obj(mode_hist.into_iter().map(|(k, v)| (k.to_owned(), J::n(v as usize))).collect())),
        ("divergences", J::Arr(divergences)),
        ("samples", J::Arr(samples)),
    ])
}
