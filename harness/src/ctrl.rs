//! Deterministic controller: serialises the enrolled threads of one run through the
//! `grevm::verif::rt` schedule points, records the event trace, emulates park/unpark and detects
//! stalls.  Exactly one enrolled thread runs between two points.

use grevm::verif::rt::{self, Controller, Event};
use std::{
    collections::HashMap,
    sync::{Arc, Condvar, Mutex},
    time::{Duration, Instant},
};

/// xorshift64* — every random choice of the harness derives from one of these.
#[derive(Clone, Debug)]
pub struct Rng(pub u64);

impl Rng {
    pub fn new(seed: u64) -> Self {
        Self(seed.wrapping_mul(0x9E37_79B9_7F4A_7C15) | 1)
    }
    pub fn next(&mut self) -> u64 {
        let mut x = self.0;
        x ^= x >> 12;
        x ^= x << 25;
        x ^= x >> 27;
        self.0 = x;
        x.wrapping_mul(0x2545_F491_4F6C_DD1D)
    }
    pub fn below(&mut self, n: usize) -> usize {
        if n == 0 { 0 } else { (self.next() % n as u64) as usize }
    }
    pub fn chance(&mut self, num: u64, den: u64) -> bool {
        self.next() % den < num
    }
}

#[derive(Clone, Debug)]
pub enum Strategy {
    /// Uniformly random among eligible threads.
    Random,
    /// PCT-style: fixed random priorities, `d` priority-change points spread over `len` steps.
    Pct { d: usize, len: usize },
    /// Follow the given thread ids; when exhausted or the scripted thread is not eligible, fall
    /// back to the lowest eligible id (deterministic).
    Script(Vec<usize>),
    /// Keep running the same thread while it is eligible (few context switches).
    Sticky,
    /// Targeted schedule: each directive runs the allowed threads (round-robin) until a thread
    /// matching `stop` is about to perform the named step; afterwards fair round-robin.
    Directed(Vec<Directive>),
}

/// Thread selector: k-th enrolled thread of a role (0 worker, 1 finality, 2 commit).
#[derive(Clone, Copy, Debug, PartialEq, Eq)]
pub enum Sel {
    All,
    Role(usize, usize),
    AllExcept(usize, usize),
}

#[derive(Clone, Debug)]
pub struct Directive {
    pub allowed: Sel,
    /// stop before granting this step: (site, first argument if constrained)
    pub stop_site: &'static str,
    pub stop_arg0: Option<usize>,
}

#[derive(Clone, Copy, Debug, PartialEq, Eq)]
enum TState {
    /// Has enrolled / reached a point and waits for a grant.
    Waiting,
    /// Found its lock busy at `step_no`; eligible again once another thread has stepped.
    LockBusy(u64),
    /// Emulated park on a slot.
    Parked(usize),
    Running,
    Done,
}

#[derive(Clone, Debug)]
pub struct TraceEvent {
    pub tid: usize,
    pub site: &'static str,
    pub args: [usize; 4],
}

struct Inner {
    strategy: Strategy,
    rng: Rng,
    expected: usize,
    /// tid -> canonical index, fixed when the run starts: threads sorted by (role, arrival). The
    /// strategies decide in terms of canonical indices, so a (strategy, seed) pair yields the
    /// same schedule whatever order the OS started the threads in (workers are interchangeable).
    canon: Vec<usize>,
    threads: Vec<TState>,
    roles: Vec<usize>,
    pending: Vec<Option<Event>>,
    /// thread allowed to run now
    current: Option<usize>,
    started: bool,
    step_no: u64,
    script_pos: usize,
    /// slot -> (waiter tid, token)
    slots: HashMap<usize, (Option<usize>, bool)>,
    trace: Vec<TraceEvent>,
    choices: Vec<usize>,
    priorities: Vec<u64>,
    change_points: Vec<u64>,
    idle_run: u64,
    pub stall: Option<String>,
    free_run: bool,
    max_steps: u64,
    panicked: Vec<usize>,
    last_tid: Option<usize>,
    record_trace: bool,
    /// number of completed steps that were not lock-busy probes
    real_steps: u64,
    retrying: Vec<bool>,
    last_run: Vec<u64>,
    directive_pos: usize,
}

pub struct Ctrl {
    inner: Mutex<Inner>,
    cv: Condvar,
}

/// Sites that do not by themselves witness progress of the block (everything except an
/// explicit list of progress sites): used for fairness of the PCT strategy and stall detection.
fn is_idle_site(site: &str) -> bool {
    !matches!(
        site,
        "start" |
            "end" |
            "wake" |
            "exec_begin" |
            "exec_end" |
            "exec_result" |
            "mv_publish" |
            "val_ts" |
            "val_done" |
            "finalize" |
            "commit_apply" |
            "cursor_publish" |
            "abort_store" |
            "h_call" |
            "h_ret"
    )
}

pub struct RunReport {
    pub trace: Vec<TraceEvent>,
    pub choices: Vec<usize>,
    pub stall: Option<String>,
    pub steps: u64,
    pub panicked: Vec<usize>,
    pub roles: Vec<usize>,
}

impl Ctrl {
    pub fn new(strategy: Strategy, seed: u64, expected_threads: usize) -> Arc<Self> {
        let mut rng = Rng::new(seed);
        let (priorities, change_points) = match &strategy {
            Strategy::Pct { d, len } => {
                let pr = (0..expected_threads + 8).map(|_| rng.next() | (1 << 40)).collect();
                let mut cps: Vec<u64> =
                    (0..*d).map(|_| (rng.below((*len).max(1))) as u64).collect();
                cps.sort_unstable();
                (pr, cps)
            }
            _ => (Vec::new(), Vec::new()),
        };
        Arc::new(Self {
            inner: Mutex::new(Inner {
                strategy,
                rng,
                expected: expected_threads,
                canon: Vec::new(),
                threads: Vec::new(),
                roles: Vec::new(),
                pending: Vec::new(),
                current: None,
                started: false,
                step_no: 0,
                script_pos: 0,
                slots: HashMap::new(),
                trace: Vec::new(),
                choices: Vec::new(),
                priorities,
                change_points,
                idle_run: 0,
                stall: None,
                free_run: false,
                max_steps: 400_000,
                panicked: Vec::new(),
                last_tid: None,
                record_trace: true,
                real_steps: 0,
                retrying: Vec::new(),
                last_run: Vec::new(),
                directive_pos: 0,
            }),
            cv: Condvar::new(),
        })
    }

    pub fn set_max_steps(&self, n: u64) {
        self.inner.lock().unwrap().max_steps = n;
    }

    pub fn set_record_trace(&self, on: bool) {
        self.inner.lock().unwrap().record_trace = on;
    }

    pub fn install(self: &Arc<Self>) {
        rt::install(self.clone());
    }

    pub fn finish(self: &Arc<Self>) -> RunReport {
        rt::uninstall();
        let mut g = self.inner.lock().unwrap();
        RunReport {
            trace: std::mem::take(&mut g.trace),
            choices: std::mem::take(&mut g.choices),
            stall: g.stall.clone(),
            steps: g.step_no,
            panicked: g.panicked.clone(),
            roles: g.roles.clone(),
        }
    }

    fn selected(g: &Inner, sel: Sel, tid: usize) -> bool {
        let nth = |role: usize, k: usize| {
            g.roles.iter().enumerate().filter(|(_, r)| **r == role).map(|(i, _)| i).nth(k)
        };
        match sel {
            Sel::All => true,
            Sel::Role(r, k) => nth(r, k) == Some(tid),
            Sel::AllExcept(r, k) => nth(r, k) != Some(tid),
        }
    }

    fn eligible(g: &Inner, tid: usize) -> bool {
        match g.threads[tid] {
            TState::Waiting => true,
            TState::LockBusy(at) => g.real_steps > at,
            TState::Parked(slot) => g.slots.get(&slot).is_some_and(|(_, token)| *token),
            TState::Running | TState::Done => false,
        }
    }

    /// Pick the next thread to run. Called with the lock held and no thread running.
    fn schedule_next(&self, g: &mut Inner) {
        if g.free_run {
            g.current = None;
            self.cv.notify_all();
            return;
        }
        if !g.started {
            if g.threads.len() < g.expected {
                return;
            }
            g.started = true;
            let mut order: Vec<usize> = (0..g.threads.len()).collect();
            // finality (1), commit (2), then workers / kernel threads by role and arrival
            order.sort_by_key(|&t| (match g.roles[t] { 1 => 0, 2 => 1, r => 2 + r }, t));
            let mut canon = vec![0; g.threads.len()];
            for (i, t) in order.iter().enumerate() {
                canon[*t] = i;
            }
            g.canon = canon;
        }
        let canon_of = |g: &Inner, t: usize| g.canon.get(t).copied().unwrap_or(t);
        let mut eligible: Vec<usize> =
            (0..g.threads.len()).filter(|&t| Self::eligible(g, t)).collect();
        eligible.sort_by_key(|&t| canon_of(g, t));
        if eligible.is_empty() {
            // A lock-busy thread whose holder cannot move counts as eligible once more: the
            // holder must be Parked/Done, which is a genuine deadlock only if nothing else is.
            let busy: Vec<usize> = (0..g.threads.len())
                .filter(|&t| matches!(g.threads[t], TState::LockBusy(_)))
                .collect();
            if !busy.is_empty() && g.idle_run < 64 {
                g.idle_run += 1;
                g.real_steps += 1;
                eligible = busy;
            }
        }
        if eligible.is_empty() {
            let all_done = g.threads.iter().all(|t| *t == TState::Done);
            if !all_done {
                let desc: Vec<String> =
                    g.threads.iter().enumerate().map(|(i, t)| format!("{i}:{t:?}")).collect();
                g.stall = Some(format!("deadlock: no eligible thread [{}]", desc.join(" ")));
                g.free_run = true;
            g.record_trace = false;
            }
            g.current = None;
            self.cv.notify_all();
            return;
        }
        if g.step_no >= g.max_steps || g.idle_run > 60_000 {
            let desc: Vec<String> = g
                .threads
                .iter()
                .enumerate()
                .map(|(i, t)| {
                    let last = g.trace.iter().rev().find(|e| e.tid == i).map(|e| format!("{} {:?}", e.site, e.args));
                    format!("{i}(role {}):{t:?} last={last:?} pending={:?}", g.roles[i], g.pending[i].map(|e| e.site))
                })
                .collect();
            g.stall = Some(format!(
                "livelock: {} steps, {} consecutive idle steps; threads: [{}]; slots: {:?}",
                g.step_no,
                g.idle_run,
                desc.join(" | "),
                g.slots
            ));
            g.free_run = true;
            g.record_trace = false;
            g.current = None;
            self.cv.notify_all();
            return;
        }
        // Fairness valve: after a long run of idle steps hand the processor to the eligible thread
        // that has waited longest, whatever the strategy says (spinning workers must not starve a
        // coordinator that could make progress).
        let fair_pick = if g.idle_run >= 150 &&
            !matches!(g.strategy, Strategy::Script(_) | Strategy::Directed(_))
        {
            eligible.iter().copied().min_by_key(|&t| g.last_run[t])
        } else {
            None
        };
        let pick = if let Some(t) = fair_pick { t } else { match &g.strategy {
            Strategy::Random => eligible[g.rng.below(eligible.len())],
            Strategy::Sticky => match g.last_tid {
                Some(t) if eligible.contains(&t) && !g.rng.chance(1, 24) => t,
                _ => eligible[g.rng.below(eligible.len())],
            },
            Strategy::Pct { .. } => {
                while g.change_points.first().is_some_and(|cp| *cp <= g.step_no) {
                    g.change_points.remove(0);
                    if let Some(t) = g.last_tid.map(|t| canon_of(g, t)) {
                        if t < g.priorities.len() {
                            g.priorities[t] = g.rng.next() & 0xFFFF;
                        }
                    }
                }
                // Spinning threads must not starve the rest forever: occasionally demote.
                if g.idle_run > 0 && g.idle_run % 50 == 0 {
                    if let Some(t) = g.last_tid.map(|t| canon_of(g, t)) {
                        if t < g.priorities.len() {
                            g.priorities[t] = g.rng.next() & 0xFFFF;
                        }
                    }
                }
                let prios = &g.priorities;
                *eligible.iter().max_by_key(|&&t| prios.get(canon_of(g, t)).copied().unwrap_or(0)).unwrap()
            }
            Strategy::Directed(directives) => {
                let mut pick = None;
                // a directive whose threads only idle (spin / busy locks) has run its course
                if g.idle_run >= 300 && g.directive_pos < directives.len() {
                    g.directive_pos += 1;
                    g.idle_run = 0;
                }
                while g.directive_pos < directives.len() {
                    let d = &directives[g.directive_pos];
                    // is some allowed thread about to perform the stop step?
                    let hit = eligible.iter().any(|&t| {
                        Self::selected(g, d.allowed, t) &&
                            g.pending[t].is_some_and(|e| {
                                e.site == d.stop_site && d.stop_arg0.is_none_or(|a| e.args[0] == a)
                            })
                    });
                    if hit {
                        g.directive_pos += 1;
                        continue;
                    }
                    let allowed: Vec<usize> =
                        eligible.iter().copied().filter(|&t| Self::selected(g, d.allowed, t)).collect();
                    if allowed.is_empty() {
                        // the directive cannot be followed (nothing allowed can move): give up on it
                        g.directive_pos += 1;
                        continue;
                    }
                    pick = allowed.iter().copied().min_by_key(|&t| g.last_run[t]);
                    break;
                }
                pick.unwrap_or_else(|| *eligible.iter().min_by_key(|&&t| g.last_run[t]).unwrap())
            }
            Strategy::Script(script) => {
                let mut pick = None;
                if g.script_pos < script.len() {
                    let want = script[g.script_pos];
                    g.script_pos += 1;
                    pick = eligible.iter().copied().find(|&t| canon_of(g, t) == want);
                }
                pick.unwrap_or_else(|| {
                    // deterministic fallback: round-robin after the last thread
                    let last = g.last_tid.unwrap_or(0);
                    *eligible.iter().find(|&&t| t > last).unwrap_or(&eligible[0])
                })
            }
        } };
        g.last_run[pick] = g.step_no + 1;
        let canonical = canon_of(g, pick);
        g.choices.push(canonical);
        g.last_tid = Some(pick);
        if let TState::Parked(slot) = g.threads[pick] {
            if let Some(entry) = g.slots.get_mut(&slot) {
                entry.1 = false; // consume token
            }
        }
        g.threads[pick] = TState::Running;
        g.current = Some(pick);
        g.step_no += 1;
        if let Some(ev) = g.pending[pick].take() {
            if is_idle_site(ev.site) {
                g.idle_run += 1;
            } else {
                g.idle_run = 0;
            }
            if g.record_trace {
                g.trace.push(TraceEvent { tid: pick, site: ev.site, args: ev.args });
            }
        }
        self.cv.notify_all();
    }

    fn wait_for_grant(&self, mut g: std::sync::MutexGuard<'_, Inner>, tid: usize) {
        let deadline = Instant::now() + Duration::from_secs(120);
        while !g.free_run && g.current != Some(tid) {
            let (guard, timeout) =
                self.cv.wait_timeout(g, Duration::from_millis(500)).unwrap();
            g = guard;
            if timeout.timed_out() && Instant::now() > deadline {
                g.stall = Some(format!("controller wait timed out for thread {tid}"));
                g.free_run = true;
            g.record_trace = false;
                self.cv.notify_all();
            }
        }
    }
}

impl Controller for Ctrl {
    fn enroll(&self, role: usize) -> usize {
        let mut g = self.inner.lock().unwrap();
        let tid = g.threads.len();
        g.threads.push(TState::Waiting);
        g.retrying.push(false);
        g.last_run.push(0);
        g.roles.push(role);
        g.pending.push(Some(Event { site: "start", args: [role, 0, 0, 0] }));
        if g.current.is_none() {
            self.schedule_next(&mut g);
        }
        self.wait_for_grant(g, tid);
        tid
    }

    fn leave(&self, tid: usize, panicking: bool) {
        let mut g = self.inner.lock().unwrap();
        g.threads[tid] = TState::Done;
        g.real_steps += 1;
        if panicking {
            g.panicked.push(tid);
        }
        if g.record_trace {
            g.trace.push(TraceEvent { tid, site: "end", args: [panicking as usize, 0, 0, 0] });
        }
        if g.current == Some(tid) || g.current.is_none() {
            g.current = None;
            self.schedule_next(&mut g);
        }
    }

    fn point(&self, tid: usize, event: Event) {
        let mut g = self.inner.lock().unwrap();
        if g.free_run {
            return;
        }
        g.threads[tid] = TState::Waiting;
        if g.retrying[tid] {
            g.retrying[tid] = false;
        } else {
            g.real_steps += 1;
        }
        g.pending[tid] = Some(event);
        g.current = None;
        self.schedule_next(&mut g);
        self.wait_for_grant(g, tid);
    }

    fn lock_busy(&self, tid: usize, event: Event) {
        let mut g = self.inner.lock().unwrap();
        if g.free_run {
            drop(g);
            std::thread::yield_now();
            return;
        }
        if g.record_trace {
            g.trace.push(TraceEvent { tid, site: "lock_busy", args: event.args });
        }
        let at = g.real_steps;
        g.retrying[tid] = true;
        g.idle_run += 1;
        g.threads[tid] = TState::LockBusy(at);
        // the retry re-announces the same point through `point`; nothing is pending now
        g.pending[tid] = None;
        g.current = None;
        self.schedule_next(&mut g);
        self.wait_for_grant(g, tid);
    }

    fn park(&self, tid: usize, slot: usize) {
        let mut g = self.inner.lock().unwrap();
        if g.free_run {
            return;
        }
        let has_token = g.slots.get(&slot).is_some_and(|(_, token)| *token);
        if has_token {
            g.slots.get_mut(&slot).unwrap().1 = false;
            if g.record_trace {
                g.trace.push(TraceEvent { tid, site: "park_token", args: [slot, 0, 0, 0] });
            }
            return;
        }
        g.threads[tid] = TState::Parked(slot);
        g.real_steps += 1;
        g.pending[tid] = Some(Event { site: "wake", args: [slot, 0, 0, 0] });
        g.current = None;
        self.schedule_next(&mut g);
        self.wait_for_grant(g, tid);
    }

    fn unpark(&self, tid: usize, slot: usize) {
        let mut g = self.inner.lock().unwrap();
        let entry = g.slots.entry(slot).or_insert((None, false));
        entry.1 = true;
        if g.record_trace {
            g.trace.push(TraceEvent { tid, site: "unpark", args: [slot, 0, 0, 0] });
        }
    }

    fn observe(&self, tid: usize, event: Event) {
        let mut g = self.inner.lock().unwrap();
        if g.record_trace {
            g.trace.push(TraceEvent { tid, site: event.site, args: event.args });
        }
    }

    fn register_waiter(&self, tid: usize, slot: usize) {
        let mut g = self.inner.lock().unwrap();
        let entry = g.slots.entry(slot).or_insert((None, false));
        entry.0 = Some(tid);
        if g.record_trace {
            g.trace.push(TraceEvent { tid, site: "register", args: [slot, 0, 0, 0] });
        }
    }
}
