//! End-to-end correspondence: generated blocks executed by grevm (free-running and under
//! controller schedules, several configurations) against the in-order stock-revm oracle.

use crate::{
    Args, lean,
    ctrl::{Rng, Strategy},
    blocks,
    json::J,
    world::{self, Block, RunCfg},
};
use std::collections::BTreeMap;

pub fn case_rng(seed: u64, family: &str, case: u64) -> Rng {
    let mut h: u64 = 0xcbf29ce484222325;
    for b in family.bytes() {
        h = (h ^ b as u64).wrapping_mul(0x100000001b3);
    }
    Rng::new(seed.wrapping_mul(0x9E3779B97F4A7C15) ^ h ^ case.wrapping_mul(0xD1B54A32D192ED03))
}

/// Named targeted schedules (necessity witnesses).
pub fn directed(name: &str) -> Option<Strategy> {
    use crate::ctrl::{Directive, Sel};
    let d = |allowed, stop_site, stop_arg0| Directive { allowed, stop_site, stop_arg0 };
    match name {
        // F2: tx 1's attempt reads the stale value and is paused at the end of its execution;
        // everybody else runs until tx 0 is committed; then the stale attempt finishes as commit head.
        "stale-attempt-ends-at-commit-head" => Some(Strategy::Directed(vec![
            d(Sel::Role(0, 0), "exec_begin", Some(0)),
            d(Sel::Role(0, 1), "exec_end", Some(1)),
            d(Sel::AllExcept(0, 1), "commit_dep_release", Some(0)),
            // the stale attempt resumes, takes the error branch and is paused inside `key_tx`
            d(Sel::Role(0, 1), "dep_key_read_commit", Some(1)),
            // every other role observes the abort (if any) and leaves
            d(Sel::AllExcept(0, 1), "never", None),
            d(Sel::Role(0, 1), "never", None),
        ])),
        // F5: the attempt at the commit head fails with a (transient) database fault and aborts;
        // a worker that was already inside its claim loop re-executes the transaction afterwards
        // and overwrites the stored error before `post_execute` reads it.
        "reexecution-after-abort-overwrites-error" => Some(Strategy::Directed(vec![
            // worker 0 executes and validates tx 0 and stops inside its claim loop
            d(Sel::Role(0, 0), "val_done", Some(0)),
            d(Sel::Role(0, 0), "spin", None),
            // finality and commit take tx 0 through; the committed prefix reaches tx 1
            d(Sel::Role(1, 0), "never", None),
            d(Sel::Role(2, 0), "never", None),
            // worker 1 runs tx 1 at the commit head, hits the database fault, aborts and leaves
            d(Sel::Role(0, 1), "never", None),
            // worker 0, already past the abort check of its loop, re-executes tx 1
            d(Sel::All, "never", None),
        ])),
        // tx 1 runs before tx 0 has written the flag and writes slot 5; tx 2 reads that entry; then
        // tx 0 publishes, tx 1 is invalidated and re-executed WITHOUT writing slot 5 (its entry is
        // removed); only then is tx 2 validated: its read source is gone and nobody else writes it.
        "read-source-vanishes-before-validation" => Some(Strategy::Directed(vec![
            d(Sel::Role(0, 0), "exec_begin", Some(0)),
            d(Sel::Role(0, 1), "exec_end", Some(2)),
            d(Sel::AllExcept(0, 1), "mv_remove", Some(1)),
            d(Sel::AllExcept(0, 1), "hist_record", Some(1)),
            d(Sel::All, "never", None),
        ])),
        "attempt-ends-at-commit-head" => Some(Strategy::Directed(vec![
            d(Sel::Role(0, 0), "exec_begin", Some(0)),
            d(Sel::Role(0, 1), "exec_end", Some(1)),
            d(Sel::AllExcept(0, 1), "commit_dep_release", Some(0)),
            d(Sel::All, "never", None),
        ])),
        _ => None,
    }
}

pub fn strategy_of(name: &str, rng: &mut Rng) -> Strategy {
    if let Some(s) = directed(name) {
        return s;
    }
    match name {
        "pct" => Strategy::Pct { d: 1 + rng.below(3), len: 200 + rng.below(1500) },
        "sticky" => Strategy::Sticky,
        _ => Strategy::Random,
    }
}

pub fn block_json(block: &Block) -> J {
    J::obj(vec![
        ("spec", J::s(format!("{:?}", block.spec))),
        ("disable_nonce_check", J::Bool(block.disable_nonce_check)),
        ("basefee", J::n(block.env.basefee as usize)),
        ("beneficiary", J::s(format!("{:?}", block.env.beneficiary))),
        ("beneficiary_pre", J::s(format!("{:?}", block.db.accounts.get(&block.env.beneficiary).map(|a| (a.info.balance, a.info.nonce, a.info.code_hash))))),
        ("txs", J::Arr(block.desc.iter().map(|d| J::s(d.clone())).collect())),
        ("safety", J::s(format!("{:?}", block.safety))),
    ])
}

pub struct Stats {
    pub outcome_kinds: BTreeMap<&'static str, u64>,
    pub families: BTreeMap<String, u64>,
    pub specs: BTreeMap<String, u64>,
    pub reexecutions: u64,
    pub executions: u64,
    pub validations_failed: u64,
    pub controlled_runs: u64,
    pub free_runs: u64,
    pub steps: u64,
    pub blocks_with_reexecution: u64,
    pub error_blocks: u64,
    pub commit_events: u64,
    pub reserve_blocks: u64,
    pub reserve_blocks_with_forced_revert: u64,
    pub policies: BTreeMap<String, u64>,
}

impl Stats {
    pub fn new() -> Self {
        Self {
            outcome_kinds: BTreeMap::new(),
            families: BTreeMap::new(),
            specs: BTreeMap::new(),
            reexecutions: 0,
            executions: 0,
            validations_failed: 0,
            controlled_runs: 0,
            free_runs: 0,
            steps: 0,
            blocks_with_reexecution: 0,
            error_blocks: 0,
            commit_events: 0,
            reserve_blocks: 0,
            reserve_blocks_with_forced_revert: 0,
            policies: BTreeMap::new(),
        }
    }
    pub fn json(&self) -> J {
        let m = |m: &BTreeMap<String, u64>| J::Obj(m.iter().map(|(k, v)| (k.clone(), J::n(*v as usize))).collect());
        J::obj(vec![
            ("outcome_kinds", J::Obj(self.outcome_kinds.iter().map(|(k, v)| ((*k).to_owned(), J::n(*v as usize))).collect())),
            ("families", m(&self.families)),
            ("specs", m(&self.specs)),
            ("incarnations_executed", J::n(self.executions as usize)),
            ("re_executions", J::n(self.reexecutions as usize)),
            ("failed_validations", J::n(self.validations_failed as usize)),
            ("blocks_with_reexecution", J::n(self.blocks_with_reexecution as usize)),
            ("controlled_runs", J::n(self.controlled_runs as usize)),
            ("free_runs", J::n(self.free_runs as usize)),
            ("controller_steps", J::n(self.steps as usize)),
            ("blocks_where_oracle_errors", J::n(self.error_blocks as usize)),
            ("commit_events_checked", J::n(self.commit_events as usize)),
            ("reserve_policy_blocks", J::n(self.reserve_blocks as usize)),
            ("reserve_policy_blocks_differing_from_policy_off", J::n(self.reserve_blocks_with_forced_revert as usize)),
            ("delegated_safety_policies", m(&self.policies)),
        ])
    }
}

pub struct CaseSpec {
    pub family: String,
    pub case: u64,
    pub n_txs: usize,
}

pub fn make_block(seed: u64, spec: &CaseSpec) -> Block {
    let mut rng = case_rng(seed, &spec.family, spec.case);
    blocks::gen_family(&mut rng, &spec.family, spec.n_txs)
}

/// Run one block under all requested configurations; returns divergences.
#[allow(clippy::too_many_arguments)]
pub fn check_block(
    seed: u64,
    cs: &CaseSpec,
    block: &Block,
    configs: &[RunCfg],
    schedules: &[&str],
    schedules_per_block: usize,
    stats: &mut Stats,
    kind: &str,
) -> Vec<J> {
    let mut divergences = Vec::new();
    // The in-order oracle is stock revm (plus the independently written delegated-CREATE rule).
    // It has no balance-reserve policy: for blocks that enable it the reference is grevm's own
    // sequential path (the property demands that both paths agree), and that reference is checked
    // by `reserve_checks` against stock revm and the fundability guarantee.
    let reserve_on = block.safety.reserve_delegated_balance && block.spec.is_enabled_in(revm_primitives::hardfork::SpecId::PRAGUE);
    let (expected, expected_states) = if reserve_on {
        let seq = world::run_grevm(block, &RunCfg { workers: 1, min_parallel_txs: 0, force_sequential: true, entry_fallback: false }, None);
        stats.reserve_blocks += 1;
        if let Some(msg) = world::reserve_checks(block, &seq.result) {
            divergences.push(J::obj(vec![
                ("kind", J::s("oracle")),
                ("detail", J::s(format!("reserve policy (sequential path): {msg}"))),
                ("family", J::s(cs.family.clone())),
                ("case", J::n(cs.case as usize)),
                ("n_txs", J::n(cs.n_txs)),
                ("seed", J::n(seed as usize)),
                ("block", block_json(block)),
            ]));
        }
        let off = { let mut b = block.clone(); b.safety.reserve_delegated_balance = false; world::oracle(&b) };
        if off.outcomes != seq.result.outcomes {
            stats.reserve_blocks_with_forced_revert += 1;
        }
        (seq.result, Vec::new())
    } else {
        world::oracle_with_states(block)
    };
    if expected.status.is_err() {
        stats.error_blocks += 1;
    }
    for o in &expected.outcomes {
        *stats.outcome_kinds.entry(world::outcome_kind(o)).or_default() += 1;
    }
    *stats.families.entry(cs.family.clone()).or_default() += 1;
    *stats.policies.entry(format!("create_guard={} reserve={}", block.safety.forbid_delegated_create, block.safety.reserve_delegated_balance)).or_default() += 1;
    *stats.specs.entry(format!("{:?}", block.spec)).or_default() += 1;
    let mut sched_rng = case_rng(seed ^ 0x5EED, &cs.family, cs.case);
    let mut any_reexec = false;
    let dump = std::env::var("GH_DUMP_TRACE").is_ok();
    for cfg in configs {
        // free-running (real OS scheduling)
        let mut runs: Vec<(Option<(String, u64)>, world::GrevmRun)> = Vec::new();
        let commit_log = world::install_commit_log(block.env.beneficiary);
        let mut commit_logs = Vec::new();
        runs.push((None, world::run_grevm(block, cfg, None)));
        commit_logs.push(std::mem::take(&mut *commit_log.lock().unwrap()));
        stats.free_runs += 1;
        let parallel = !cfg.entry_fallback && !cfg.force_sequential && block.txs.len() >= cfg.min_parallel_txs;
        if parallel {
            for k in 0..schedules_per_block {
                let name = schedules[(k + cs.case as usize) % schedules.len()];
                let sseed = sched_rng.next();
                let strategy = strategy_of(name, &mut Rng::new(sseed));
                runs.push((Some((name.to_owned(), sseed)), world::run_grevm(block, cfg, Some((strategy, sseed)))));
                commit_logs.push(std::mem::take(&mut *commit_log.lock().unwrap()));
                stats.controlled_runs += 1;
            }
        }
        grevm::verif::set_commit_observer(None);
        grevm::verif::set_commit_done_observer(None);
        for ((sched, run), clog) in runs.into_iter().zip(commit_logs.into_iter()) {
            if std::env::var("GH_DUMP_BENEFICIARY").is_ok() {
                eprintln!("cfg {} sched {sched:?}\n  expected {:?}\n  actual   {:?}", cfg.describe(), expected.bundle.state.get(&block.env.beneficiary).map(|a| (&a.info, a.status)), run.result.bundle.state.get(&block.env.beneficiary).map(|a| (&a.info, a.status)));
            }
            stats.commit_events += clog.len() as u64;
            let commit_diff = if reserve_on { None } else { world::check_commit_log(&clog, &expected, &expected_states) };
            if let Some(diff) = commit_diff {
                divergences.push(J::obj(vec![
                    ("kind", J::s("oracle")),
                    ("detail", J::s(format!("per-commit check: {diff}"))),
                    ("family", J::s(cs.family.clone())),
                    ("case", J::n(cs.case as usize)),
                    ("n_txs", J::n(cs.n_txs)),
                    ("seed", J::n(seed as usize)),
                    ("config", J::s(cfg.describe())),
                    ("schedule", J::s(format!("{sched:?}"))),
                    (
                        "choices",
                        J::Arr(run.report.as_ref().map(|r| r.choices.iter().take(5000).map(|c| J::n(*c)).collect()).unwrap_or_default()),
                    ),
                    ("block", block_json(block)),
                ]));
            }
            if let Some(report) = &run.report {
                if dump {
                    eprintln!("--- trace for {sched:?} status {:?}", run.result.status);
                    for e in &report.trace {
                        eprintln!("{} {} {:?}", e.tid, e.site, &e.args[..3]);
                    }
                }
                stats.steps += report.steps;
                let mut per_tx: BTreeMap<usize, u64> = BTreeMap::new();
                for e in &report.trace {
                    if e.site == "exec_begin" {
                        *per_tx.entry(e.args[0]).or_default() += 1;
                        stats.executions += 1;
                    }
                    if e.site == "val_done" && e.args[1] == 1 {
                        stats.validations_failed += 1;
                    }
                }
                let re: u64 = per_tx.values().map(|v| v.saturating_sub(1)).sum();
                stats.reexecutions += re;
                any_reexec |= re > 0;
                if let Some(stall) = &report.stall {
                    divergences.push(J::obj(vec![
                        ("kind", J::s("stall")),
                        ("detail", J::s(format!("controller detected a stall: {stall}"))),
                        ("family", J::s(cs.family.clone())),
                        ("case", J::n(cs.case as usize)),
                        ("n_txs", J::n(cs.n_txs)),
                        ("seed", J::n(seed as usize)),
                        ("config", J::s(cfg.describe())),
                        ("schedule", J::s(format!("{sched:?}"))),
                        ("choices", J::Arr(report.choices.iter().take(3000).map(|c| J::n(*c)).collect())),
                        ("trace_tail", J::Arr(report.trace.iter().rev().take(120).rev().map(|e| J::s(format!("{} {} {:?}", e.tid, e.site, e.args))).collect())),
                        ("block", block_json(block)),
                    ]));
                    continue;
                }
            }
            if let Some(diff) = world::compare_runs(&expected, &run.result) {
                let small = if divergences.is_empty() { Some(shrink_block(block, cfg)) } else { None };
                divergences.push(J::obj(vec![
                    ("minimized", small.as_ref().map_or(J::Null, |b| {
                        let exp = world::oracle(b);
                        let act = world::run_grevm(b, cfg, None).result;
                        J::obj(vec![("block", block_json(b)), ("diff", J::s(world::compare_runs(&exp, &act).unwrap_or_default()))])
                    })),
                    ("kind", J::s(kind)),
                    ("detail", J::s(diff)),
                    ("family", J::s(cs.family.clone())),
                    ("case", J::n(cs.case as usize)),
                    ("n_txs", J::n(cs.n_txs)),
                    ("seed", J::n(seed as usize)),
                    ("config", J::s(cfg.describe())),
                    ("schedule", J::s(format!("{sched:?}"))),
                    (
                        "choices",
                        J::Arr(run.report.as_ref().map(|r| r.choices.iter().map(|c| J::n(*c)).collect()).unwrap_or_default()),
                    ),
                    ("expected_status", J::s(format!("{:?}", expected.status))),
                    ("actual_status", J::s(format!("{:?}", run.result.status))),
                    ("block", block_json(block)),
                ]));
            }
        }
    }
    if any_reexec {
        stats.blocks_with_reexecution += 1;
    }
    divergences
}

/// Greedy tx-removal shrinking of a diverging block (free-running executions, 3 tries each).
pub fn shrink_block(block: &Block, cfg: &RunCfg) -> Block {
    let diverges = |b: &Block| {
        let expected = world::oracle(b);
        (0..3).any(|_| world::compare_runs(&expected, &world::run_grevm(b, cfg, None).result).is_some())
    };
    let mut cur = block.clone();
    let mut progress = true;
    while progress && cur.txs.len() > 1 {
        progress = false;
        for i in (0..cur.txs.len()).rev() {
            let mut cand = cur.clone();
            cand.txs.remove(i);
            cand.desc.remove(i);
            if diverges(&cand) {
                cur = cand;
                progress = true;
            }
        }
    }
    cur
}

pub fn parse_configs(spec: &str, n_txs: usize) -> Vec<RunCfg> {
    // e.g. "w2,w3,seq,fallback,w1,minpar"
    spec.split(',')
        .filter(|s| !s.is_empty())
        .map(|s| match s {
            "seq" => RunCfg { workers: 2, min_parallel_txs: 0, force_sequential: true, entry_fallback: false },
            "fallback" => RunCfg { workers: 2, min_parallel_txs: 0, force_sequential: false, entry_fallback: true },
            "minpar" => RunCfg { workers: 2, min_parallel_txs: n_txs + 1, force_sequential: false, entry_fallback: false },
            "mineq" => RunCfg { workers: 3, min_parallel_txs: n_txs, force_sequential: false, entry_fallback: false },
            w => RunCfg::parallel(w.trim_start_matches('w').parse().unwrap_or(2)),
        })
        .collect()
}

/// `e2e`: families x cases, each under the given configs and controller schedules.
pub fn cmd_e2e(args: &Args) -> J {
    let seed = args.num("seed", 1);
    let cases = args.num("cases", 40);
    let families: Vec<String> = args.str("families", "mixed,lifecycle,code,invalid").split(',').map(|s| s.to_owned()).collect();
    let cfg_spec = args.str("configs", "w2,w3");
    let schedules_per_block = args.num("schedules", 2) as usize;
    let sched_names: Vec<String> = args.str("strategies", "random,pct,sticky").split(',').map(|s| s.to_owned()).collect();
    let sched_refs: Vec<&str> = sched_names.iter().map(|s| s.as_str()).collect();
    let min_txs = args.num("min-txs", 2) as usize;
    let max_txs = args.num("max-txs", 10) as usize;
    let kind = args.str("kind", "oracle");
    let mut stats = Stats::new();
    let mut divergences = Vec::new();
    let mut samples = Vec::new();
    let mut distinct = std::collections::BTreeSet::new();
    let only_case = args.opts.get("case").and_then(|c| c.parse::<u64>().ok());
    let mut evaluated = 0u64;
    let started = std::time::Instant::now();
    let time_limit = args.num("time-limit", 100_000);
    for case in 0..cases {
        if only_case.is_some_and(|c| c != case) {
            continue;
        }
        if started.elapsed().as_secs() > time_limit || divergences.len() >= 8 {
            break;
        }
        let family = families[(case as usize) % families.len()].clone();
        let n_txs = if family == "corpus" {
            case as usize
        } else {
            min_txs + (case_rng(seed ^ 77, &family, case).below(max_txs - min_txs + 1))
        };
        let cs = CaseSpec { family, case, n_txs };
        let block = make_block(seed, &cs);
        let configs = parse_configs(&cfg_spec, block.txs.len());
        let d = check_block(seed, &cs, &block, &configs, &sched_refs, schedules_per_block, &mut stats, &kind);
        evaluated += 1;
        distinct.insert(format!("{:?}|{:?}", block.spec, block.desc));
        if samples.len() < 2 {
            samples.push(J::obj(vec![("family", J::s(cs.family.clone())), ("case", J::n(case as usize)), ("block", block_json(&block))]));
        }
        for x in d {
            if divergences.len() < 8 {
                divergences.push(x);
            }
        }
    }
    J::obj(vec![
        ("check", J::s(format!("e2e[{}]", args.str("label", &cfg_spec)))),
        ("seed", J::n(seed as usize)),
        ("cases", J::n(evaluated as usize)),
        ("distinct_nontrivial", J::n(distinct.len())),
        ("conforming", J::n((stats.controlled_runs + stats.free_runs) as usize - divergences.len().min((stats.controlled_runs + stats.free_runs) as usize))),
        ("divergences", J::Arr(divergences)),
        ("distribution", stats.json()),
        ("samples", J::Arr(samples)),
    ])
}

/// `faults`: database fault enumeration. For every key touched by the in-order run or by any
/// speculative attempt of a few grevm runs, inject a persistent and a fail-once fault and compare
/// with the in-order oracle on the same faulty database.
pub fn cmd_faults(args: &Args) -> J {
    use crate::world::{FaultMode, Key};
    let seed = args.num("seed", 1);
    let cases = args.num("cases", 10);
    let families: Vec<String> = args.str("families", "mixed,lifecycle,code,invalid").split(',').map(|s| s.to_owned()).collect();
    let max_txs = args.num("max-txs", 6) as usize;
    let workers = args.num("workers", 2) as usize;
    let mut divergences = Vec::new();
    let mut fault_points = 0u64;
    let mut absorbed = 0u64;
    let mut reported = 0u64;
    let mut in_order_errors = 0u64;
    let mut avoided = 0u64;
    let mut known_eager = 0u64;
    let mut key_kinds: BTreeMap<&'static str, u64> = BTreeMap::new();
    let mut samples = Vec::new();
    let mut distinct = std::collections::BTreeSet::new();
    let cfg = RunCfg::parallel(workers);
    let seq_cfg = RunCfg { workers: 1, min_parallel_txs: 0, force_sequential: true, entry_fallback: false };
    for case in 0..cases {
        let family = families[(case as usize) % families.len()].clone();
        let n_txs = 2 + case_rng(seed ^ 99, &family, case).below(max_txs - 1);
        let cs = CaseSpec { family: family.clone(), case, n_txs };
        let mut block = make_block(seed, &cs);
        // collect keys
        block.db.log_touched = true;
        let no_fault = world::oracle(&block);
        let mut keys: std::collections::BTreeSet<Key> = block.db.touched.lock().unwrap().clone();
        {
            let probe = block.clone();
            let state = grevm::ParallelState::new(probe.db.clone(), true, false);
            let mut rr = case_rng(seed ^ 0xFA, &family, case);
            let (_run, st) = world::run_grevm_on(&probe, &cfg, Some((Strategy::Random, rr.next())), state);
            if let Some(st) = st {
                keys.extend(st.database.touched.lock().unwrap().iter().cloned());
            }
            // and on the sequential path (what a block below the parallel threshold, a forced
            // sequential run or a suffix replay reads)
            let state = grevm::ParallelState::new(probe.db.clone(), true, false);
            let (_run, st) = world::run_grevm_on(&probe, &seq_cfg, None, state);
            if let Some(st) = st {
                keys.extend(st.database.touched.lock().unwrap().iter().cloned());
            }
        }
        block.db.log_touched = false;
        let mut sched_rng = case_rng(seed ^ 0xFA17, &family, case);
        for key in keys {
            *key_kinds
                .entry(match key {
                    Key::Basic(_) => "account",
                    Key::Storage(..) => "storage",
                    Key::Code(_) => "code",
                    Key::BlockHash(_) => "block_hash",
                })
                .or_default() += 1;
            for mode in [FaultMode::Persistent, FaultMode::FailFirst(1)] {
                fault_points += 1;
                let mut fb = block.clone();
                fb.db.fault = Some((key.clone(), mode));
                let expected = world::oracle(&fb);
                if expected.status.is_err() {
                    in_order_errors += 1;
                }
                distinct.insert(format!("{family}/{case}/{key:?}/{mode:?}"));
                for round in 0..3 {
                    let sched = if round == 1 { Some((Strategy::Random, sched_rng.next())) } else { None };
                    let run = world::run_grevm(&fb, if round == 2 { &seq_cfg } else { &cfg }, sched.clone());
                    let verdict: Option<String> = match mode {
                        FaultMode::Persistent => {
                            if run.result.status.is_ok() && expected.status.is_err() {
                                // The property constrains reported errors, not the converse: grevm may
                                // avoid a database read that in-order revm performs (e.g. code of a
                                // contract created earlier in the block is served from its cache).
                                // The result must then be the fault-free in-order result.
                                avoided += 1;
                                world::compare_runs(&no_fault, &run.result)
                                    .map(|m| format!("fault avoided but result is not the fault-free in-order result: {m}"))
                            } else {
                                world::compare_runs(&expected, &run.result)
                            }
                        }
                        FaultMode::FailFirst(_) => {
                            if world::compare_runs(&no_fault, &run.result).is_none() {
                                absorbed += 1;
                                None
                            } else if let Err((k, e)) = &run.result.status {
                                reported += 1;
                                // exact prefix of the fault-free in-order execution
                                let mut pb = block.clone();
                                let k = (*k).min(pb.txs.len());
                                pb.txs.truncate(k);
                                pb.desc.truncate(k);
                                let prefix = world::oracle(&pb);
                                if !e.contains("injected fault") {
                                    Some(format!("transient fault reported as a different error: {e}"))
                                } else if run.result.outcomes != prefix.outcomes {
                                    Some(format!(
                                        "error at {k} but outcomes are not the first {k} in-order outcomes: {:?}",
                                        run.result.outcomes.len()
                                    ))
                                } else {
                                    world::compare_bundles(&prefix.bundle, &run.result.bundle)
                                        .map(|m| format!("error at {k}: state is not the in-order prefix: {m}"))
                                }
                            } else {
                                world::compare_runs(&no_fault, &run.result)
                            }
                        }
                    };
                    if let Some(diff) = verdict {
                        // F4: a persistent fault on a code hash that only grevm's eager code load
                        // (IncarnationDb::basic -> code_by_address) touches
                        let eager_code = matches!(key, Key::Code(_)) &&
                            mode == FaultMode::Persistent &&
                            expected.status.is_ok() &&
                            matches!(&run.result.status, Err((_, e)) if e.contains("injected fault at Code("));
                        if eager_code {
                            known_eager += 1;
                        }
                        if divergences.len() < 8 && (!eager_code || known_eager == 1) {
                            divergences.push(J::obj(vec![
                                ("kind", J::s("oracle")),
                                (
                                    "signature",
                                    if eager_code {
                                        J::obj(vec![("kind", J::s("eager-code-load")), ("site", J::s("IncarnationDb::basic -> code_by_address"))])
                                    } else {
                                        J::Null
                                    },
                                ),
                                ("detail", J::s(format!("fault {key:?} {mode:?}: {diff}"))),
                                ("family", J::s(family.clone())),
                                ("case", J::n(case as usize)),
                                ("seed", J::n(seed as usize)),
                                ("schedule", J::s(format!("{sched:?}"))),
                                ("config", J::s(if round == 2 { seq_cfg.describe() } else { cfg.describe() })),
                                ("expected_status", J::s(format!("{:?}", expected.status))),
                                ("actual_status", J::s(format!("{:?}", run.result.status))),
                                ("block", block_json(&fb)),
                            ]));
                        }
                    }
                }
            }
        }
        if samples.len() < 2 {
            samples.push(J::obj(vec![("family", J::s(family.clone())), ("case", J::n(case as usize)), ("block", block_json(&block))]));
        }
    }
    J::obj(vec![
        ("check", J::s("fault-enumeration")),
        ("seed", J::n(seed as usize)),
        ("cases", J::n(fault_points as usize)),
        ("blocks", J::n(cases as usize)),
        ("distinct_nontrivial", J::n(distinct.len())),
        ("conforming", J::n(fault_points as usize * 3 - divergences.len())),
        ("divergences", J::Arr(divergences)),
        (
            "distribution",
            J::obj(vec![
                ("fault_points", J::n(fault_points as usize)),
                ("key_kinds", J::Obj(key_kinds.into_iter().map(|(k, v)| (k.to_owned(), J::n(v as usize))).collect())),
                ("in_order_run_hits_fault", J::n(in_order_errors as usize)),
                ("persistent_fault_avoided_by_cache", J::n(avoided as usize)),
                ("eager_code_load_reports", J::n(known_eager as usize)),
                ("transient_absorbed", J::n(absorbed as usize)),
                ("transient_reported_with_exact_prefix", J::n(reported as usize)),
            ]),
        ),
        ("samples", J::Arr(samples)),
    ])
}


/// `witness`: named deterministic witnesses (block + optional fault + directed schedule). Each
/// passes on a tree that has the mechanism / repair and fails, with a replay, on one that lost it.
pub fn cmd_witness(args: &Args) -> J {
    use crate::world::{FaultMode, Key};
    let only = args.str("only", "");
    let mut divergences = Vec::new();
    let mut samples = Vec::new();
    let mut ran = 0usize;
    let names = ["F2-stale-attempt-fatal", "F5-reexecution-after-abort", "vanished-read-source", "F8-sequential-beneficiary-fault", "wrong-nonce-attempt-ends-at-commit-head"];
    for name in names {
        if !only.is_empty() && only != name {
            continue;
        }
        let mut rng = case_rng(7, name, 0);
        let (block, strategy, fault_free): (Block, &str, Option<Block>) = match name {
            "F2-stale-attempt-fatal" => (crate::blocks::gen_stale_fatal(&mut rng), "stale-attempt-ends-at-commit-head", None),
            "vanished-read-source" => (crate::blocks::gen_vanished_source(&mut rng), "read-source-vanishes-before-validation", None),
            // the attempt of the wrong-nonce transaction starts speculatively (nonce check off)
            // and ends as the commit head: the ordered commit's nonce gate must still reject it
            "wrong-nonce-attempt-ends-at-commit-head" => (crate::blocks::gen_wrong_nonce_second(&mut rng), "attempt-ends-at-commit-head", None),
            "F8-sequential-beneficiary-fault" => {
                let mut b = crate::blocks::gen_invalid_then_transfers(&mut rng);
                b.db.fault = Some((Key::Basic(b.env.beneficiary), FaultMode::Persistent));
                (b, "sequential-path", None)
            }
            _ => {
                let mut b = crate::blocks::gen_coded_sender(&mut rng);
                let clean = b.clone();
                let hash = revm_state::Bytecode::new_raw(vec![0x00u8].into()).hash_slow();
                b.db.fault = Some((Key::Code(hash), FaultMode::FailFirst(1)));
                (b, "reexecution-after-abort-overwrites-error", Some(clean))
            }
        };
        ran += 1;
        let expected = world::oracle(&block);
        // every path must report what in-order execution with the fee recipient loaded up front
        // reports (the sequential paths take no schedule)
        let run = if strategy == "sequential-path" {
            let seq = RunCfg { workers: 1, min_parallel_txs: 0, force_sequential: true, entry_fallback: false };
            let run = world::run_grevm(&block, &seq, None);
            let below = world::run_grevm(&block, &RunCfg { workers: 2, min_parallel_txs: 64, force_sequential: false, entry_fallback: false }, None);
            let entry = world::run_grevm(&block, &RunCfg { workers: 2, min_parallel_txs: 0, force_sequential: false, entry_fallback: true }, None);
            let par = world::run_grevm(&block, &RunCfg::parallel(2), None);
            [below, entry, par].into_iter().find(|r| world::compare_runs(&expected, &r.result).is_some()).unwrap_or(run)
        } else {
            world::run_grevm(&block, &RunCfg::parallel(2), Some((directed(strategy).unwrap(), 1)))
        };
        let stall = run.report.as_ref().and_then(|r| r.stall.clone());
        if std::env::var("GH_DUMP_TRACE").is_ok() {
            eprintln!("--- witness {name}: status {:?}", run.result.status);
            for e in run.report.as_ref().map(|r| r.trace.as_slice()).unwrap_or(&[]) {
                eprintln!("{} {} {:?}", e.tid, e.site, &e.args[..3]);
            }
        }
        let verdict = if let Some(s) = stall {
            Some(format!("stall: {s}"))
        } else if let Some(clean) = &fault_free {
            // transient fault: absorbed, or reported with the in-order error and an exact prefix
            let no_fault = world::oracle(clean);
            if world::compare_runs(&no_fault, &run.result).is_none() {
                None
            } else {
                world::compare_runs(&expected, &run.result)
            }
        } else {
            world::compare_runs(&expected, &run.result)
        };
        samples.push(J::obj(vec![
            ("witness", J::s(name)),
            ("schedule", J::s(strategy)),
            ("expected_status", J::s(format!("{:?}", expected.status))),
            ("actual_status", J::s(format!("{:?}", run.result.status))),
            ("block", block_json(&block)),
        ]));
        if let Some(diff) = verdict {
            divergences.push(J::obj(vec![
                ("kind", J::s("oracle")),
                ("detail", J::s(format!("witness {name} under directed schedule {strategy}: {diff}"))),
                ("expected_status", J::s(format!("{:?}", expected.status))),
                ("actual_status", J::s(format!("{:?}", run.result.status))),
                ("choices", J::Arr(run.report.as_ref().map(|r| r.choices.iter().map(|c| J::n(*c)).collect()).unwrap_or_default())),
                ("block", block_json(&block)),
            ]));
        }
    }
    J::obj(vec![
        ("check", J::s("witness-corpus")),
        ("cases", J::n(ran)),
        ("distinct_nontrivial", J::n(ran)),
        ("conforming", J::n(ran - divergences.len())),
        ("divergences", J::Arr(divergences)),
        ("samples", J::Arr(samples)),
    ])
}


/// `sched-conf`: trace conformance of real executions against the proven pipeline model.
pub fn cmd_sched_conf(args: &Args) -> J {
    let seed = args.num("seed", 1);
    let cases = args.num("cases", 40);
    let schedules = args.num("schedules", 3);
    let max_txs = args.num("max-txs", 7) as usize;
    let gmodel = args.str("gmodel", "/verif/lean/.lake/build/bin/gmodel");
    let names = ["random", "pct", "sticky"];
    let mut session = String::new();
    let mut metas = Vec::new();
    let mut stalls = Vec::new();
    let mut oracle_div = Vec::new();
    let mut site_hist: BTreeMap<&'static str, u64> = BTreeMap::new();
    let mut samples = Vec::new();
    let started = std::time::Instant::now();
    let time_limit = args.num("time-limit", 100_000);
    let first_case = args.num("first-case", 0);
    for case in first_case..cases {
        if started.elapsed().as_secs() > time_limit || stalls.len() > 5 {
            break;
        }
        let n_txs = 2 + case_rng(seed ^ 31, "conf", case).below(max_txs - 1);
        let cs = CaseSpec { family: "conf".to_owned(), case, n_txs };
        let block = make_block(seed, &cs);
        let expected = world::oracle(&block);
        let mut sched_rng = case_rng(seed ^ 0xC0F, "conf", case);
        for k in 0..schedules {
            let workers = 2 + ((case + k) % 2) as usize;
            let name = names[((case + k) % 3) as usize];
            let sseed = sched_rng.next();
            let strategy = strategy_of(name, &mut Rng::new(sseed));
            let run = world::run_grevm(&block, &RunCfg::parallel(workers), Some((strategy, sseed)));
            let report = match run.report {
                Some(r) => r,
                None => continue,
            };
            if let Some(st) = &report.stall {
                stalls.push(format!("case {case} schedule {name}/{sseed}: {st}"));
                continue;
            }
            if let Some(diff) = world::compare_runs(&expected, &run.result) {
                if oracle_div.len() < 4 {
                    oracle_div.push(J::obj(vec![
                        ("kind", J::s("oracle")),
                        ("detail", J::s(format!("conformance run differs from in-order revm: {diff}"))),
                        ("case", J::n(case as usize)),
                        ("schedule", J::s(format!("{name}/{sseed}"))),
                        ("block", block_json(&block)),
                    ]));
                }
            }
            for e in &report.trace {
                *site_hist.entry(e.site).or_default() += 1;
            }
            let lines = crate::kernels::trace_lines(&report);
            session.push_str(&format!("sched {}\n", block.txs.len()));
            for l in &lines {
                session.push_str(l);
                session.push('\n');
            }
            session.push_str("end\n");
            if samples.len() < 2 {
                samples.push(J::obj(vec![
                    ("case", J::n(case as usize)),
                    ("workers", J::n(workers)),
                    ("schedule", J::s(format!("{name}/{sseed}"))),
                    ("events", J::n(lines.len())),
                    ("block", block_json(&block)),
                    ("first_events", J::Arr(lines.iter().filter(|l| !l.contains("spin") && !l.contains("frontier") && !l.contains("dep_") && !l.contains("vcur")).take(25).map(|l| J::s(l.clone())).collect())),
                ]));
            }
            metas.push((case, workers, format!("{name}/{sseed}"), lines, report.choices, block_json(&block)));
        }
    }
    let mut divergences = Vec::new();
    let mut ok = 0usize;
    let mut skipped = 0usize;
    let mut complete = 0usize;
    let mut model_steps = 0usize;
    if let Ok(path) = std::env::var("GH_DUMP_SESSION") {
        let _ = std::fs::write(path, &session);
    }
    match lean::run_gmodel(&gmodel, &session) {
        Err(e) => divergences.push(J::obj(vec![("detail", J::s(e))])),
        Ok(results) => {
            if results.len() != metas.len() {
                divergences.push(J::obj(vec![("detail", J::s(format!("gmodel answered {} of {} sessions", results.len(), metas.len())))]));
            }
            for (res, meta) in results.iter().zip(metas.iter()) {
                if res.starts_with("ok ") {
                    ok += 1;
                    let mut it = res.split(' ');
                    it.next();
                    model_steps += it.next().and_then(|x| x.parse::<usize>().ok()).unwrap_or(0);
                    if res.ends_with("complete") {
                        complete += 1;
                    }
                } else if res.starts_with("skip") {
                    skipped += 1;
                } else if divergences.len() < 4 {
                    let at: usize = res.split(' ').nth(1).and_then(|x| x.parse().ok()).unwrap_or(0);
                    let evs: Vec<&String> = meta.3.iter().filter(|l| l.starts_with("ev ")).collect();
                    let lo = at.saturating_sub(40);
                    divergences.push(J::obj(vec![
                        ("kind", J::s("correspondence")),
                        ("detail", J::s(format!("implementation trace is not an execution of the pipeline model: {res}"))),
                        ("model_says", J::s(res.clone())),
                        ("case", J::n(meta.0 as usize)),
                        ("workers", J::n(meta.1)),
                        ("schedule", J::s(meta.2.clone())),
                        ("choices", J::Arr(meta.4.iter().take(4000).map(|c| J::n(*c)).collect())),
                        ("events_before_divergence", J::Arr(evs.iter().skip(lo).take(at + 1 - lo).map(|l| J::s((*l).clone())).collect())),
                        ("block", meta.5.clone()),
                    ]));
                } else {
                    divergences.push(J::Null);
                }
            }
        }
    }
    let n_div = divergences.len();
    let mut all_div: Vec<J> = divergences.into_iter().filter(|d| !matches!(d, J::Null)).collect();
    all_div.extend(oracle_div);
    let distinct: std::collections::BTreeSet<_> = metas.iter().map(|m| m.3.join("|")).collect();
    J::obj(vec![
        ("check", J::s("sched-conformance (real scheduler trace replayed through the proven Sched.step)")),
        ("seed", J::n(seed as usize)),
        ("cases", J::n(metas.len())),
        ("conforming", J::n(ok)),
        ("complete_runs", J::n(complete)),
        ("skipped_beneficiary_read", J::n(skipped)),
        ("model_steps_replayed", J::n(model_steps)),
        ("distinct_traces", J::n(distinct.len())),
        ("n_divergences", J::n(n_div)),
        ("divergences", J::Arr(all_div)),
        ("stalls", J::Arr(stalls.into_iter().map(J::Str).collect())),
        ("site_histogram", J::Obj(site_hist.into_iter().map(|(k, v)| (k.to_owned(), J::n(v as usize))).collect())),
        ("samples", J::Arr(samples)),
    ])
}

/// `panics`: a user-supplied database (or precompile) panics inside a worker. For every key the
/// block touches, a database that panics when that key is read is run free and under controller
/// schedules. Required: `execute()` terminates (no stall, no watchdog), every scheduler thread
/// leaves, and either the ORIGINAL panic reaches the caller or — when no thread ever read the key —
/// the result is the in-order result.
pub fn cmd_panics(args: &Args) -> J {
    use crate::world::Key;
    let seed = args.num("seed", 1);
    let cases = args.num("cases", 10);
    let families: Vec<String> = args.str("families", "mixed,conf,invalid,lifecycle,precompile").split(',').map(|s| s.to_owned()).collect();
    let max_txs = args.num("max-txs", 7) as usize;
    let max_keys = args.num("max-keys", 6) as usize;
    let mut divergences = Vec::new();
    let mut points = 0u64;
    let mut propagated = 0u64;
    let mut unread = 0u64;
    let mut runs = 0u64;
    let mut distinct = std::collections::BTreeSet::new();
    let mut samples = Vec::new();
    // keep the injected panics out of the harness output
    std::panic::set_hook(Box::new(|_| {}));
    for case in 0..cases {
        let family = families[(case as usize) % families.len()].clone();
        let n_txs = 2 + case_rng(seed ^ 0x9a, &family, case).below(max_txs - 1);
        let cs = CaseSpec { family: family.clone(), case, n_txs };
        let mut block = make_block(seed, &cs);
        block.db.log_touched = true;
        let expected = world::oracle(&block);
        let mut keys: Vec<Key> = block.db.touched.lock().unwrap().iter().cloned().collect();
        block.db.log_touched = false;
        let mut rr = case_rng(seed ^ 0x9a17, &family, case);
        // a few keys per block, spread over the list
        while keys.len() > max_keys {
            let i = rr.below(keys.len());
            keys.remove(i);
        }
        for key in keys {
            points += 1;
            let mut pb = block.clone();
            pb.db.panic_key = Some(key.clone());
            distinct.insert(format!("{family}/{case}/{key:?}"));
            for round in 0..6 {
                // rounds 4 and 5: the database panics only once (a panic that does not recur when
                // the block is replayed sequentially must still reach the caller)
                pb.db.panic_once = round >= 4;
                let workers = 2 + (round % 2);
                let cfg = RunCfg::parallel(workers);
                let sched = if round < 1 { None } else { Some((strategy_of(["random", "pct", "sticky"][round % 3], &mut Rng::new(rr.next())), rr.next())) };
                let state = grevm::ParallelState::new(pb.db.clone(), true, false);
                let (run, state_after) = world::run_grevm_on(&pb, &cfg, sched.clone(), state);
                let raised = state_after.as_ref().map_or(0, |s| s.database.panics_raised.load(std::sync::atomic::Ordering::SeqCst));
                runs += 1;
                let mut verdict = None;
                if let Some(stall) = run.report.as_ref().and_then(|r| r.stall.clone()) {
                    verdict = Some(("stall", format!("controller detected a stall after the injected panic: {stall}")));
                } else {
                    match &run.panicked {
                        Some(msg) => {
                            if msg.contains("injected panic at") {
                                propagated += 1;
                            } else {
                                verdict = Some(("oracle", format!("the panic that reached the caller is not the original one: {msg:?}")));
                            }
                        }
                        None if raised > 0 => {
                            verdict = Some(("oracle", format!(
                                "the database panicked {raised} time(s) inside the scheduler but execute() returned {:?} with {} outcomes: the panic did not reach the caller",
                                run.result.status, run.result.outcomes.len()
                            )));
                        }
                        None => {
                            // nobody read the key (e.g. a read the parallel path avoids): normal result
                            unread += 1;
                            if let Some(d) = world::compare_runs(&expected, &run.result) {
                                verdict = Some(("oracle", format!("no panic reached the caller and the result is not the in-order result: {d}")));
                            }
                        }
                    }
                    if let Some(r) = &run.report {
                        let ends = r.trace.iter().filter(|e| e.site == "end").count();
                        let starts = r.trace.iter().filter(|e| e.site == "start").count();
                        if ends != starts && verdict.is_none() {
                            verdict = Some(("stall", format!("{starts} scheduler threads started but {ends} finished")));
                        }
                    }
                }
                if let Some((kind, detail)) = verdict {
                    if divergences.len() < 6 {
                        divergences.push(J::obj(vec![
                            ("kind", J::s(kind)),
                            ("detail", J::s(format!("panic injection at {key:?}: {detail}"))),
                            ("family", J::s(family.clone())),
                            ("case", J::n(case as usize)),
                            ("seed", J::n(seed as usize)),
                            ("config", J::s(cfg.describe())),
                            ("schedule", J::s(format!("{:?}", sched.as_ref().map(|s| s.1)))),
                            ("trace_tail", J::Arr(run.report.as_ref().map(|r| r.trace.iter().rev().take(60).rev().map(|e| J::s(format!("{} {} {:?}", e.tid, e.site, e.args))).collect()).unwrap_or_default())),
                            ("block", block_json(&block)),
                        ]));
                    }
                }
            }
        }
        if samples.len() < 2 {
            samples.push(J::obj(vec![("family", J::s(family)), ("case", J::n(case as usize)), ("block", block_json(&block))]));
        }
    }
    let _ = std::panic::take_hook();
    J::obj(vec![
        ("check", J::s("panic-injection (database panics at every touched key; free and controlled schedules)")),
        ("seed", J::n(seed as usize)),
        ("cases", J::n(runs as usize)),
        ("conforming", J::n(runs as usize - divergences.len().min(runs as usize))),
        ("distinct_nontrivial", J::n(distinct.len())),
        ("panic_points", J::n(points as usize)),
        ("panic_reached_caller", J::n(propagated as usize)),
        ("key_never_read", J::n(unread as usize)),
        ("divergences", J::Arr(divergences)),
        ("samples", J::Arr(samples)),
    ])
}

/// `facade-conf`: runs blocks of the precompile family (free, under controller schedules and
/// sequentially) with the instrumented test precompiles, then replays every logged precompile
/// invocation (static flag, facade calls, what each returned) through the Lean facade model.
pub fn cmd_facade_conf(args: &Args) -> J {
    let seed = args.num("seed", 1);
    let cases = args.num("cases", 60);
    let gmodel = args.str("gmodel", "/verif/lean/.lake/build/bin/gmodel");
    blocks::FACADE_LOG.lock().unwrap().clear();
    let mut stats = Stats::new();
    let mut divergences = Vec::new();
    for case in 0..cases {
        let cs = CaseSpec { family: "precompile".to_owned(), case, n_txs: 2 + case_rng(seed ^ 0xfc, "precompile", case).below(8) };
        let block = make_block(seed, &cs);
        let configs = parse_configs("w2,seq", block.txs.len());
        for d in check_block(seed, &cs, &block, &configs, &["random", "pct", "sticky"], 1, &mut stats, "oracle") {
            if divergences.len() < 4 {
                divergences.push(d);
            }
        }
    }
    let log = std::mem::take(&mut *blocks::FACADE_LOG.lock().unwrap());
    let mut session = String::from("facade\n");
    let mut shapes: BTreeMap<String, u64> = BTreeMap::new();
    for (is_static, calls) in &log {
        let line = format!("{} {}", *is_static as u8, calls.iter().map(|(o, r, c, a)| format!("{o}{r}{c}{a}")).collect::<Vec<_>>().join(" "));
        *shapes.entry(line.clone()).or_default() += 1;
        session.push_str(&line);
        session.push('\n');
    }
    session.push_str("end\n");
    let mut ok = 0usize;
    match lean::run_gmodel(&gmodel, &session) {
        Err(e) => divergences.push(J::obj(vec![("kind", J::s("correspondence")), ("detail", J::s(e))])),
        Ok(lines) => {
            let l = lines.first().cloned().unwrap_or_default();
            if l.starts_with("ok ") {
                ok = log.len();
            } else {
                divergences.push(J::obj(vec![("kind", J::s("correspondence")), ("detail", J::s(format!("facade call log vs Lean model: {l}")))]));
            }
        }
    }
    J::obj(vec![
        ("check", J::s("facade-conformance (logged precompile invocations vs Lean Model/Facade)")),
        ("seed", J::n(seed as usize)),
        ("cases", J::n(log.len())),
        ("conforming", J::n(ok)),
        ("distinct_nontrivial", J::n(shapes.len())),
        ("invocation_shapes", J::Obj(shapes.into_iter().map(|(k, v)| (k, J::n(v as usize))).collect())),
        ("static_invocations", J::n(log.iter().filter(|(s, _)| *s).count())),
        ("divergences", J::Arr(divergences)),
        ("samples", J::Arr(vec![])),
    ])
}

/// `adapter-conf`: what the adapter `DynParallelPrecompile::to_alloy` reports when an
/// implementation answers a facade error in its own way. The expected verdict comes from the Lean
/// model (`Facade.adapter` over `Facade.runOps`), NOT from the in-order oracle, which installs the
/// same adapter. One transaction per case: a contract calls the error-replacer precompile (mode
/// 0-3) through CALL or STATICCALL and stores whether the call succeeded.
pub fn cmd_adapter_conf(args: &Args) -> J {
    use revm_primitives::U256;
    let seed = args.num("seed", 1);
    let gmodel = args.str("gmodel", "/verif/lean/.lake/build/bin/gmodel");
    let mut session = String::from("adapter\n");
    let mut observed = Vec::new();
    let mut descs = Vec::new();
    let mut rng = Rng::new(seed ^ 0xada9);
    for is_static in [false, true] {
        for mode in 0u64..4 {
            for (cfg_name, cfg) in [("parallel", RunCfg::parallel(2)), ("sequential", RunCfg { workers: 1, min_parallel_txs: 0, force_sequential: true, entry_fallback: false })] {
                let mut b = blocks::precompile_builder(&mut rng, revm_primitives::hardfork::SpecId::SHANGHAI, 2);
                b.call(&mut rng, blocks::eoa(0), blocks::contract(48), &[mode, is_static as u64], "adapter-probe");
                b.transfer(&mut rng, blocks::eoa(1), blocks::eoa(0), 1);
                let block = b.finish();
                let run = world::run_grevm(&block, &cfg, None);
                let kind = match &run.result.status {
                    Err((_, e)) if e.contains("fatal") || e.contains("custom") => "fatal".to_owned(),
                    Err((_, e)) => format!("error:{e}"),
                    Ok(()) => {
                        let flag = run
                            .result
                            .bundle
                            .state
                            .get(&blocks::contract(48))
                            .and_then(|a| a.storage.get(&U256::ZERO))
                            .map(|s| s.present_value);
                        match flag {
                            // the assembler stores success + 1
                            Some(v) if v == U256::from(2u64) => "ok".to_owned(),
                            Some(v) if v == U256::from(1u64) => "halt".to_owned(),
                            other => format!("unexpected-flag:{other:?}"),
                        }
                    }
                };
                session.push_str(&format!("{} {mode}\n", is_static as u8));
                observed.push(kind);
                descs.push(format!("static={is_static} mode={mode} path={cfg_name}"));
            }
        }
    }
    session.push_str("end\n");
    let mut divergences = Vec::new();
    let mut ok = 0usize;
    match lean::run_gmodel(&gmodel, &session) {
        Err(e) => divergences.push(J::obj(vec![("kind", J::s("correspondence")), ("detail", J::s(e))])),
        Ok(lines) => {
            let model: Vec<&str> = lines.first().map(|l| l.split(';').collect()).unwrap_or_default();
            for (i, o) in observed.iter().enumerate() {
                let m = model.get(i).copied().unwrap_or("<missing>");
                if m == o {
                    ok += 1;
                } else {
                    divergences.push(J::obj(vec![
                        ("kind", J::s("oracle")),
                        ("detail", J::s(format!("adapter case {}: the call ended as `{o}`, the facade model (fault recorded by the facade overrides whatever the implementation returns) says `{m}`", descs[i]))),
                    ]));
                }
            }
        }
    }
    J::obj(vec![
        ("check", J::s("adapter-conformance (error-replacer precompile through CALL/STATICCALL vs Lean Facade.adapter)")),
        ("seed", J::n(seed as usize)),
        ("cases", J::n(observed.len())),
        ("conforming", J::n(ok)),
        ("distinct_nontrivial", J::n(observed.len())),
        ("observed", J::Arr(descs.iter().zip(observed.iter()).map(|(d, o)| J::s(format!("{d} => {o}"))).collect())),
        ("divergences", J::Arr(divergences)),
        ("samples", J::Arr(vec![])),
    ])
}
