//! Talks to the Lean driver `gmodel` over stdin/stdout.

use std::{
    io::Write,
    process::{Command, Stdio},
};

/// Feed `input` (sessions separated by `end`) and return one result line per session.
pub fn run_gmodel(path: &str, input: &str) -> Result<Vec<String>, String> {
    let mut child = Command::new(path)
        .stdin(Stdio::piped())
        .stdout(Stdio::piped())
        .stderr(Stdio::piped())
        .spawn()
        .map_err(|e| format!("cannot start {path}: {e}"))?;
    let mut stdin = child.stdin.take().unwrap();
    let data = input.as_bytes().to_vec();
    let writer = std::thread::spawn(move || {
        let _ = stdin.write_all(&data);
    });
    let out = child.wait_with_output().map_err(|e| format!("gmodel failed: {e}"))?;
    let _ = writer.join();
    if !out.status.success() {
        return Err(format!(
            "gmodel exited with {}: {}",
            out.status,
            String::from_utf8_lossy(&out.stderr)
        ));
    }
    Ok(String::from_utf8_lossy(&out.stdout).lines().map(|l| l.to_owned()).collect())
}
