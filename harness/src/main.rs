//! `gharness` — correspondence checks between the real grevm code (built from /repo's working
//! tree with feature `verif-hooks`) and the Lean models (`gmodel`, line protocol).
//!
//! Usage: gharness <subcommand> [--seed N] [--cases N] [--out FILE] ...
//! Every subcommand prints a single JSON object on its last stdout line.

mod ctrl;
mod e2e;
mod evmasm;
mod gate;
mod blocks;
mod cache;
mod components;
mod json;
mod kernels;
mod lean;
mod once;
mod repr;
mod reserve;
mod world;

use ctrl::{Rng, Strategy};
use json::J;
use std::collections::BTreeMap;

pub struct Args {
    pub sub: String,
    pub opts: BTreeMap<String, String>,
}

impl Args {
    fn parse() -> Self {
        let mut it = std::env::args().skip(1);
        let sub = it.next().unwrap_or_default();
        let mut opts = BTreeMap::new();
        while let Some(k) = it.next() {
            if let Some(k) = k.strip_prefix("--") {
                let v = it.next().unwrap_or_default();
                opts.insert(k.to_owned(), v);
            }
        }
        Self { sub, opts }
    }
    pub fn num(&self, k: &str, default: u64) -> u64 {
        self.opts.get(k).and_then(|v| v.parse().ok()).unwrap_or(default)
    }
    pub fn str(&self, k: &str, default: &str) -> String {
        self.opts.get(k).cloned().unwrap_or_else(|| default.to_owned())
    }
}

fn strategy_for(rng: &mut Rng, case: u64) -> (Strategy, &'static str) {
    match case % 4 {
        0 => (Strategy::Random, "random"),
        1 => (Strategy::Pct { d: 1 + rng.below(3), len: 60 + rng.below(200) }, "pct"),
        2 => (Strategy::Sticky, "sticky"),
        _ => (Strategy::Random, "random"),
    }
}

/// `kernel-ctx` / `kernel-dep`: controller-serialised real threads vs. the Lean step functions.
fn cmd_kernel(args: &Args, which: &str) -> J {
    let seed = args.num("seed", 1);
    let cases = args.num("cases", 200);
    let gmodel = args.str("gmodel", "/verif/lean/.lake/build/bin/gmodel");
    let mut rng = Rng::new(seed ^ 0xC0FFEE);
    let mut session = String::new();
    let mut metas = Vec::new();
    let mut site_hist: BTreeMap<&'static str, u64> = BTreeMap::new();
    let mut stalls = Vec::new();
    let mut sample = Vec::new();
    for case in 0..cases {
        let n = 2 + rng.below(4);
        let threads = 2 + rng.below(2);
        let ops = 3 + rng.below(6);
        let (strategy, sname) = strategy_for(&mut rng, case);
        let case_seed = rng.next();
        let (report, final_line, script_desc) = if which == "wait" {
            let producers = threads - 1 + rng.below(2);
            let scripts = kernels::gen_wait_scripts(&mut rng, producers, ops / 2);
            let delay = rng.below(6);
            let (report, done) = kernels::run_wait(&scripts, delay, strategy, case_seed);
            (report, format!("final {} -", done as u8), format!("waiter-delay {delay} producers {scripts:?}"))
        } else if which == "ctx" {
            let scripts = kernels::gen_ctx_scripts(&mut rng, n, threads, ops);
            let (report, fin) = kernels::run_ctx(n, &scripts, strategy, case_seed);
            let mut f = format!("final {} {}", fin.validation_idx, fin.frontier);
            for v in fin.lts.iter().chain(fin.uts.iter()) {
                f.push_str(&format!(" {v}"));
            }
            (report, f, format!("{scripts:?}"))
        } else {
            let scripts = kernels::gen_dep_scripts(&mut rng, n, threads, ops);
            let (report, (states, affects, index)) =
                kernels::run_dep(n, &scripts, strategy, case_seed);
            let mut f = format!("final {index}");
            for (onboard, dep) in &states {
                f.push_str(&format!(" {} {}", *onboard as u8, kernels::opt(*dep)));
            }
            for aff in &affects {
                f.push_str(" aff");
                for x in aff {
                    f.push_str(&format!(" {x}"));
                }
            }
            (report, f, format!("{scripts:?}"))
        };
        for e in &report.trace {
            *site_hist.entry(e.site).or_default() += 1;
        }
        if let Some(stall) = &report.stall {
            stalls.push(format!("case {case}: {stall}"));
        }
        if which == "wait" {
            session.push_str("kernel wait\n");
        } else {
            session.push_str(&format!("kernel {which} {n}\n"));
        }
        let lines = kernels::trace_lines(&report);
        if sample.len() < 2 {
            sample.push(J::obj(vec![
                ("n", J::Num(n as f64)),
                ("threads", J::Num(threads as f64)),
                ("strategy", J::Str(sname.to_owned())),
                ("scripts", J::Str(script_desc.clone())),
                ("events", J::Num(lines.len() as f64)),
                ("first_events", J::Arr(lines.iter().take(12).map(|l| J::Str(l.clone())).collect())),
            ]));
        }
        for l in &lines {
            session.push_str(l);
            session.push('\n');
        }
        session.push_str(&final_line);
        session.push_str("\nend\n");
        metas.push((case, n, threads, sname, script_desc, lines, final_line, report.choices));
    }
    let results = lean::run_gmodel(&gmodel, &session);
    let mut divergences = Vec::new();
    let mut ok = 0u64;
    match results {
        Err(e) => divergences.push(J::obj(vec![("error", J::Str(e))])),
        Ok(results) => {
            if results.len() != metas.len() {
                divergences.push(J::obj(vec![(
                    "error",
                    J::Str(format!("gmodel answered {} of {} sessions", results.len(), metas.len())),
                )]));
            }
            for (res, meta) in results.iter().zip(metas.iter()) {
                if res.starts_with("ok ") {
                    ok += 1;
                } else if divergences.len() < 5 {
                    divergences.push(J::obj(vec![
                        ("case", J::Num(meta.0 as f64)),
                        ("n", J::Num(meta.1 as f64)),
                        ("threads", J::Num(meta.2 as f64)),
                        ("strategy", J::Str(meta.3.to_owned())),
                        ("scripts", J::Str(meta.4.clone())),
                        ("model_says", J::Str(res.clone())),
                        ("schedule", J::Arr(meta.7.iter().map(|c| J::Num(*c as f64)).collect())),
                        ("trace", J::Arr(meta.5.iter().map(|l| J::Str(l.clone())).collect())),
                        ("final", J::Str(meta.6.clone())),
                    ]));
                } else {
                    divergences.push(J::Null);
                }
            }
        }
    }
    let distinct: std::collections::BTreeSet<_> = metas.iter().map(|m| m.5.join("|")).collect();
    J::obj(vec![
        ("check", J::Str(format!("kernel-{which}"))),
        ("seed", J::Num(seed as f64)),
        ("cases", J::Num(cases as f64)),
        ("conforming", J::Num(ok as f64)),
        ("distinct_traces", J::Num(distinct.len() as f64)),
        ("divergences", J::Arr(divergences.into_iter().filter(|d| !matches!(d, J::Null)).collect())),
        ("n_divergences", J::Num((cases - ok) as f64)),
        ("stalls", J::Arr(stalls.into_iter().map(J::Str).collect())),
        (
            "site_histogram",
            J::Obj(site_hist.into_iter().map(|(k, v)| (k.to_owned(), J::Num(v as f64))).collect()),
        ),
        ("samples", J::Arr(sample)),
    ])
}

fn main() {
    let args = Args::parse();
    *world::watchdog::CONTEXT.lock().unwrap() = format!("{} {:?}", args.sub, args.opts);
    if let Some(g) = args.opts.get("gmodel") {
        let _ = world::oracle_guard::GMODEL.set(g.clone());
    }
    let out = match args.sub.as_str() {
        "kernel-ctx" => cmd_kernel(&args, "ctx"),
        "kernel-wait" => cmd_kernel(&args, "wait"),
        "kernel-dep" => cmd_kernel(&args, "dep"),
        "e2e" => e2e::cmd_e2e(&args),
        "faults" => e2e::cmd_faults(&args),
        "witness" => e2e::cmd_witness(&args),
        "panics" => e2e::cmd_panics(&args),
        "facade-conf" => e2e::cmd_facade_conf(&args),
        "adapter-conf" => e2e::cmd_adapter_conf(&args),
        "sched-conf" => e2e::cmd_sched_conf(&args),
        "history" => components::cmd_history(&args),
        "reward" => components::cmd_reward(&args),
        "repr" => repr::cmd_repr(&args),
        "once" => once::cmd_once(&args),
        "cache-history" => cache::cmd_cache_history(&args),
        "cache-race" => cache::cmd_cache_race(&args),
        "reserve" => reserve::cmd_reserve(&args),
        "commit-gate" => gate::cmd_commit_gate(&args),
        other => J::obj(vec![("error", J::Str(format!("unknown subcommand {other}")))]),
    };
    println!("{}", out.render());
}
