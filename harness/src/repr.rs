//! Representation-layer differential (C08/C09): the real `IncarnationDb` (publish_writes + reads)
//! vs. stock revm's `State` (the logical oracle) vs. the proven Lean model `Model/Repr.lean`.
//!
//! Each case is a block of finalized journal states (account status flags, info, changed slots)
//! applied in order. Before and after every publication, accounts, code and slots are read back
//! through the real `IncarnationDb` as a later transaction would; every read must equal what revm's
//! `State` returns after committing the same journal states, and both must equal the model's
//! physical read and logical value. At the end the published multi-version entries are compared
//! with the model's one by one.

use crate::{
    Args,
    ctrl::Rng,
    json::J,
    lean,
    world::{MemAccount, MemDb},
};
use grevm::verif::drivers::{BeneficiaryDriver, IncarnationDriver, Loc, MvDriver, classify_account};
use revm::{Database, DatabaseCommit};
use revm_database::StateBuilder;
use revm_primitives::{Address, B256, KECCAK_EMPTY, U256};
use revm_state::{Account, AccountInfo, AccountStatus, Bytecode, EvmState, EvmStorageSlot, TransactionId};
use std::collections::{BTreeMap, BTreeSet, HashMap};

const N_ADDR: usize = 3;
const N_SLOT: usize = 3;

fn addr(i: usize) -> Address {
    Address::with_last_byte(0xA0 + i as u8)
}

fn code(id: usize) -> Option<Bytecode> {
    match id {
        0 => None,
        3 => Some(Bytecode::new_eip7702(Address::with_last_byte(0x77))),
        4 => Some(Bytecode::new_eip7702(Address::with_last_byte(0x78))),
        _ => Some(Bytecode::new_raw(vec![0x60, id as u8, 0x00].into())),
    }
}

struct Codes {
    by_hash: HashMap<B256, usize>,
}

impl Codes {
    fn new() -> Self {
        let mut by_hash = HashMap::new();
        by_hash.insert(KECCAK_EMPTY, 0);
        for id in 1..=4 {
            by_hash.insert(code(id).unwrap().hash_slow(), id);
        }
        Self { by_hash }
    }
    fn id(&self, hash: B256) -> usize {
        *self.by_hash.get(&hash).unwrap_or(&99)
    }
}

fn info(nonce: u64, balance: u64, code_id: usize, attach: bool) -> AccountInfo {
    let bytecode = code(code_id);
    AccountInfo {
        nonce,
        balance: U256::from(balance),
        code_hash: bytecode.as_ref().map_or(KECCAK_EMPTY, |c| c.hash_slow()),
        code: if attach { bytecode } else { None },
        ..Default::default()
    }
}

fn fields(i: &AccountInfo) -> u64 {
    i.nonce * 1000 + i.balance.to::<u64>()
}

fn show(codes: &Codes, i: &Option<AccountInfo>) -> String {
    match i {
        None => "-".to_owned(),
        Some(i) => format!("{}:{}", fields(i), codes.id(i.code_hash)),
    }
}

struct Case {
    lines: Vec<String>,
    /// expected answer tokens `"<impl> <oracle>"`, one per query line (incl. the dump)
    expect: Vec<String>,
    /// the query line of each expected answer
    queries: Vec<String>,
    oracle_mismatch: Option<String>,
    kinds: Vec<&'static str>,
}

fn run_case(rng: &mut Rng, codes: &Codes, hist: &mut BTreeMap<&'static str, u64>) -> Case {
    // backing store
    let mut db = MemDb::default();
    let mut lines = vec!["repr".to_owned()];
    for a in 0..N_ADDR {
        if rng.chance(1, 2) {
            let cid = if rng.chance(1, 2) { 0 } else { 1 + rng.below(4) };
            let i = info(rng.below(3) as u64, rng.below(3) as u64, cid, false);
            if let Some(c) = code(cid) {
                db.codes.insert(c.hash_slow(), c);
            }
            let mut storage = BTreeMap::new();
            // Ethereum invariant revm's State relies on: an account without nonce and code has no
            // storage in the backing store
            let may_have_storage = i.nonce > 0 || cid != 0;
            for k in 0..N_SLOT {
                if may_have_storage && rng.chance(1, 2) {
                    let v = 1 + rng.below(3) as u64;
                    storage.insert(U256::from(k), U256::from(v));
                    lines.push(format!("bstor {a} {k} {v}"));
                }
            }
            lines.push(format!("base {a} {} {cid}", fields(&i)));
            db.accounts.insert(addr(a), MemAccount { info: i, storage });
        }
    }
    // every code the block may install must be resolvable by hash for revm's State
    for id in 1..=4 {
        let c = code(id).unwrap();
        db.codes.entry(c.hash_slow()).or_insert(c);
    }
    let mv = MvDriver::default();
    let ben = BeneficiaryDriver::new(Address::with_last_byte(0xCB), None, 16);
    let mut idb = IncarnationDriver::new(&db, &mv, &ben);
    let mut state = StateBuilder::new().with_database_ref(&db).build();

    let mut expect = Vec::new();
    let mut queries = Vec::new();
    let mut oracle_mismatch = None;
    // (account, slot) storage reads and account reads of the current transaction
    let mut slot_reads: Vec<(usize, usize)> = Vec::new();
    let mut basic_reads: Vec<usize> = Vec::new();
    let mut kinds = Vec::new();

    // one read through both sides; records the query
    macro_rules! read_basic {
        ($i:expr, $a:expr) => {{
            let real = idb.basic(addr($a)).unwrap();
            let orc = state.basic(addr($a)).unwrap();
            let (r, o) = (show(codes, &real), show(codes, &orc));
            if r != o && oracle_mismatch.is_none() {
                oracle_mismatch = Some(format!("tx {} reads account {}: IncarnationDb {r}, revm State {o}", $i, $a));
            }
            basic_reads.push($a);
            lines.push(format!("q b {} {}", $i, $a));
            queries.push(format!("q b {} {}", $i, $a));
            expect.push(format!("{r} {o}"));
            // the code the reader ends up with
            let rc = real.as_ref().map_or(0, |x| match &x.code {
                Some(c) if !c.is_empty() => codes.id(c.hash_slow()),
                Some(_) => 0,
                None => if x.code_hash == KECCAK_EMPTY { 0 } else { 98 },
            });
            let oc = orc.as_ref().map_or(0, |x| {
                if x.code_hash == KECCAK_EMPTY { 0 } else { codes.id(state.code_by_hash(x.code_hash).unwrap().hash_slow()) }
            });
            if rc != oc && oracle_mismatch.is_none() {
                oracle_mismatch = Some(format!("tx {} reads code of account {}: IncarnationDb {rc}, revm State {oc}", $i, $a));
            }
            lines.push(format!("q c {} {}", $i, $a));
            queries.push(format!("q c {} {}", $i, $a));
            expect.push(format!("{rc} {oc}"));
            real
        }};
    }
    macro_rules! read_slot {
        ($i:expr, $a:expr, $k:expr) => {{
            let (a_, k_) = ($a, $k);
            let real = idb.storage(addr(a_), U256::from(k_)).unwrap();
            let _ = state.basic(addr(a_)).unwrap();
            let orc = state.storage(addr(a_), U256::from(k_)).unwrap();
            if real != orc && oracle_mismatch.is_none() {
                oracle_mismatch = Some(format!("tx {} reads slot {} of account {}: IncarnationDb {real}, revm State {orc}", $i, k_, a_));
            }
            slot_reads.push((a_, k_));
            lines.push(format!("q s {} {} {}", $i, a_, k_));
            queries.push(format!("q s {} {} {}", $i, a_, k_));
            expect.push(format!("{real} {orc}"));
            real
        }};
    }

    let n = 1 + rng.below(7);
    for i in 0..n {
        idb.begin(i, 0);
        slot_reads.clear();
        basic_reads.clear();
        lines.push("tx".to_owned());
        // extra reads
        for _ in 0..rng.below(3) {
            let a = rng.below(N_ADDR);
            if rng.chance(1, 2) {
                read_basic!(i, a);
            } else {
                read_slot!(i, a, rng.below(N_SLOT));
            }
        }
        let mut changes = EvmState::default();
        let mut chosen = BTreeSet::new();
        for _ in 0..1 + rng.below(2) {
            chosen.insert(rng.below(N_ADDR));
        }
        for a in chosen {
            let pre = read_basic!(i, a);
            let pre_code = pre.as_ref().map_or(0, |p| codes.id(p.code_hash));
            let mut status = AccountStatus::Touched;
            if pre.is_none() {
                status |= AccountStatus::LoadedAsNotExisting;
            }
            let mut storage: HashMap<U256, EvmStorageSlot> = HashMap::default();
            let roll = rng.below(10);
            let (kind, new_info): (&'static str, AccountInfo) = if roll < 2 {
                // SELFDESTRUCT (info is what the journal leaves: balance zeroed)
                status |= AccountStatus::SelfDestructed;
                if rng.chance(1, 3) {
                    status |= AccountStatus::Created;
                }
                ("selfdestruct", info(pre.as_ref().map_or(0, |p| p.nonce), 0, pre_code, false))
            } else if roll < 5 && pre.as_ref().is_none_or(|p| p.nonce == 0 && pre_code == 0) {
                // CREATE / CREATE2 target: absent, previously destroyed, or a balance-only account
                // (anything else is an address collision, which revm rejects)
                status |= AccountStatus::Created;
                let cid = if rng.chance(1, 3) { 0 } else { 1 + rng.below(4) };
                for k in 0..N_SLOT {
                    if rng.chance(1, 2) {
                        let v = rng.below(3) as u64;
                        storage.insert(U256::from(k), EvmStorageSlot::new_changed(U256::ZERO, U256::from(v), TransactionId::ZERO));
                    }
                }
                ("create", info(rng.below(2) as u64, rng.below(3) as u64, cid, true))
            } else {
                // update: transfer / nonce bump / EIP-7702 set, re-point, clear / SSTORE
                let (nonce0, bal0) = pre.as_ref().map_or((0, 0), |p| (p.nonce, p.balance.to::<u64>()));
                let mut nonce = nonce0 + rng.below(2) as u64;
                let bal = if rng.chance(1, 2) { bal0 } else { rng.below(4) as u64 };
                let cid = match rng.below(6) {
                    0 | 1 => 1 + rng.below(4),
                    2 if pre_code != 0 => {
                        // clearing a delegation bumps the authority nonce (EIP-7702)
                        if nonce == nonce0 {
                            nonce += 1;
                        }
                        0
                    }
                    _ => pre_code,
                };
                let attach = cid != pre_code || rng.chance(1, 2);
                if pre.is_some() {
                    for _ in 0..rng.below(3) {
                        let k = rng.below(N_SLOT);
                        let cur = read_slot!(i, a, k);
                        let v = rng.below(3) as u64;
                        storage.insert(U256::from(k), EvmStorageSlot::new_changed(cur, U256::from(v), TransactionId::ZERO));
                    }
                }
                ("update", info(nonce, bal, cid, attach))
            };
            let mut account = Account::default().with_info(new_info.clone()).with_storage(storage.clone().into_iter().map(|(k, v)| (k, v)));
            account.status = status;
            // with_storage resets original values: restore the generated slots
            account.storage = storage.clone().into_iter().collect();
            let class = classify_account(&account);
            {
                // untouched variant too: a merely loaded account publishes nothing
                let mut loaded = account.clone();
                loaded.status -= AccountStatus::Touched;
                for acc in [&loaded, &account] {
                    let q = format!(
                        "cls {} {} {} {}",
                        acc.is_touched() as u8,
                        acc.is_selfdestructed() as u8,
                        acc.is_created() as u8,
                        acc.is_empty() as u8
                    );
                    lines.push(q.clone());
                    queries.push(q);
                    expect.push(classify_account(acc).to_string());
                }
            }
            let slots: Vec<String> = {
                let mut s: Vec<_> = storage.iter().filter(|(_, v)| v.is_changed()).map(|(k, v)| (k.to::<u64>(), v.present_value.to::<u64>())).collect();
                s.sort();
                s.iter().map(|(k, v)| format!("{k} {v}")).collect()
            };
            let cid = codes.id(new_info.code_hash);
            let line = match class {
                0 => continue,
                1 => format!("chg {a} del"),
                2 => format!("chg {a} new {} {cid} {}", fields(&new_info), slots.join(" ")),
                _ => format!("chg {a} upd {} {cid} {}", fields(&new_info), slots.join(" ")),
            };
            let label = match (kind, class) {
                ("selfdestruct", _) => "selfdestruct",
                ("create", _) => if pre.is_some() { "create-over-existing" } else { "create-fresh" },
                (_, 1) => "touch-empty-deleted",
                _ => if cid != pre_code { if cid == 0 { "update-code-cleared" } else if pre_code == 0 { "update-code-set" } else { "update-code-repointed" } } else { "update" },
            };
            *hist.entry(label).or_default() += 1;
            kinds.push(label);
            lines.push(line.trim_end().to_owned());
            changes.insert(addr(a), account);
        }
        let accesses = idb.finish(&changes);
        // the write set handed to the scheduler must be exactly the set of published locations
        // (it is what a re-execution uses to remove entries it no longer writes)
        {
            let mut ws: Vec<String> = accesses
                .write_set
                .iter()
                .filter_map(|loc| {
                    let a = (0..N_ADDR).find(|a| addr(*a) == loc.address)?;
                    Some(match loc.kind {
                        0 => format!("B{a}"),
                        1 => format!("S{a}.{}", loc.slot),
                        2 => format!("R{a}"),
                        _ => format!("C{a}"),
                    })
                })
                .collect();
            ws.sort();
            lines.push(format!("ws {i}"));
            queries.push(format!("ws {i}"));
            expect.push(ws.join(" "));
        }
        // the read set must name, for every read, the version that was read: the reset marker AND
        // the slot for a storage read, the account entry for an account read (it is what
        // validation re-resolves)
        {
            use grevm::verif::drivers::Version;
            let ver = |kind: u8, a: usize, k: usize| -> String {
                accesses
                    .read_set
                    .iter()
                    .find(|(loc, _)| loc.kind == kind && loc.address == addr(a) && (kind != 1 || loc.slot == U256::from(k)))
                    .map_or("missing".to_owned(), |(_, v)| match v {
                        Version::Storage => "-".to_owned(),
                        Version::Mv(t, _) => t.to_string(),
                        Version::Beneficiary(_) => "ben".to_owned(),
                    })
            };
            slot_reads.sort();
            slot_reads.dedup();
            for (a, k) in &slot_reads {
                lines.push(format!("rv s {i} {a} {k}"));
                queries.push(format!("rv s {i} {a} {k}"));
                expect.push(format!("R{} S{}", ver(2, *a, 0), ver(1, *a, *k)));
            }
            basic_reads.sort();
            basic_reads.dedup();
            for a in &basic_reads {
                lines.push(format!("rv b {i} {a}"));
                queries.push(format!("rv b {i} {a}"));
                expect.push(format!("B{}", ver(0, *a, 0)));
            }
        }
        state.commit(changes);
    }
    // a reader after the whole block
    idb.begin(n, 0);
    for a in 0..N_ADDR {
        read_basic!(n, a);
        for k in 0..N_SLOT {
            read_slot!(n, a, k);
        }
    }
    idb.discard();
    // published entries
    let mut real_dump: Vec<String> = mv
        .dump()
        .into_iter()
        .filter_map(|(loc, txid, _inc, _est, value)| {
            let a = (0..N_ADDR).find(|a| addr(*a) == loc.address)?;
            Some(match loc.kind {
                0 => {
                    let v = if value == "basic:none" {
                        "-".to_owned()
                    } else {
                        let parts: Vec<&str> = value.split(':').collect();
                        let bal: u64 = parts[1].parse().unwrap_or(0);
                        let nonce: u64 = parts[2].parse().unwrap_or(0);
                        let hash: B256 = parts[3].parse().unwrap_or_default();
                        format!("{}:{}", nonce * 1000 + bal, codes.id(hash))
                    };
                    format!("B{a}@{txid}={v}")
                }
                1 => format!("S{a}.{}@{txid}={}", loc.slot, value.trim_start_matches("storage:")),
                2 => format!("R{a}@{txid}"),
                _ => {
                    let hash: B256 = value.trim_start_matches("code:").parse().unwrap_or_default();
                    format!("C{a}@{txid}={}", codes.id(hash))
                }
            })
        })
        .collect();
    real_dump.sort();
    lines.push("dump".to_owned());
    queries.push("dump".to_owned());
    expect.push(real_dump.join(" "));
    lines.push("end".to_owned());
    let _ = Loc { kind: 0, address: addr(0), slot: U256::ZERO };
    Case { lines, expect, queries, oracle_mismatch, kinds }
}

pub fn cmd_repr(args: &Args) -> J {
    let seed = args.num("seed", 1);
    let cases = args.num("cases", 1500);
    let gmodel = args.str("gmodel", "/verif/lean/.lake/build/bin/gmodel");
    let mut rng = Rng::new(seed ^ 0x4e9e);
    let codes = Codes::new();
    let mut hist = BTreeMap::new();
    let mut all = Vec::new();
    let mut session = String::new();
    for _ in 0..cases {
        let c = run_case(&mut rng, &codes, &mut hist);
        for l in &c.lines {
            session.push_str(l);
            session.push('\n');
        }
        all.push(c);
    }
    let mut divergences = Vec::new();
    let mut ok = 0usize;
    let mut reads = 0usize;
    for (i, c) in all.iter().enumerate() {
        if let Some(m) = &c.oracle_mismatch {
            if divergences.len() < 5 {
                divergences.push(J::obj(vec![
                    ("kind", J::s("oracle")),
                    ("detail", J::s(format!("repr case {i}: {m}"))),
                    ("session", J::Arr(c.lines.iter().map(|l| J::s(l.clone())).collect())),
                ]));
            }
        }
    }
    match lean::run_gmodel(&gmodel, &session) {
        Err(e) => divergences.push(J::obj(vec![("kind", J::s("correspondence")), ("detail", J::s(e))])),
        Ok(out) => {
            for (i, c) in all.iter().enumerate() {
                let model: Vec<&str> = out.get(i).map(|s| s.split(';').collect()).unwrap_or_default();
                let mut bad = None;
                for (k, q) in c.queries.iter().enumerate() {
                    let m = model.get(k).copied().unwrap_or("<missing>");
                    reads += 1;
                    let e = &c.expect[k];
                    let same = if q == "dump" || q.starts_with("ws ") {
                        let mut toks: Vec<&str> = m.split(' ').filter(|t| !t.is_empty()).collect();
                        toks.sort();
                        toks.join(" ") == *e
                    } else {
                        m == e
                    };
                    if !same {
                        bad = Some(format!("`{q}`: implementation/oracle `{e}`, model physical/logical `{m}`"));
                        break;
                    }
                }
                match bad {
                    None => ok += 1,
                    Some(msg) => {
                        if divergences.len() < 5 {
                            divergences.push(J::obj(vec![
                                ("kind", J::s("correspondence")),
                                ("detail", J::s(format!("repr case {i}: {msg}"))),
                                ("session", J::Arr(c.lines.iter().map(|l| J::s(l.clone())).collect())),
                            ]));
                        }
                    }
                }
            }
        }
    }
    let distinct: BTreeSet<String> = all.iter().map(|c| c.lines.join("|")).collect();
    let nontrivial = all.iter().filter(|c| c.kinds.len() >= 2).count();
    J::obj(vec![
        ("check", J::s("repr-differential (IncarnationDb vs revm State vs Lean Model/Repr)")),
        ("seed", J::n(seed as usize)),
        ("cases", J::n(cases as usize)),
        ("conforming", J::n(ok)),
        ("reads_compared", J::n(reads)),
        ("distinct_nontrivial", J::n(distinct.len().min(nontrivial))),
        ("change_histogram", J::Obj(hist.into_iter().map(|(k, v)| (k.to_owned(), J::n(v as usize))).collect())),
        ("divergences", J::Arr(divergences)),
        ("samples", J::Arr(all.iter().take(2).map(|c| J::obj(vec![("session", J::Arr(c.lines.iter().map(|l| J::s(l.clone())).collect())), ("answers", J::Arr(c.expect.iter().map(|l| J::s(l.clone())).collect()))])).collect())),
    ])
}
