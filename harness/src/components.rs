//! Line-protocol differentials for sequential components: the same random operation history is
//! run on the real struct (through the feature-gated drivers) and on the Lean model.

use crate::{Args, ctrl::Rng, json::J, lean};
use grevm::verif::beneficiary::{self as ben, HistoryDriver};
use revm::{Context, MainContext, handler::post_execution, interpreter::Gas};
use revm_context::{BlockEnv, CfgEnv, JournalTr, TxEnv};
use revm_primitives::{Address, U256, hardfork::SpecId};
use revm_state::AccountInfo;
use std::collections::BTreeMap;

fn acct_tokens(a: &Option<AccountInfo>) -> String {
    match a {
        None => "-".to_owned(),
        Some(i) => format!("{} {}", i.balance, i.nonce),
    }
}

fn gen_acct(rng: &mut Rng) -> Option<AccountInfo> {
    match rng.below(6) {
        0 => None,
        1 => Some(AccountInfo { balance: U256::MAX - U256::from(rng.below(40)), nonce: rng.below(3) as u64, ..Default::default() }),
        _ => Some(AccountInfo { balance: U256::from(rng.below(1000)), nonce: rng.below(3) as u64, ..Default::default() }),
    }
}

/// Compare `;`-separated result strings, reporting the first differing operation.
fn first_diff(ops: &[String], impl_res: &[String], model: &str) -> Option<(usize, String)> {
    let model_res: Vec<&str> = if model.is_empty() { vec![] } else { model.split(';').collect() };
    if model.starts_with("error") {
        return Some((0, model.to_owned()));
    }
    for (i, r) in impl_res.iter().enumerate() {
        let m = model_res.get(i).copied().unwrap_or("<missing>");
        if m != r {
            return Some((i, format!("op `{}`: impl `{}` model `{}`", ops[i], r, m)));
        }
    }
    if model_res.len() != impl_res.len() {
        return Some((impl_res.len(), "result count differs".to_owned()));
    }
    None
}

pub fn cmd_history(args: &Args) -> J {
    let seed = args.num("seed", 1);
    let cases = args.num("cases", 500);
    let gmodel = args.str("gmodel", "/verif/lean/.lake/build/bin/gmodel");
    let mut rng = Rng::new(seed ^ 0x4157);
    let mut session = String::new();
    let mut all = Vec::new();
    let mut op_hist: BTreeMap<&'static str, u64> = BTreeMap::new();
    let mut res_hist: BTreeMap<String, u64> = BTreeMap::new();
    for _ in 0..cases {
        let n = 1 + rng.below(5);
        let anchor = gen_acct(&mut rng);
        let h = HistoryDriver::new(anchor.clone(), n);
        let mut ops = Vec::new();
        let mut results = Vec::new();
        // a remembered read to validate later
        let mut remembered: Vec<(usize, Vec<(usize, usize)>)> = Vec::new();
        let n_ops = 4 + rng.below(36);
        for _ in 0..n_ops {
            let t = rng.below(n);
            let inc = rng.below(4);
            let (name, op, res): (&'static str, String, String) = match rng.below(12) {
                0..=2 => {
                    let amt = 1 + rng.below(60) as u64;
                    let ok = h.record_reward(t, inc, U256::from(amt));
                    ("rec-reward", format!("rec {t} {inc} reward {amt}"), (ok as u8).to_string())
                }
                3 => {
                    let ok = h.record_unchanged(t, inc);
                    ("rec-unchanged", format!("rec {t} {inc} unchanged"), (ok as u8).to_string())
                }
                4 => {
                    let a = gen_acct(&mut rng);
                    let ok = h.record_snapshot(t, inc, a.clone());
                    // a touched account left empty is a deletion (FinalizedAccount::from, EIP-161):
                    // the recorded effect is Snapshot(None)
                    let a = a.filter(|i| !i.is_empty());
                    ("rec-snapshot", format!("rec {t} {inc} snap {}", acct_tokens(&a)), (ok as u8).to_string())
                }
                5 => {
                    let ok = h.record_estimate(t, inc);
                    ("rec-estimate", format!("est {t} {inc}"), (ok as u8).to_string())
                }
                6 => {
                    let ok = h.invalidate(t, inc);
                    ("invalidate", format!("inv {t} {inc}"), (ok as u8).to_string())
                }
                7..=9 => {
                    let reader = rng.below(n + 1);
                    let r = h.resolve_before(reader);
                    let res = match &r {
                        Ok((a, o)) => {
                            remembered.push((reader, o.clone()));
                            format!(
                                "ok {} @{}",
                                acct_tokens(a),
                                o.iter().map(|(t, i)| format!("{t}:{i}")).collect::<Vec<_>>().join(",")
                            )
                        }
                        Err(b) => format!("blk {b}"),
                    };
                    ("resolve", format!("res {reader}"), res)
                }
                _ => {
                    if remembered.is_empty() {
                        let ok = h.record_estimate(t, inc);
                        ("rec-estimate", format!("est {t} {inc}"), (ok as u8).to_string())
                    } else {
                        let (reader, origins) = remembered[rng.below(remembered.len())].clone();
                        let (v, d) = h.validate(reader, &origins);
                        let o = if origins.is_empty() {
                            "-".to_owned()
                        } else {
                            origins.iter().map(|(t, i)| format!("{t}:{i}")).collect::<Vec<_>>().join(",")
                        };
                        (
                            "validate",
                            format!("val {reader} {o}"),
                            format!("{} {}", v as u8, d.map_or("-".to_owned(), |d| d.to_string())),
                        )
                    }
                }
            };
            *op_hist.entry(name).or_default() += 1;
            *res_hist.entry(format!("{name}:{}", res.split(' ').next().unwrap_or(""))).or_default() += 1;
            ops.push(op);
            results.push(res);
        }
        session.push_str(&format!("history {n} {}\n", acct_tokens(&anchor)));
        for op in &ops {
            session.push_str(op);
            session.push('\n');
        }
        session.push_str("end\n");
        all.push((n, anchor, ops, results));
    }
    let mut divergences = Vec::new();
    let mut ok = 0;
    match lean::run_gmodel(&gmodel, &session) {
        Err(e) => divergences.push(J::obj(vec![("detail", J::s(e))])),
        Ok(lines) => {
            for (i, (n, anchor, ops, results)) in all.iter().enumerate() {
                let model = lines.get(i).map(|s| s.as_str()).unwrap_or("error missing");
                match first_diff(ops, results, model) {
                    None => ok += 1,
                    Some((k, msg)) => {
                        if divergences.len() < 5 {
                            divergences.push(J::obj(vec![
                                ("kind", J::s("correspondence")),
                                ("detail", J::s(format!("history case {i}: first difference at op {k}: {msg}"))),
                                ("n", J::n(*n)),
                                ("anchor", J::s(acct_tokens(anchor))),
                                ("ops", J::Arr(ops.iter().take(k + 1).map(|o| J::s(o.clone())).collect())),
                            ]));
                        }
                    }
                }
            }
        }
    }
    let distinct: std::collections::BTreeSet<_> = all.iter().map(|c| c.2.join("|")).collect();
    J::obj(vec![
        ("check", J::s("history-differential")),
        ("seed", J::n(seed as usize)),
        ("cases", J::n(cases as usize)),
        ("conforming", J::n(ok)),
        ("distinct_nontrivial", J::n(distinct.len())),
        ("divergences", J::Arr(divergences)),
        ("op_histogram", J::Obj(op_hist.into_iter().map(|(k, v)| (k.to_owned(), J::n(v as usize))).collect())),
        ("result_histogram", J::Obj(res_hist.into_iter().map(|(k, v)| (k, J::n(v as usize))).collect())),
        (
            "samples",
            J::Arr(all.iter().take(2).map(|c| J::obj(vec![("n", J::n(c.0)), ("ops", J::Arr(c.2.iter().map(|o| J::s(o.clone())).collect())), ("results", J::Arr(c.3.iter().map(|o| J::s(o.clone())).collect()))])).collect()),
        ),
    ])
}

/// Reward tuples: grevm's computed amount vs. stock revm's `reward_beneficiary` vs. the Lean formula.
pub fn cmd_reward(args: &Args) -> J {
    let seed = args.num("seed", 1);
    let cases = args.num("cases", 3000);
    let gmodel = args.str("gmodel", "/verif/lean/.lake/build/bin/gmodel");
    let mut rng = Rng::new(seed ^ 0xFEE5);
    let specs = [SpecId::FRONTIER, SpecId::BERLIN, SpecId::LONDON, SpecId::SHANGHAI, SpecId::CANCUN, SpecId::PRAGUE, SpecId::OSAKA, SpecId::AMSTERDAM];
    let beneficiary = Address::with_last_byte(0xCB);
    let mut session = String::from("reward\n");
    let mut impl_res = Vec::new();
    let mut ops = Vec::new();
    let mut divergences = Vec::new();
    let mut zero = 0usize;
    let mut by_spec: BTreeMap<String, u64> = BTreeMap::new();
    for i in 0..cases {
        let spec = specs[rng.below(specs.len())];
        let basefee = [0u64, 7, 30, 1000][rng.below(4)];
        let type2 = rng.chance(1, 2);
        let gas_price = basefee as u128 + rng.below(50) as u128;
        let prio = if type2 { Some(rng.below(20) as u128) } else { None };
        let used = rng.below(100_000) as u64;
        let reservoir = if spec == SpecId::AMSTERDAM { rng.below(used as usize + 1) as u64 } else { 0 };
        let fee_disabled = rng.chance(1, 12);
        let cfg = CfgEnv::new_with_spec(spec);
        let block = BlockEnv { beneficiary, basefee, ..Default::default() };
        let tx = TxEnv { tx_type: if type2 { 2 } else { 0 }, gas_price, gas_priority_fee: prio, ..Default::default() };
        let gas = Gas::new_spent_with_reservoir(used, reservoir);
        let _ = fee_disabled; // fee-disabled needs the optional_fee_charge feature of revm; not generated
        let mut context = Context::mainnet().with_cfg(cfg).with_block(block).with_tx(tx.clone());
        let amount = ben::reward_amount(&context, &gas);
        // stock revm on a fresh context: the credited amount
        if let Err(e) = post_execution::reward_beneficiary(&mut context, &gas) {
            divergences.push(J::obj(vec![("detail", J::s(format!("revm reward hook failed: {e:?}")))]));
            continue;
        }
        let upstream = context.journaled_state.evm_state().get(&beneficiary).map(|a| a.info.balance);
        if amount != upstream && divergences.len() < 5 {
            divergences.push(J::obj(vec![
                ("kind", J::s("oracle")),
                ("detail", J::s(format!("reward case {i}: grevm from_gas = {amount:?}, revm reward_beneficiary credited {upstream:?}"))),
                ("input", J::s(format!("spec={spec:?} basefee={basefee} type2={type2} gas_price={gas_price} prio={prio:?} used={used} reservoir={reservoir}"))),
            ]));
        }
        *by_spec.entry(format!("{spec:?}")).or_default() += 1;
        let eff = revm::context_interface::Transaction::effective_gas_price(&tx, basefee as u128);
        let london = spec.is_enabled_in(SpecId::LONDON);
        let in_journal = rng.chance(1, 3);
        session.push_str(&format!("0 {} {} {} {} {} {}\n", london as u8, basefee, eff, used, reservoir, in_journal as u8));
        let expect = match amount {
            None => "none".to_owned(),
            Some(a) => {
                if a.is_zero() {
                    zero += 1;
                }
                format!("{} {}", if !a.is_zero() && !in_journal { "defer" } else { "now" }, a)
            }
        };
        ops.push(format!("spec={spec:?} basefee={basefee} eff={eff} used={used} reservoir={reservoir} in_journal={in_journal}"));
        impl_res.push(expect);
    }
    session.push_str("end\n");
    let mut ok = 0usize;
    match lean::run_gmodel(&gmodel, &session) {
        Err(e) => divergences.push(J::obj(vec![("detail", J::s(e))])),
        Ok(lines) => match first_diff(&ops, &impl_res, lines.first().map(|s| s.as_str()).unwrap_or("")) {
            None => ok = impl_res.len(),
            Some((k, msg)) => divergences.push(J::obj(vec![
                ("kind", J::s("correspondence")),
                ("detail", J::s(format!("reward tuple {k}: {msg}"))),
            ])),
        },
    }
    J::obj(vec![
        ("check", J::s("reward-formula (grevm from_gas vs revm reward_beneficiary vs Lean rewardAmount)")),
        ("seed", J::n(seed as usize)),
        ("cases", J::n(cases as usize)),
        ("conforming", J::n(ok)),
        ("distinct_nontrivial", J::n(ops.iter().collect::<std::collections::BTreeSet<_>>().len())),
        ("zero_rewards", J::n(zero)),
        ("by_spec", J::Obj(by_spec.into_iter().map(|(k, v)| (k, J::n(v as usize))).collect())),
        ("divergences", J::Arr(divergences)),
        ("samples", J::Arr(ops.iter().take(2).zip(impl_res.iter()).map(|(o, r)| J::s(format!("{o} => {r}"))).collect())),
    ])
}
