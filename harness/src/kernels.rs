//! Conformance scenarios for the lock-free / lock-based kernels: real threads drive the real
//! `SchedulerContext` and `TxDependency` through scripted calls under the controller; the
//! resulting totally ordered event trace is replayed by the Lean model (`gmodel kernel`).

use crate::ctrl::{Ctrl, Rng, RunReport, Strategy};
use grevm::verif::{rt, sched::{ContextDriver, DependencyDriver, WaitDriver}};
use std::sync::Arc;

pub const NONE: usize = usize::MAX;

#[derive(Clone, Copy, Debug)]
pub enum CtxOp {
    Executed(usize),
    NextValidation(usize),
    Rewind(usize),
    Timestamp,
    Unconfirmed(usize, usize),
    Frontier,
}

impl CtxOp {
    fn code(&self) -> [usize; 3] {
        match *self {
            CtxOp::Executed(i) => [1, i, 0],
            CtxOp::NextValidation(e) => [2, e, 0],
            CtxOp::Rewind(i) => [3, i, 0],
            CtxOp::Timestamp => [4, 0, 0],
            CtxOp::Unconfirmed(i, ts) => [5, i, ts],
            CtxOp::Frontier => [6, 0, 0],
        }
    }
}

pub fn gen_ctx_scripts(rng: &mut Rng, n: usize, threads: usize, ops: usize) -> Vec<Vec<CtxOp>> {
    (0..threads)
        .map(|_| {
            (0..ops)
                .map(|_| match rng.below(10) {
                    0..=2 => CtxOp::Executed(rng.below(n)),
                    3..=5 => CtxOp::NextValidation(rng.below(n + 2)),
                    6..=7 => CtxOp::Rewind(rng.below(n + 1)),
                    8 => CtxOp::Timestamp,
                    _ => CtxOp::Frontier,
                })
                .collect()
        })
        .collect()
}

pub struct CtxFinal {
    pub validation_idx: usize,
    pub frontier: usize,
    pub lts: Vec<usize>,
    pub uts: Vec<usize>,
}

/// Run the scripts on real threads under the controller. Returns the report and final state.
pub fn run_ctx(
    n: usize,
    scripts: &[Vec<CtxOp>],
    strategy: Strategy,
    seed: u64,
) -> (RunReport, CtxFinal) {
    let ctx = ContextDriver::new(n);
    let ctrl = Ctrl::new(strategy, seed, scripts.len());
    ctrl.install();
    std::thread::scope(|scope| {
        for script in scripts {
            let ctx = &ctx;
            scope.spawn(move || {
                let _enrolled = rt::enroll(0);
                for op in script {
                    let c = op.code();
                    rt::pt4("h_call", c[0], c[1], c[2], 0);
                    let ret = match *op {
                        CtxOp::Executed(i) => {
                            ctx.executed(i);
                            0
                        }
                        CtxOp::NextValidation(e) => ctx.next_validation_idx(e).unwrap_or(NONE),
                        CtxOp::Rewind(i) => {
                            ctx.rewind_validation_to(i);
                            0
                        }
                        CtxOp::Timestamp => ctx.logical_timestamp(),
                        CtxOp::Unconfirmed(i, ts) => {
                            ctx.unconfirmed(i, ts);
                            0
                        }
                        CtxOp::Frontier => ctx.execution_frontier(),
                    };
                    rt::pt4("h_ret", c[0], ret, 0, 0);
                }
            });
        }
    });
    let report = ctrl.finish();
    let fin = CtxFinal {
        validation_idx: ctx.validation_idx(),
        frontier: ctx.execution_frontier(),
        lts: (0..n).map(|i| ctx.lower_timestamp(i)).collect(),
        uts: (0..n).map(|i| ctx.unconfirmed_timestamp(i)).collect(),
    };
    (report, fin)
}

#[derive(Clone, Copy, Debug)]
pub enum DepOp {
    Next,
    Remove(usize, bool),
    /// `publish_commit(t+1)` then `commit(t)`
    Commit(usize),
    KeyTx(usize),
    Add(usize, Option<usize>),
}

impl DepOp {
    fn code(&self) -> [usize; 3] {
        match *self {
            DepOp::Next => [1, 0, 0],
            DepOp::Remove(t, p) => [2, t, p as usize],
            DepOp::Commit(t) => [3, t, 0],
            DepOp::KeyTx(t) => [4, t, 0],
            DepOp::Add(t, d) => [5, t, d.unwrap_or(NONE)],
        }
    }
}

pub fn gen_dep_scripts(rng: &mut Rng, n: usize, threads: usize, ops: usize) -> Vec<Vec<DepOp>> {
    // Commits must be issued by one thread in increasing order (there is one commit thread).
    let mut next_commit = 0usize;
    (0..threads)
        .map(|th| {
            (0..ops)
                .map(|_| match rng.below(10) {
                    0..=3 => DepOp::Next,
                    4..=5 => DepOp::Remove(rng.below(n), rng.chance(1, 2)),
                    6 if th == 0 && next_commit < n => {
                        next_commit += 1;
                        DepOp::Commit(next_commit - 1)
                    }
                    6 | 7 => DepOp::KeyTx(rng.below(n)),
                    _ => {
                        let t = rng.below(n);
                        let d = if t > 0 && rng.chance(3, 4) { Some(rng.below(t)) } else { None };
                        DepOp::Add(t, d)
                    }
                })
                .collect()
        })
        .collect()
}

#[allow(clippy::type_complexity)]
pub fn run_dep(
    n: usize,
    scripts: &[Vec<DepOp>],
    strategy: Strategy,
    seed: u64,
) -> (RunReport, (Vec<(bool, Option<usize>)>, Vec<Vec<usize>>, usize)) {
    let dep = DependencyDriver::new(n);
    let ctrl = Ctrl::new(strategy, seed, scripts.len());
    ctrl.install();
    std::thread::scope(|scope| {
        for script in scripts {
            let dep = &dep;
            scope.spawn(move || {
                let _enrolled = rt::enroll(0);
                for op in script {
                    let c = op.code();
                    rt::pt4("h_call", c[0], c[1], c[2], 0);
                    let ret = match *op {
                        DepOp::Next => dep.next().unwrap_or(NONE),
                        DepOp::Remove(t, p) => dep.remove(t, p).unwrap_or(NONE),
                        DepOp::Commit(t) => {
                            dep.publish_and_commit(t);
                            0
                        }
                        DepOp::KeyTx(t) => {
                            dep.key_tx(t);
                            0
                        }
                        DepOp::Add(t, d) => {
                            dep.add(t, d);
                            0
                        }
                    };
                    rt::pt4("h_ret", c[0], ret, 0, 0);
                }
            });
        }
    });
    let report = ctrl.finish();
    (report, dep.snapshot())
}

/// One producer step of the wait/notify kernel: optionally write the condition, then notify.
#[derive(Clone, Copy, Debug)]
pub enum WaitOp {
    SetNotify(bool),
    Notify,
}

/// Producer scripts. Every producer ends by making the condition true and notifying, so the
/// waiter must terminate (that it does, without a timeout, is the property).
pub fn gen_wait_scripts(rng: &mut Rng, producers: usize, ops: usize) -> Vec<Vec<WaitOp>> {
    (0..producers)
        .map(|_| {
            let mut v: Vec<WaitOp> = (0..ops)
                .map(|_| match rng.below(5) {
                    0 => WaitOp::Notify,
                    1 | 2 => WaitOp::SetNotify(false),
                    _ => WaitOp::SetNotify(true),
                })
                .collect();
            v.push(WaitOp::SetNotify(true));
            v
        })
        .collect()
}

/// Thread 0 is the waiter (`register; loop { wait_while(!ready) }` until the predicate was seen
/// false), the others are producers. Returns the report and whether the waiter finished.
pub fn run_wait(scripts: &[Vec<WaitOp>], waiter_delay: usize, strategy: Strategy, seed: u64) -> (RunReport, bool) {
    let w = WaitDriver::new();
    let done = std::sync::atomic::AtomicBool::new(false);
    let ctrl = Ctrl::new(strategy, seed, scripts.len() + 1);
    ctrl.install();
    std::thread::scope(|scope| {
        {
            let (w, done) = (&w, &done);
            scope.spawn(move || {
                let _enrolled = rt::enroll(0);
                for _ in 0..waiter_delay {
                    rt::pt4("h_call", 0, 0, 0, 0);
                }
                w.register_current_thread();
                loop {
                    let blocked = w.wait_while_not_ready(std::time::Duration::from_secs(60), |b| {
                        rt::obs4("w_cond", b as usize, 0, 0, 0);
                    });
                    if !blocked {
                        break;
                    }
                }
                rt::obs4("w_done", 0, 0, 0, 0);
                done.store(true, std::sync::atomic::Ordering::SeqCst);
            });
        }
        for script in scripts {
            let w = &w;
            scope.spawn(move || {
                let _enrolled = rt::enroll(0);
                for op in script {
                    if let WaitOp::SetNotify(v) = *op {
                        rt::pt4("p_set", v as usize, 0, 0, 0);
                        w.set_ready(v);
                    }
                    w.notify();
                }
            });
        }
    });
    let report = ctrl.finish();
    (report, done.load(std::sync::atomic::Ordering::SeqCst))
}

pub fn trace_lines(report: &RunReport) -> Vec<String> {
    report
        .trace
        .iter()
        .map(|e| {
            let f = |v: usize| if v == NONE { "-".to_owned() } else { v.to_string() };
            format!(
                "ev {} {} {} {} {} {}",
                e.tid,
                e.site,
                f(e.args[0]),
                f(e.args[1]),
                f(e.args[2]),
                f(e.args[3])
            )
        })
        .collect()
}

pub fn opt(v: Option<usize>) -> String {
    v.map_or("-".to_owned(), |v| v.to_string())
}

pub fn _unused(_: Arc<()>) {}
