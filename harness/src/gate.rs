//! C03 component differential: the nonce gate of `OrderedCommitter::commit` on the real committer
//! vs the Lean `nonceGate` / `nonceInvalid`, and vs stock revm's own validation of the same
//! transaction against the same state.

use crate::{Args, ctrl::Rng, json::J, lean, world::MemDb};
use grevm::{ParallelState, verif::sched::{CommitProbe, commit_once}};
use revm::{Context, DatabaseRef, ExecuteEvm, MainBuilder, MainContext};
use revm_context::{
    BlockEnv, CfgEnv, TxEnv,
    result::{EVMError, ExecutionResult, InvalidTransaction, Output, ResultAndState, SuccessReason},
};
use revm_database::StateBuilder;
use revm_primitives::{Address, Bytes, TxKind, U256, hardfork::SpecId};
use revm_state::{Account, EvmState};
use std::collections::BTreeMap;

fn nonce_of(rng: &mut Rng) -> u64 {
    match rng.below(8) {
        0 => u64::MAX,
        1 => u64::MAX - 1,
        2 => 0,
        n => n as u64 - 2,
    }
}

pub fn cmd_commit_gate(args: &Args) -> J {
    let seed = args.num("seed", 1);
    let cases = args.num("cases", 3000);
    let gmodel = args.str("gmodel", "/verif/lean/.lake/build/bin/gmodel");
    let mut rng = Rng::new(seed ^ 0x9a7e);
    let sender = Address::with_last_byte(0x51);
    let recipient = Address::with_last_byte(0x52);
    let beneficiary = Address::with_last_byte(0xCB);
    let mut session = String::from("gate\n");
    let mut expect = Vec::new();
    let mut inputs = Vec::new();
    let mut hist: BTreeMap<String, u64> = BTreeMap::new();
    let mut divergences = Vec::new();
    for case in 0..cases {
        let disable = rng.chance(1, 5);
        let tx_nonce = nonce_of(&mut rng);
        let state_nonce = if rng.chance(1, 2) { tx_nonce } else { nonce_of(&mut rng) };
        let mut db = MemDb::default();
        db.insert_eoa(sender, U256::from(10u64).pow(U256::from(18u64)), state_nonce);
        db.insert_eoa(beneficiary, U256::from(1u64), 0);
        let tx = TxEnv {
            caller: sender,
            kind: TxKind::Call(recipient),
            value: U256::from(1u64),
            gas_limit: 30_000,
            gas_price: 0,
            nonce: tx_nonce,
            chain_id: Some(1),
            ..Default::default()
        };
        // the real committer on a state whose sender has `state_nonce`
        let mut state = ParallelState::new(db.clone(), true, false);
        let info = state.basic_ref(sender).unwrap().unwrap();
        let mut account = Account::from(info.clone());
        account.info.nonce = info.nonce.saturating_add(1);
        account.mark_touch();
        let mut changes = EvmState::default();
        changes.insert(sender, account);
        let ras = ResultAndState {
            result: ExecutionResult::Success {
                reason: SuccessReason::Stop,
                gas: Default::default(),
                logs: vec![],
                output: Output::Call(Bytes::new()),
            },
            state: changes,
        };
        let real = match commit_once(&mut state, beneficiary, disable, 0, &tx, ras, None) {
            CommitProbe::Committed(..) => "committed",
            CommitProbe::Fallback => "fallback",
            CommitProbe::Error(_) => "error",
        };
        // stock revm's validation of the same transaction on the same state
        let mut cfg = CfgEnv::new_with_spec(SpecId::SHANGHAI);
        cfg.disable_nonce_check = disable;
        let sdb = StateBuilder::new().with_database_ref(&db).build();
        let mut evm = Context::mainnet().with_db(sdb).with_cfg(cfg).with_block(BlockEnv::default()).build_mainnet();
        let revm_reason: Option<&'static str> = match evm.transact(tx.clone()) {
            Ok(_) => None,
            Err(EVMError::Transaction(InvalidTransaction::NonceTooHigh { .. })) => Some("1"),
            Err(EVMError::Transaction(InvalidTransaction::NonceTooLow { .. })) => Some("2"),
            Err(EVMError::Transaction(InvalidTransaction::NonceOverflowInTransaction)) => Some("0"),
            Err(_) => Some("other"),
        };
        let in_order = revm_reason;
        // A transaction with nonce u64::MAX never has a speculative result (revm rejects it before
        // execution in every configuration), so the gate is never asked about it.
        let reachable = tx_nonce != u64::MAX;
        let gate_agrees = !reachable || (real == "committed") == in_order.is_none();
        if !gate_agrees && divergences.len() < 5 {
            divergences.push(J::obj(vec![
                ("kind", J::s("oracle")),
                ("detail", J::s(format!("commit gate case {case}: disable_nonce_check={disable} tx nonce {tx_nonce} state nonce {state_nonce}: committer says {real}, in-order validation says {in_order:?}"))),
            ]));
        }
        *hist.entry(format!("{real}/{}", in_order.unwrap_or("valid"))).or_default() += 1;
        session.push_str(&format!("{} {tx_nonce} {state_nonce}\n", disable as u8));
        expect.push(format!("{real} {}", in_order.unwrap_or("-")));
        inputs.push(format!("disable={disable} tx_nonce={tx_nonce} state_nonce={state_nonce}"));
    }
    session.push_str("end\n");
    let mut ok = 0usize;
    match lean::run_gmodel(&gmodel, &session) {
        Err(e) => divergences.push(J::obj(vec![("kind", J::s("correspondence")), ("detail", J::s(e))])),
        Ok(lines) => {
            let model: Vec<&str> = lines.first().map(|l| l.split(';').collect()).unwrap_or_default();
            for (i, e) in expect.iter().enumerate() {
                let m = model.get(i).copied().unwrap_or("<missing>");
                if m == e {
                    ok += 1;
                } else if divergences.len() < 8 {
                    divergences.push(J::obj(vec![
                        ("kind", J::s("correspondence")),
                        ("detail", J::s(format!("commit gate case {i} ({}): implementation/in-order `{e}`, model nonceGate/nonceInvalid `{m}`", inputs[i]))),
                    ]));
                }
            }
        }
    }
    J::obj(vec![
        ("check", J::s("commit-gate (OrderedCommitter::commit vs revm validation vs Lean nonceGate)")),
        ("seed", J::n(seed as usize)),
        ("cases", J::n(cases as usize)),
        ("conforming", J::n(ok)),
        ("distinct_nontrivial", J::n(inputs.iter().collect::<std::collections::BTreeSet<_>>().len())),
        ("histogram", J::Obj(hist.into_iter().map(|(k, v)| (k, J::n(v as usize))).collect())),
        ("divergences", J::Arr(divergences)),
        ("samples", J::Arr(inputs.iter().take(3).zip(expect.iter()).map(|(a, b)| J::s(format!("{a} => {b}"))).collect())),
    ])
}
