//! C13 component differential: the real `ReservePlanner` and journal scan vs the Lean model.
//!
//! Planner: random blocks (few senders, costs from tiny to overflowing `max_balance_spending`),
//! queried for random `(txid, address)` pairs in random order with repetitions (the lazily built
//! index and per-account schedules must not depend on the order).
//! Scan: random *valid* journals (forward-simulated balances: transfers, self-destructs with
//! their beneficiary, balance changes such as reimbursements, unrelated entries; entries before
//! the checkpoint; root-value transfer first or absent; a later look-alike of the root transfer)
//! over accounts some of which carry an EIP-7702 designator; the real `delegated_debits_since`
//! must return what `Model/Reserve.lean` computes.

use crate::{Args, ctrl::Rng, json::J, lean};
use grevm::verif::drivers::{PlannerDriver, delegated_debits};
use revm::context::JournalTr;
use revm_context::{Journal, JournalEntry, TxEnv};
use revm::context_interface::journaled_state::entry::SelfdestructionRevertStatus;
use revm_database::EmptyDB;
use revm_primitives::{Address, TxKind, U256};
use revm_state::{Account, Bytecode};
use std::{collections::BTreeMap, sync::Arc};

fn addr(i: usize) -> Address {
    Address::with_last_byte(0xD0 + i as u8)
}

fn planner_case(rng: &mut Rng, session: &mut String, expect: &mut Vec<String>, queries: &mut Vec<String>, hist: &mut BTreeMap<&'static str, u64>) {
    let n = 1 + rng.below(12);
    let n_addr = 1 + rng.below(4);
    let mut txs = Vec::new();
    for _ in 0..n {
        let caller = rng.below(n_addr);
        // cost = gas_limit * gas_price + value; sometimes overflowing u256, sometimes near MAX
        let (gas_limit, gas_price, value): (u64, u128, U256) = match rng.below(8) {
            0 => (u64::MAX, u128::MAX, U256::MAX),
            1 => (1, 0, U256::MAX - U256::from(rng.below(5))),
            2 => (0, 0, U256::ZERO),
            _ => (21_000 + rng.below(5) as u64, rng.below(50) as u128, U256::from(rng.below(1000))),
        };
        let tx = TxEnv { caller: addr(caller), kind: TxKind::Call(Address::ZERO), gas_limit, gas_price, value, ..Default::default() };
        let cost = revm::context_interface::Transaction::max_balance_spending(&tx).ok();
        match cost {
            None => *hist.entry("tx-cost-overflow").or_default() += 1,
            Some(c) if c > U256::MAX / U256::from(2) => *hist.entry("tx-cost-huge").or_default() += 1,
            _ => *hist.entry("tx-cost-normal").or_default() += 1,
        }
        session.push_str(&format!("tx {caller} {}\n", cost.map_or("-".to_owned(), |c| c.to_string())));
        txs.push(tx);
    }
    let planner = PlannerDriver::new(Arc::new(txs));
    for _ in 0..(3 + rng.below(12)) {
        let txid = rng.below(n);
        // mostly senders of the block, sometimes an address that sends nothing
        let a = rng.below(n_addr + 1);
        let r = planner.required_after(txid, addr(a));
        let q = format!("q {txid} {a}");
        session.push_str(&q);
        session.push('\n');
        queries.push(q);
        expect.push(r.to_string());
        if r.is_zero() {
            *hist.entry("required-zero").or_default() += 1;
        } else if r == U256::MAX {
            *hist.entry("required-saturated").or_default() += 1;
        } else {
            *hist.entry("required-positive").or_default() += 1;
        }
    }
}

fn scan_case(rng: &mut Rng, session: &mut String, expect: &mut Vec<String>, queries: &mut Vec<String>, hist: &mut BTreeMap<&'static str, u64>) {
    let n_addr = 3 + rng.below(3);
    let delegated: Vec<bool> = (0..n_addr).map(|_| rng.chance(1, 2)).collect();
    let mut bal: Vec<u64> = (0..n_addr).map(|_| rng.below(200) as u64).collect();
    let mut journal = Journal::<EmptyDB>::new(EmptyDB::default());
    for a in 0..n_addr {
        let mut account = Account::default();
        account.info.balance = U256::from(bal[a]);
        if delegated[a] {
            account.info.code = Some(Bytecode::new_eip7702(Address::with_last_byte(0x77)));
        } else if rng.chance(1, 3) {
            account.info.code = Some(Bytecode::new_raw(vec![0x00].into()));
        }
        journal.inner.state.insert(addr(a), account);
    }
    let transfer = |bal: &mut Vec<u64>, src: usize, dst: usize, v: u64| -> JournalEntry {
        if src != dst {
            bal[src] -= v;
            bal[dst] += v;
        }
        JournalEntry::BalanceTransfer { from: addr(src), to: addr(dst), balance: U256::from(v) }
    };
    // entries before the checkpoint (fee deduction, authorisations...): must be ignored
    let mut pre = Vec::new();
    for _ in 0..rng.below(3) {
        let (s, d) = (rng.below(n_addr), rng.below(n_addr));
        let v = rng.below(bal[s] as usize + 1) as u64;
        pre.push(transfer(&mut bal, s, d, v));
    }
    journal.inner.journal.extend(pre);
    let checkpoint = journal.checkpoint();
    // root transaction
    let root_caller = rng.below(n_addr);
    let root_target = if rng.chance(1, 5) { None } else { Some(rng.below(n_addr)) };
    let root_value = if rng.chance(1, 3) { 0 } else { rng.below(bal[root_caller] as usize + 1) as u64 };
    let mut entries: Vec<JournalEntry> = Vec::new();
    let mut lines: Vec<String> = Vec::new();
    let push = |entries: &mut Vec<JournalEntry>, lines: &mut Vec<String>, e: JournalEntry| {
        lines.push(match &e {
            JournalEntry::BalanceTransfer { from, to, balance } => format!("T {} {} {}", from.0[19] - 0xD0, to.0[19] - 0xD0, balance),
            JournalEntry::AccountDestroyed { address, target, had_balance, .. } => format!("D {} {} {}", address.0[19] - 0xD0, target.0[19] - 0xD0, had_balance),
            JournalEntry::BalanceChange { address, old_balance } => format!("C {} {}", address.0[19] - 0xD0, old_balance),
            _ => "O".to_owned(),
        });
        entries.push(e);
    };
    // some warm-up entry, then (usually) the root transfer as revm journals it
    if rng.chance(1, 2) {
        push(&mut entries, &mut lines, JournalEntry::AccountTouched { address: addr(root_caller) });
    }
    if root_value > 0 && rng.chance(5, 6) {
        let dst = root_target.unwrap_or(n_addr - 1);
        let e = transfer(&mut bal, root_caller, dst, root_value);
        push(&mut entries, &mut lines, e);
        *hist.entry("root-transfer-present").or_default() += 1;
    }
    for _ in 0..rng.below(8) {
        match rng.below(10) {
            0..=4 => {
                let (s, d) = (rng.below(n_addr), rng.below(n_addr));
                // sometimes exactly the root amount from the root caller: a look-alike
                let v = if rng.chance(1, 4) && root_value <= bal[s] { root_value } else { rng.below(bal[s] as usize + 1) as u64 };
                let (s, d) = if rng.chance(1, 5) { (root_caller, root_target.unwrap_or(d)) } else { (s, d) };
                let v = v.min(bal[s]);
                let e = transfer(&mut bal, s, d, v);
                push(&mut entries, &mut lines, e);
                *hist.entry("transfer").or_default() += 1;
            }
            5 | 6 => {
                let (a, t) = (rng.below(n_addr), rng.below(n_addr));
                let had = bal[a];
                if a != t {
                    bal[t] += had;
                }
                bal[a] = 0;
                // (self-destruct to self burns)
                push(&mut entries, &mut lines, JournalEntry::AccountDestroyed {
                    address: addr(a),
                    target: addr(t),
                    destroyed_status: SelfdestructionRevertStatus::GloballySelfdestroyed,
                    had_balance: U256::from(had),
                });
                *hist.entry("selfdestruct").or_default() += 1;
            }
            7 => {
                let a = rng.below(n_addr);
                let old = bal[a];
                bal[a] = old + rng.below(30) as u64; // reimbursement / balance_incr
                push(&mut entries, &mut lines, JournalEntry::BalanceChange { address: addr(a), old_balance: U256::from(old) });
                *hist.entry("balance-change").or_default() += 1;
            }
            _ => {
                push(&mut entries, &mut lines, JournalEntry::NonceBump { address: addr(rng.below(n_addr)) });
            }
        }
    }
    journal.inner.journal.extend(entries);
    for a in 0..n_addr {
        journal.inner.state.get_mut(&addr(a)).unwrap().info.balance = U256::from(bal[a]);
    }
    let tx = TxEnv {
        caller: addr(root_caller),
        kind: root_target.map_or(TxKind::Create, |t| TxKind::Call(addr(t))),
        value: U256::from(root_value),
        ..Default::default()
    };
    let real = delegated_debits(&journal, checkpoint, &tx);
    let q = format!(
        "scan {root_caller} {root_value} {} ; delegated {} ; final {} ; {}",
        root_target.map_or("-".to_owned(), |t| t.to_string()),
        (0..n_addr).filter(|a| delegated[*a]).map(|a| a.to_string()).collect::<Vec<_>>().join(" "),
        (0..n_addr).map(|a| format!("{a}:{}", bal[a])).collect::<Vec<_>>().join(" "),
        if lines.is_empty() { "O".to_owned() } else { lines.join(" , ") }
    );
    session.push_str(&q);
    session.push('\n');
    queries.push(q);
    *hist.entry(if real.is_empty() { "scan-no-candidate" } else { "scan-candidates" }).or_default() += 1;
    expect.push(real.iter().map(|(a, b, f)| format!("{}:{b}:{f}", a.0[19] - 0xD0)).collect::<Vec<_>>().join(" "));
}

pub fn cmd_reserve(args: &Args) -> J {
    let seed = args.num("seed", 1);
    let cases = args.num("cases", 1000);
    let gmodel = args.str("gmodel", "/verif/lean/.lake/build/bin/gmodel");
    let mut rng = Rng::new(seed ^ 0x2e5e);
    let mut session = String::new();
    let mut all: Vec<(Vec<String>, Vec<String>)> = Vec::new();
    let mut hist = BTreeMap::new();
    for case in 0..cases {
        let mut expect = Vec::new();
        let mut queries = Vec::new();
        session.push_str("reserve\n");
        if case % 2 == 0 {
            planner_case(&mut rng, &mut session, &mut expect, &mut queries, &mut hist);
        } else {
            for _ in 0..4 {
                scan_case(&mut rng, &mut session, &mut expect, &mut queries, &mut hist);
            }
        }
        session.push_str("end\n");
        all.push((queries, expect));
    }
    let mut divergences = Vec::new();
    let mut ok = 0usize;
    let mut compared = 0usize;
    match lean::run_gmodel(&gmodel, &session) {
        Err(e) => divergences.push(J::obj(vec![("kind", J::s("correspondence")), ("detail", J::s(e))])),
        Ok(lines) => {
            for (i, (queries, expect)) in all.iter().enumerate() {
                let model: Vec<&str> = lines.get(i).map(|l| l.split(';').collect()).unwrap_or_default();
                let mut bad = None;
                for (k, q) in queries.iter().enumerate() {
                    compared += 1;
                    let m = model.get(k).copied().unwrap_or("<missing>");
                    if m != expect[k] {
                        bad = Some(format!("`{q}`: implementation `{}`, model `{m}`", expect[k]));
                        break;
                    }
                }
                match bad {
                    None => ok += 1,
                    Some(msg) => {
                        if divergences.len() < 5 {
                            divergences.push(J::obj(vec![
                                ("kind", J::s("correspondence")),
                                ("detail", J::s(format!("reserve case {i}: {msg}"))),
                            ]));
                        }
                    }
                }
            }
        }
    }
    let distinct: std::collections::BTreeSet<String> = all.iter().map(|c| c.0.join("|")).collect();
    J::obj(vec![
        ("check", J::s("reserve-differential (ReservePlanner + delegated_debits_since vs Lean Model/Reserve)")),
        ("seed", J::n(seed as usize)),
        ("cases", J::n(cases as usize)),
        ("conforming", J::n(ok)),
        ("answers_compared", J::n(compared)),
        ("distinct_nontrivial", J::n(distinct.len())),
        ("histogram", J::Obj(hist.into_iter().map(|(k, v)| (k.to_owned(), J::n(v as usize))).collect())),
        ("divergences", J::Arr(divergences)),
        ("samples", J::Arr(all.iter().take(2).map(|c| J::obj(vec![("queries", J::Arr(c.0.iter().take(6).map(|q| J::s(q.clone())).collect())), ("answers", J::Arr(c.1.iter().take(6).map(|q| J::s(q.clone())).collect()))])).collect())),
    ])
}
