//! Block generators: a typed mini-language of scenarios built from the repo's own transaction
//! and account types. Every random choice derives from the caller's `Rng`.

use crate::{
    ctrl::Rng,
    evmasm::{self as asm, CallKind, Expr, Stmt, add, addr, c, sload},
    world::{Block, MemDb},
};
use grevm::DelegatedSafetyConfig;
use revm_context::{
    BlockEnv, TxEnv,
    either::Either,
    transaction::{Authorization, RecoveredAuthority, RecoveredAuthorization},
};
use revm_primitives::{Address, Bytes, TxKind, U256, alloy_primitives::U160, hardfork::SpecId};
use std::collections::BTreeMap;

pub const ETHER: u128 = 1_000_000_000_000_000_000;

pub fn eoa(i: usize) -> Address {
    Address::from(U160::from(0x1000 + i))
}
pub fn contract(i: usize) -> Address {
    Address::from(U160::from(0x2000 + i))
}
pub fn coinbase() -> Address {
    Address::from(U160::from(0xC0B0))
}

pub const MODERN_SPECS: &[SpecId] = &[
    SpecId::ISTANBUL,
    SpecId::BERLIN,
    SpecId::LONDON,
    SpecId::SHANGHAI,
    SpecId::CANCUN,
    SpecId::PRAGUE,
    SpecId::OSAKA,
];
pub const ALL_SPECS: &[SpecId] = &[
    SpecId::FRONTIER,
    SpecId::HOMESTEAD,
    SpecId::TANGERINE,
    SpecId::SPURIOUS_DRAGON,
    SpecId::BYZANTIUM,
    SpecId::PETERSBURG,
    SpecId::ISTANBUL,
    SpecId::BERLIN,
    SpecId::LONDON,
    SpecId::MERGE,
    SpecId::SHANGHAI,
    SpecId::CANCUN,
    SpecId::PRAGUE,
    SpecId::OSAKA,
];

pub struct Builder {
    pub spec: SpecId,
    pub db: MemDb,
    pub env: BlockEnv,
    pub txs: Vec<TxEnv>,
    pub desc: Vec<String>,
    pub nonces: BTreeMap<Address, u64>,
    pub basefee: u64,
    pub disable_nonce_check: bool,
    pub precompiles: Vec<(Address, grevm::DynParallelPrecompile)>,
    pub safety: DelegatedSafetyConfig,
}

impl Builder {
    pub fn new(rng: &mut Rng, spec: SpecId, n_eoas: usize) -> Self {
        let mut db = MemDb::default();
        let mut nonces = BTreeMap::new();
        for i in 0..n_eoas {
            let nonce = rng.below(3) as u64;
            db.insert_eoa(eoa(i), U256::from(ETHER), nonce);
            nonces.insert(eoa(i), nonce);
        }
        let london = spec.is_enabled_in(SpecId::LONDON);
        let basefee = if london { [0u64, 7, 1_000][rng.below(3)] } else { 0 };
        let mut env = BlockEnv { beneficiary: coinbase(), basefee, ..Default::default() };
        env.gas_limit = 30_000_000;
        env.number = U256::from(100u64);
        if spec.is_enabled_in(SpecId::MERGE) {
            env.prevrandao = Some(Default::default());
            env.difficulty = U256::ZERO;
        }
        Self {
            spec,
            db,
            env,
            txs: vec![],
            desc: vec![],
            nonces,
            basefee,
            disable_nonce_check: false,
            precompiles: vec![],
            safety: DelegatedSafetyConfig::disabled(),
        }
    }

    /// Choose how the beneficiary exists before the block.
    pub fn setup_coinbase(&mut self, rng: &mut Rng) -> &'static str {
        match rng.below(6) {
            5 => {
                // exists but is empty (e.g. a genesis allocation with balance 0): a zero reward
                // is still a touch, and since EIP-161 that touch deletes the account
                self.db.insert_eoa(coinbase(), U256::ZERO, 0);
                self.nonces.insert(coinbase(), 0);
                "empty-existing"
            }
            0 => "absent",
            1 => {
                self.db.insert_eoa(coinbase(), U256::from(12345u64), 0);
                self.nonces.insert(coinbase(), 0);
                "eoa"
            }
            2 => {
                self.db.insert_eoa(coinbase(), U256::MAX - U256::from(50_000u64), 3);
                self.nonces.insert(coinbase(), 3);
                "near-overflow"
            }
            3 => {
                // contract with storage that counts calls
                let code = asm::assemble(&[Stmt::Sstore(c(0), add(sload(0), c(1)))]);
                self.db.insert_contract(coinbase(), code, U256::from(5u64), &[(0, 10)]);
                "contract"
            }
            _ => {
                self.db.insert_eoa(coinbase(), U256::from(ETHER), 1);
                self.nonces.insert(coinbase(), 1);
                "funded-sender"
            }
        }
    }

    fn fee(&mut self, rng: &mut Rng, tx: &mut TxEnv) {
        let london = self.spec.is_enabled_in(SpecId::LONDON);
        let base = self.basefee as u128;
        if london && rng.chance(1, 2) {
            tx.tx_type = 2;
            let tip = [0u128, 1, 3][rng.below(3)];
            tx.gas_priority_fee = Some(tip);
            tx.gas_price = base + [0u128, tip, tip + 5][rng.below(3)];
        } else {
            tx.tx_type = 0;
            tx.gas_price = base + [0u128, 1, 2, 10][rng.below(4)];
        }
    }

    /// Append a valid transaction from `from` (nonce tracked).
    pub fn tx(
        &mut self,
        rng: &mut Rng,
        from: Address,
        kind: TxKind,
        value: U256,
        data: Vec<u8>,
        gas_limit: u64,
        desc: String,
    ) -> usize {
        let nonce = *self.nonces.get(&from).unwrap_or(&0);
        let mut tx = TxEnv {
            caller: from,
            kind,
            value,
            data: Bytes::from(data),
            gas_limit,
            nonce,
            chain_id: Some(1),
            ..TxEnv::default()
        };
        self.fee(rng, &mut tx);
        self.nonces.insert(from, nonce.saturating_add(1));
        self.txs.push(tx);
        self.desc.push(desc);
        self.txs.len() - 1
    }

    pub fn call(&mut self, rng: &mut Rng, from: Address, to: Address, words: &[u64], desc: &str) -> usize {
        let mut data = Vec::new();
        for w in words {
            data.extend_from_slice(&U256::from(*w).to_be_bytes::<32>());
        }
        self.tx(rng, from, TxKind::Call(to), U256::ZERO, data, 400_000, format!("{desc} {words:?}"))
    }

    pub fn transfer(&mut self, rng: &mut Rng, from: Address, to: Address, value: u128) -> usize {
        self.tx(rng, from, TxKind::Call(to), U256::from(value), vec![], 60_000, format!("transfer {value} {from:#x}->{to:#x}"))
    }

    pub fn finish(self) -> Block {
        Block {
            spec: self.spec,
            disable_nonce_check: self.disable_nonce_check,
            env: self.env,
            db: self.db,
            txs: self.txs,
            precompiles: self.precompiles,
            desc: self.desc,
            safety: self.safety,
        }
    }
}

fn pick<T: Copy>(rng: &mut Rng, xs: &[T]) -> T {
    xs[rng.below(xs.len())]
}

/// The data-dependent "mixer": reads a slot chosen by calldata, branches on the parity of the
/// value and writes a slot that depends on the value read.
pub fn mixer_code(other: Option<Address>) -> Vec<u8> {
    let a = Expr::Mod(Box::new(Expr::Cd(0)), Box::new(c(4)));
    let x = Expr::Sload(Box::new(a.clone()));
    let even = Expr::IsZero(Box::new(Expr::Mod(Box::new(x.clone()), Box::new(c(2)))));
    let mut odd_branch = vec![Stmt::Sstore(Expr::Mod(Box::new(x.clone()), Box::new(c(4))), add(x.clone(), c(1)))];
    if let Some(o) = other {
        odd_branch.push(Stmt::Call {
            kind: CallKind::Call,
            to: addr(o),
            value: c(0),
            arg: Some(x.clone()),
            result_slot: Some(7),
            gas: None,
        });
    }
    asm::assemble(&[Stmt::If(
        even,
        vec![Stmt::Sstore(
            Expr::Mod(Box::new(add(a.clone(), c(1))), Box::new(c(4))),
            add(x.clone(), Expr::Cd(1)),
        )],
        odd_branch,
    )])
}

/// The "mover": reads a pointer slot, writes a slot whose LOCATION depends on the pointer value and
/// bumps the pointer, so that re-executions drop one write location and add another.
pub fn mover_code() -> Vec<u8> {
    let p = Expr::Mod(Box::new(Expr::Cd(0)), Box::new(c(2)));
    let x = Expr::Sload(Box::new(p.clone()));
    asm::assemble(&[
        Stmt::Sstore(add(c(16), Expr::Mod(Box::new(x.clone()), Box::new(c(3)))), add(x.clone(), Expr::Cd(1))),
        Stmt::Sstore(p, add(x, c(1))),
    ])
}

/// Family 1: transfers and data-dependent storage on few accounts (conflict heavy).
pub fn gen_mixed(rng: &mut Rng, spec: SpecId, n_txs: usize) -> Block {
    let n_eoas = 2 + rng.below(4);
    let mut b = Builder::new(rng, spec, n_eoas);
    let cb = b.setup_coinbase(rng);
    b.db.insert_contract(contract(1), mixer_code(None), U256::ZERO, &[(0, 2), (1, 3)]);
    b.db.insert_contract(contract(0), mixer_code(Some(contract(1))), U256::from(9u64), &[(0, 1), (2, 4)]);
    b.db.insert_contract(contract(3), mover_code(), U256::ZERO, &[(0, 1), (1, 2)]);
    // reads the beneficiary balance and stores it
    b.db.insert_contract(
        contract(2),
        asm::assemble(&[
            Stmt::Sstore(c(0), Expr::Balance(Box::new(Expr::Coinbase))),
            Stmt::Sstore(c(1), add(sload(1), c(1))),
            // BLOCKHASH goes through the block-hash cache of the committed state
            Stmt::Sstore(c(2), Expr::BlockHash(Box::new(Expr::Sub(Box::new(Expr::Number), Box::new(add(sload(1), c(1))))))),
        ]),
        U256::ZERO,
        &[],
    );
    for _ in 0..n_txs {
        let from = eoa(rng.below(n_eoas));
        match rng.below(10) {
            0..=2 => {
                let to = match rng.below(4) {
                    0 => coinbase(),
                    1 => contract(rng.below(3)),
                    _ => eoa(rng.below(n_eoas + 1)),
                };
                let v = [0u128, 1, 1000, ETHER / 3][rng.below(4)];
                b.transfer(rng, from, to, v);
            }
            3..=4 => {
                let words = [rng.below(6) as u64, rng.below(5) as u64];
                let to = contract(rng.below(2));
                b.call(rng, from, to, &words, "mixer");
            }
            5..=6 => {
                let words = [rng.below(2) as u64, rng.below(5) as u64];
                b.call(rng, from, contract(3), &words, "mover");
            }
            7 => {
                b.call(rng, from, contract(2), &[], "read-coinbase-balance");
            }
            8 if cb == "funded-sender" || cb == "eoa" => {
                // the beneficiary itself sends a transaction
                let to = eoa(rng.below(n_eoas));
                let v = if cb == "eoa" { 1 } else { 1000 };
                b.transfer(rng, coinbase(), to, v);
            }
            _ => {
                b.call(rng, from, coinbase(), &[], "call-coinbase");
            }
        }
    }
    b.finish()
}

/// Family 2: self-destruct, EIP-161 deletion, re-creation, probes that stop touching the victim.
pub fn gen_lifecycle(rng: &mut Rng, spec: SpecId, n_txs: usize) -> Block {
    let n_eoas = 2 + rng.below(3);
    let mut b = Builder::new(rng, spec, n_eoas);
    // every other block pays its fees to an account that is destroyed and re-created in the
    // block: the victim (existing, with storage) or the CREATE2 child (absent before the block).
    // The fee recipient's account is versioned by the beneficiary history, its slots and storage
    // reset markers by the multi-version memory like everybody else's.
    let recipient = [0, 0, 1, 1, 2, 2, 2, 2][rng.below(8)];
    if recipient >= 2 {
        b.setup_coinbase(rng);
    }
    let v = contract(10);
    let r = contract(11); // receiver of self-destructed funds (absent before the block)
    let victim = asm::assemble(&[Stmt::If(
        Expr::CdSize,
        vec![Stmt::SelfDestruct(addr(r))],
        vec![Stmt::Sstore(c(1), add(sload(0), add(sload(1), c(1))))],
    )]);
    b.db.insert_contract(v, victim.clone(), U256::from(77u64), &[(0, 42), (1, 5)]);
    // proxy: only touches V when it still has code
    let proxy = asm::assemble(&[Stmt::If(
        Expr::ExtCodeSize(Box::new(addr(v))),
        vec![Stmt::Call { kind: CallKind::Call, to: addr(v), value: c(0), arg: None, result_slot: Some(0), gas: None }],
        vec![Stmt::Sstore(c(1), add(sload(1), c(1)))],
    )]);
    b.db.insert_contract(contract(12), proxy, U256::ZERO, &[]);
    // factory: CREATE2 a child whose constructor writes storage; child code = victim code
    let child_init = asm::initcode(&[Stmt::Sstore(c(0), c(7)), Stmt::Sstore(c(3), Expr::CallValue)], &victim);
    let factory = asm::assemble(&[Stmt::Create {
        value: c(0),
        initcode: child_init.clone(),
        salt: Some(5),
        result_slot: Some(0),
    }]);
    let f = contract(13);
    b.db.insert_contract(f, factory, U256::from(1000u64), &[]);
    let child = f.create2_from_code(U256::from(5u64).to_be_bytes::<32>(), &child_init);
    match recipient {
        0 => b.env.beneficiary = v,
        1 => b.env.beneficiary = child,
        _ => {}
    }
    // creator-and-destroyer in one tx: creates a child and immediately calls it with data
    let cd = asm::assemble(&[
        Stmt::Create { value: c(1), initcode: child_init.clone(), salt: None, result_slot: Some(0) },
        Stmt::Call { kind: CallKind::Call, to: sload(0), value: c(0), arg: Some(c(1)), result_slot: Some(1), gas: None },
    ]);
    b.db.insert_contract(contract(14), cd, U256::from(1000u64), &[]);
    // inner-revert wrapper: calls V with data (destroy) and then reverts in the inner frame
    let reverter = asm::assemble(&[
        Stmt::Call { kind: CallKind::Call, to: addr(v), value: c(0), arg: Some(c(1)), result_slot: None, gas: None },
        Stmt::Revert,
    ]);
    b.db.insert_contract(contract(15), reverter, U256::ZERO, &[]);
    let outer = asm::assemble(&[
        Stmt::Call { kind: CallKind::Call, to: addr(contract(15)), value: c(0), arg: None, result_slot: Some(0), gas: None },
        Stmt::Sstore(c(1), Expr::ExtCodeSize(Box::new(addr(v)))),
    ]);
    b.db.insert_contract(contract(16), outer, U256::ZERO, &[]);
    // an empty pre-existing account (EIP-161 touch-delete target) and an absent one
    b.db.insert_eoa(contract(17), U256::ZERO, 0);
    // the full life of the CREATE2 child, in block order: created, a slot the constructor does not
    // write is written, destroyed, created again, the slot is read. Always when the child is the
    // fee recipient, else in one block of six.
    // When the victim is the fee recipient: probed, destroyed, then transactions that pay it
    // fees without touching it (the account the rewards re-create must be a fresh one).
    let scripted: &[usize] = if recipient == 0 {
        &[0, 2, 10, 5, 6]
    } else if recipient == 1 || rng.below(6) == 0 {
        &[5, 6, 7, 5, 6]
    } else {
        &[]
    };
    // (with the victim as fee recipient the block ENDS inside the script, so that the last commit
    // is a reward-only credit to the destroyed account: the final state then shows what the
    // rewards were folded into; a later transaction touching the victim would overwrite it)
    let n_txs = if recipient == 0 { 3 + rng.below(3) } else { n_txs.max(scripted.len()) };
    for k in 0..n_txs {
        let from = if k < scripted.len() { eoa(k % n_eoas) } else { eoa(rng.below(n_eoas)) };
        match if k < scripted.len() { scripted[k] } else { rng.below(12) } {
            0 | 1 => {
                b.call(rng, from, v, &[], "probe-victim");
            }
            2 => {
                b.call(rng, from, v, &[1], "destroy-victim");
            }
            3 | 4 => {
                b.call(rng, from, contract(12), &[], "proxy-probe");
            }
            5 => {
                b.call(rng, from, f, &[], "factory-create2");
            }
            6 => {
                b.call(rng, from, child, &[], "probe-child");
            }
            7 => {
                b.call(rng, from, child, &[1], "destroy-child");
            }
            8 => {
                b.call(rng, from, contract(14), &[], "create-and-destroy");
            }
            9 => {
                b.call(rng, from, contract(16), &[], "inner-revert-destroy");
            }
            10 => {
                // zero-value transfer touches an empty account (deleted post Spurious Dragon)
                let to = pick(rng, &[contract(17), contract(18), r]);
                b.transfer(rng, from, to, 0);
            }
            _ => {
                let to = pick(rng, &[v, child, r]);
                b.transfer(rng, from, to, 3);
            }
        }
    }
    b.finish()
}

fn auth(authority: Address, target: Address, nonce: u64) -> Either<revm_context::transaction::SignedAuthorization, RecoveredAuthorization> {
    auth_chain(authority, target, nonce, 0)
}

/// An authorisation tuple for a given chain id (0 = any chain, 1 = this chain, else foreign).
fn auth_chain(authority: Address, target: Address, nonce: u64, chain_id: u64) -> Either<revm_context::transaction::SignedAuthorization, RecoveredAuthorization> {
    Either::Right(RecoveredAuthorization::new_unchecked(
        Authorization { chain_id: U256::from(chain_id), address: target, nonce },
        RecoveredAuthority::Valid(authority),
    ))
}

/// Family 3: code changes — deployments and EIP-7702 set / re-point / clear / set again.
pub fn gen_code(rng: &mut Rng, spec: SpecId, n_txs: usize) -> Block {
    let n_eoas = 3 + rng.below(2);
    let mut b = Builder::new(rng, spec, n_eoas);
    b.setup_coinbase(rng);
    let prague = spec.is_enabled_in(SpecId::PRAGUE);
    let x = contract(20);
    let y = contract(21);
    b.db.insert_contract(x, asm::assemble(&[Stmt::Sstore(c(0), add(sload(0), c(1)))]), U256::ZERO, &[]);
    b.db.insert_contract(y, asm::assemble(&[Stmt::Sstore(c(1), add(sload(1), c(2))), Stmt::Sstore(c(0), add(sload(0), c(10)))]), U256::ZERO, &[]);
    // inspector: records extcodesize / extcodehash of the authority
    let authority = eoa(0);
    let insp = asm::assemble(&[
        Stmt::Sstore(c(0), Expr::ExtCodeSize(Box::new(addr(authority)))),
        Stmt::Sstore(c(1), Expr::ExtCodeHash(Box::new(addr(authority)))),
        Stmt::Call { kind: CallKind::Call, to: addr(authority), value: c(0), arg: None, result_slot: Some(2), gas: None },
    ]);
    b.db.insert_contract(contract(22), insp, U256::ZERO, &[]);
    // deployer: CREATE a counter; later txs call the deployed address
    let runtime = asm::assemble(&[Stmt::Sstore(c(0), add(sload(0), c(1)))]);
    let init = asm::initcode(&[Stmt::Sstore(c(5), c(9))], &runtime);
    let dep = contract(23);
    b.db.insert_contract(dep, asm::assemble(&[Stmt::Create { value: c(0), initcode: init.clone(), salt: None, result_slot: Some(0) }]), U256::ZERO, &[]);
    let mut dep_nonce = 1u64;
    let mut deployed: Vec<Address> = vec![dep.create(1)];
    // the creation addresses may be pre-funded (balance only): before EIP-161 the created account
    // keeps nonce 0, so the deployment changes nothing but the code
    if rng.chance(1, 2) || !spec.is_enabled_in(SpecId::SPURIOUS_DRAGON) {
        for n in 1..=8u64 {
            b.db.insert_eoa(dep.create(n), U256::from(5 + n), 0);
        }
    }
    let mut auth_nonce_guess = *b.nonces.get(&authority).unwrap();
    let mut own_next = auth_nonce_guess;
    for _ in 0..n_txs {
        let from = eoa(1 + rng.below(n_eoas - 1));
        match rng.below(12) {
            0..=2 if prague => {
                // sponsored authorisation tuple(s)
                let target = pick(rng, &[x, y, Address::ZERO, x]);
                let mut list = vec![];
                let tuples = 1 + rng.below(2);
                for _ in 0..tuples {
                    // mostly the right nonce, sometimes stale (invalid authorisation is skipped)
                    let n = if rng.chance(4, 5) { auth_nonce_guess } else { auth_nonce_guess + 3 };
                    if n == auth_nonce_guess {
                        auth_nonce_guess += 1;
                    }
                    list.push(auth(authority, target, n));
                }
                let to = if rng.chance(1, 2) { authority } else { from };
                let i = b.tx(rng, from, TxKind::Call(to), U256::ZERO, vec![], 500_000, format!("7702 auth -> {target:#x} x{tuples} call {to:#x}"));
                b.txs[i].tx_type = 4;
                b.txs[i].authorization_list = list;
                if b.txs[i].gas_priority_fee.is_none() {
                    b.txs[i].gas_priority_fee = Some(0);
                }
                if b.txs[i].gas_price < b.basefee as u128 {
                    b.txs[i].gas_price = b.basefee as u128;
                }
            }
            3 | 4 => {
                b.call(rng, from, authority, &[], "call-authority");
            }
            5 => {
                b.call(rng, from, contract(22), &[], "inspect-authority");
            }
            6 | 10 | 11 => {
                // the authority sends its own transaction. Mostly with the nonce that accounts for
                // the authorisations consumed so far (valid); sometimes with the nonce it would
                // have if only its own transactions counted (stale once a sponsor's authorisation
                // bumped it: in-order NonceTooLow).
                let stale = rng.chance(1, 3);
                let nonce = if stale { own_next } else { auth_nonce_guess };
                let i = b.transfer(rng, authority, from, 1);
                b.txs[i].nonce = nonce;
                if stale && nonce != auth_nonce_guess {
                    b.desc[i].push_str(" [authority nonce ignores sponsored authorisations]");
                } else {
                    auth_nonce_guess = nonce + 1;
                }
                own_next = nonce + 1;
                b.nonces.insert(authority, auth_nonce_guess);
            }
            9 if prague && rng.chance(1, 2) => {
                // the authority sponsors its own authorisation: the tuple names the nonce the
                // account has after the transaction's own bump; a tuple for a foreign chain is
                // skipped by revm before its nonce is looked at and consumes nothing
                let chain = pick(rng, &[0u64, 1, 5, 5]);
                let target = pick(rng, &[x, y]);
                let j = b.tx(rng, authority, TxKind::Call(from), U256::ZERO, vec![], 500_000, format!("7702 self-sponsored auth -> {target:#x} chain {chain}"));
                b.txs[j].nonce = auth_nonce_guess;
                auth_nonce_guess += 1;
                b.txs[j].tx_type = 4;
                b.txs[j].authorization_list = vec![auth_chain(authority, target, auth_nonce_guess, chain)];
                if chain != 5 {
                    auth_nonce_guess += 1;
                }
                if b.txs[j].gas_priority_fee.is_none() {
                    b.txs[j].gas_priority_fee = Some(0);
                }
                if b.txs[j].gas_price < b.basefee as u128 {
                    b.txs[j].gas_price = b.basefee as u128;
                }
                // and its next own transaction
                let k = b.transfer(rng, authority, from, 1);
                b.txs[k].nonce = auth_nonce_guess;
                auth_nonce_guess += 1;
                own_next = auth_nonce_guess;
                b.nonces.insert(authority, auth_nonce_guess);
            }
            8 | 9 if prague => {
                // the sandwich the commit-time nonce check exists for: the authority sends a
                // transaction, a sponsor's authorisation bumps its nonce, and the authority's next
                // transaction still counts only its own (in order: NonceTooLow, skipped)
                let i = b.transfer(rng, authority, from, 1);
                b.txs[i].nonce = auth_nonce_guess;
                auth_nonce_guess += 1;
                let target = pick(rng, &[x, y]);
                let j = b.tx(rng, from, TxKind::Call(from), U256::ZERO, vec![], 500_000, format!("7702 auth -> {target:#x} (sandwiched)"));
                b.txs[j].tx_type = 4;
                b.txs[j].authorization_list = vec![auth(authority, target, auth_nonce_guess)];
                if b.txs[j].gas_priority_fee.is_none() {
                    b.txs[j].gas_priority_fee = Some(0);
                }
                if b.txs[j].gas_price < b.basefee as u128 {
                    b.txs[j].gas_price = b.basefee as u128;
                }
                let stale_nonce = auth_nonce_guess; // what the authority believes its nonce is
                auth_nonce_guess += 1; // consumed by the authorisation
                let k = b.transfer(rng, authority, from, 1);
                b.txs[k].nonce = stale_nonce;
                b.desc[k].push_str(" [authority nonce ignores the sandwiched authorisation]");
                own_next = stale_nonce + 1;
                b.nonces.insert(authority, auth_nonce_guess);
            }
            7 => {
                b.call(rng, from, dep, &[], "deploy");
                dep_nonce += 1;
                deployed.push(dep.create(dep_nonce));
            }
            _ => {
                let d = deployed[rng.below(deployed.len())];
                b.call(rng, from, d, &[], "call-deployed");
            }
        }
    }
    b.finish()
}

/// Family 4: invalid transactions of every kind, some of whose validity depends on earlier txs.
pub fn gen_invalid(rng: &mut Rng, spec: SpecId, n_txs: usize) -> Block {
    let n_eoas = 3 + rng.below(2);
    let mut b = Builder::new(rng, spec, n_eoas);
    b.setup_coinbase(rng);
    b.disable_nonce_check = rng.chance(1, 5);
    b.db.insert_contract(contract(0), mixer_code(None), U256::ZERO, &[(0, 2)]);
    // a poor account that only becomes fundable after an in-block transfer
    let poor = eoa(n_eoas);
    b.db.insert_eoa(poor, U256::from(10u64), 0);
    b.nonces.insert(poor, 0);
    // an account with code as sender (EIP-3607)
    let coded = contract(30);
    b.db.insert_contract(coded, vec![0x00], U256::from(ETHER), &[]);
    b.nonces.insert(coded, 1);
    // a sender whose nonce is exhausted (nonce overflow is classified before execution)
    let maxed = eoa(n_eoas + 1);
    b.db.insert_eoa(maxed, U256::from(ETHER), u64::MAX);
    b.nonces.insert(maxed, u64::MAX);
    for _ in 0..n_txs {
        let from = eoa(rng.below(n_eoas));
        match rng.below(17) {
            15 | 16 => {
                // TWO defects: the maximum nonce (from a sender whose state nonce is ordinary, or
                // exhausted) and a defect that revm's environment validation tests EARLIER — the
                // reported reason must be the earlier one
                let sender = if rng.chance(1, 3) { maxed } else { from };
                let i = b.transfer(rng, sender, eoa(0), 1);
                let n = b.txs[i].nonce;
                b.txs[i].nonce = u64::MAX;
                b.nonces.insert(sender, n);
                if b.basefee > 0 && rng.chance(1, 2) {
                    b.txs[i].gas_price = (b.basefee - 1) as u128;
                    b.txs[i].gas_priority_fee = if b.txs[i].tx_type == 2 { Some(0) } else { None };
                    b.desc[i].push_str(" [max nonce + fee below base fee]");
                } else {
                    b.txs[i].chain_id = Some(999);
                    b.desc[i].push_str(" [max nonce + wrong chain id]");
                }
            }
            14 => {
                let to = eoa(rng.below(n_eoas));
                let i = b.transfer(rng, maxed, to, 1);
                b.txs[i].nonce = u64::MAX;
                b.nonces.insert(maxed, u64::MAX);
                b.desc[i].push_str(" [nonce overflow]");
            }
            0 => {
                // nonce too low
                let i = b.transfer(rng, from, eoa(0), 1);
                let n = b.txs[i].nonce;
                if n > 0 {
                    b.txs[i].nonce = n - 1;
                    b.nonces.insert(from, n);
                    b.desc[i].push_str(" [nonce too low]");
                }
            }
            1 => {
                let i = b.transfer(rng, from, eoa(1), 1);
                let n = b.txs[i].nonce;
                b.txs[i].nonce = n + 2;
                b.nonces.insert(from, n);
                b.desc[i].push_str(" [nonce too high]");
            }
            2 => {
                // more value than the sender can have
                let i = b.transfer(rng, from, eoa(1), ETHER * 2);
                let n = b.txs[i].nonce;
                b.nonces.insert(from, n);
                b.desc[i].push_str(" [insufficient funds]");
            }
            3 => {
                let i = b.transfer(rng, from, eoa(2), 1);
                b.txs[i].gas_limit = 20_000;
                let n = b.txs[i].nonce;
                b.nonces.insert(from, n);
                b.desc[i].push_str(" [intrinsic gas]");
            }
            4 if b.basefee > 0 => {
                let i = b.transfer(rng, from, eoa(2), 1);
                b.txs[i].gas_price = (b.basefee - 1) as u128;
                b.txs[i].gas_priority_fee = if b.txs[i].tx_type == 2 { Some(0) } else { None };
                let n = b.txs[i].nonce;
                b.nonces.insert(from, n);
                b.desc[i].push_str(" [fee below base fee]");
            }
            5 => {
                let i = b.transfer(rng, coded, eoa(0), 1);
                let n = b.txs[i].nonce;
                b.nonces.insert(coded, n);
                b.desc[i].push_str(" [sender has code]");
            }
            6 => {
                // the poor account tries to send: valid only after funding
                let i = b.transfer(rng, poor, eoa(0), 5);
                b.txs[i].gas_price = b.txs[i].gas_price.max(1);
                b.desc[i].push_str(" [poor sender]");
                // whether it is valid depends on earlier funding; keep nonce bookkeeping optimistic
            }
            7 => {
                b.transfer(rng, from, poor, ETHER / 10);
            }
            8 => {
                // drain the sender so that its next tx lacks funds
                let to = eoa(rng.below(n_eoas));
                b.transfer(rng, from, to, ETHER * 9 / 10);
            }
            9..=11 => {
                let words = [rng.below(6) as u64, rng.below(5) as u64];
                b.call(rng, from, contract(0), &words, "mixer");
            }
            _ => {
                let to = eoa(rng.below(n_eoas));
                b.transfer(rng, from, to, 7);
            }
        }
    }
    b.finish()
}

pub const FAMILIES: &[&str] = &["mixed", "lifecycle", "code", "invalid", "precompile"];

/// Hand-written corpus blocks (minimised past failures and necessity witnesses); `case` selects.
pub const CORPUS: &[&str] = &["two-transfers-to-fresh", "fresh-then-selfdestruct-credit"];

pub fn gen_corpus(rng: &mut Rng, case: usize) -> Block {
    let spec = SpecId::SHANGHAI;
    let mut b = Builder::new(rng, spec, 3);
    b.db.insert_eoa(coinbase(), U256::from(1u64), 0);
    let fresh = Address::from(U160::from(0x9999));
    match CORPUS[case % CORPUS.len()] {
        "two-transfers-to-fresh" => {
            // F3: an account created in-block (empty code) and credited again by a later tx
            b.transfer(rng, eoa(0), fresh, 5);
            b.transfer(rng, eoa(1), fresh, 7);
        }
        _ => {
            b.transfer(rng, eoa(0), fresh, 5);
            b.transfer(rng, eoa(1), eoa(2), 7);
            b.transfer(rng, eoa(2), fresh, 1);
        }
    }
    b.finish()
}


/// Family 7: EIP-7702 delegated accounts whose delegate code moves value out of them (CALL value,
/// CREATE endowment, SELFDESTRUCT) or creates contracts, interleaved with the accounts' own
/// transactions — the shapes the delegated-safety policies (C12, C13) are about. Balances are
/// chosen around the sum of the maximum costs of an account's own transactions, and the debit
/// amounts around the slack that leaves exactly that sum.
pub fn gen_delegated(rng: &mut Rng, spec: SpecId, n_txs: usize) -> Block {
    let n_eoas = 3;
    let mut b = Builder::new(rng, spec, n_eoas);
    b.setup_coinbase(rng);
    let prague = spec.is_enabled_in(SpecId::PRAGUE);
    let r = contract(60); // receiver of moved value (absent before the block)
    let cd0 = || Expr::Cd(0);
    let payer = contract(61);
    b.db.insert_contract(
        payer,
        asm::assemble(&[
            Stmt::Call { kind: CallKind::Call, to: addr(r), value: cd0(), arg: None, result_slot: Some(1), gas: None },
            Stmt::Sstore(c(0), add(sload(0), c(1))),
        ]),
        U256::from(1_000_000u64),
        &[],
    );
    // batch-wallet shape: a large payment, then a small call to a router that refunds more than
    // the small amount (several surviving debits of one delegated account, then a credit)
    let refunder = contract(58);
    b.db.insert_contract(refunder, asm::assemble(&[Stmt::SelfDestruct(addr(contract(70)))]), U256::from(40u64), &[]);
    let payer_refund = contract(57);
    b.db.insert_contract(
        payer_refund,
        asm::assemble(&[
            Stmt::Call { kind: CallKind::Call, to: addr(r), value: cd0(), arg: None, result_slot: Some(1), gas: None },
            Stmt::Call { kind: CallKind::Call, to: addr(refunder), value: c(1), arg: None, result_slot: Some(2), gas: None },
        ]),
        U256::from(1_000_000u64),
        &[],
    );
    let runtime = asm::assemble(&[Stmt::Sstore(c(0), add(sload(0), c(1)))]);
    let child_init = asm::initcode(&[Stmt::Sstore(c(0), c(7))], &runtime);
    let creator = contract(62);
    b.db.insert_contract(
        creator,
        asm::assemble(&[
            Stmt::Create { value: cd0(), initcode: child_init.clone(), salt: None, result_slot: Some(2) },
            Stmt::Sstore(c(0), add(sload(0), c(1))),
        ]),
        U256::from(1_000_000u64),
        &[],
    );
    let creator2 = contract(63);
    b.db.insert_contract(
        creator2,
        asm::assemble(&[
            Stmt::Create { value: cd0(), initcode: child_init.clone(), salt: Some(3), result_slot: Some(2) },
            Stmt::Sstore(c(0), add(sload(0), c(1))),
        ]),
        U256::from(1_000_000u64),
        &[],
    );
    let bomber = contract(64);
    b.db.insert_contract(bomber, asm::assemble(&[Stmt::SelfDestruct(addr(r))]), U256::from(1_000u64), &[]);
    // delegated accounts
    let da = |i: usize| contract(70 + i);
    let dcaller = contract(66);
    let targets = [if rng.chance(1, 2) { payer } else { payer_refund }, if rng.chance(1, 2) { creator } else { creator2 }, pick(rng, &[bomber, payer, creator, dcaller, dcaller])];
    // nested: gives A0 some value and asks it to pass it on (credit before debit)
    let nested = contract(65);
    b.db.insert_contract(
        nested,
        asm::assemble(&[Stmt::Call { kind: CallKind::Call, to: addr(da(0)), value: cd0(), arg: Some(cd0()), result_slot: Some(0), gas: None }]),
        U256::from(10_000_000u64),
        &[],
    );
    // delegatecall into the creator: the create runs in the caller's own context
    b.db.insert_contract(
        dcaller,
        asm::assemble(&[Stmt::Call { kind: CallKind::DelegateCall, to: addr(creator), value: c(0), arg: Some(c(0)), result_slot: Some(3), gas: None }]),
        U256::from(1_000u64),
        &[],
    );
    // an ordinary contract that DELEGATECALLs a delegated account: the delegate's code (a creator)
    // runs in the ordinary contract's own context, where creating is allowed
    let xdc = contract(59);
    b.db.insert_contract(
        xdc,
        asm::assemble(&[Stmt::Call { kind: CallKind::DelegateCall, to: addr(da(1)), value: c(0), arg: Some(c(0)), result_slot: Some(3), gas: None }]),
        U256::from(1_000u64),
        &[],
    );
    // static call into a delegated account
    let scaller = contract(67);
    b.db.insert_contract(
        scaller,
        asm::assemble(&[Stmt::Call { kind: CallKind::StaticCall, to: addr(da(1)), value: c(0), arg: Some(c(0)), result_slot: Some(0), gas: Some(200_000) }]),
        U256::ZERO,
        &[],
    );
    // inner frame that debits A0 and reverts; the outer frame survives
    let reverter = contract(68);
    b.db.insert_contract(
        reverter,
        asm::assemble(&[
            Stmt::Call { kind: CallKind::Call, to: addr(da(0)), value: c(0), arg: Some(cd0()), result_slot: None, gas: None },
            Stmt::Revert,
        ]),
        U256::ZERO,
        &[],
    );
    let catcher = contract(69);
    b.db.insert_contract(
        catcher,
        asm::assemble(&[
            Stmt::Call { kind: CallKind::Call, to: addr(reverter), value: c(0), arg: Some(cd0()), result_slot: Some(0), gas: None },
            Stmt::Sstore(c(1), add(sload(1), c(1))),
        ]),
        U256::ZERO,
        &[],
    );
    for i in 0..3 {
        let nonce = rng.below(3) as u64;
        b.db.insert_delegated(da(i), targets[i], U256::ZERO, nonce);
        b.nonces.insert(da(i), nonce);
    }
    // placeholders: (tx index, delegated account whose balance scales the amount)
    let mut amounts: Vec<(usize, usize)> = Vec::new();
    let mut auth_nonce = *b.nonces.get(&da(2)).unwrap();
    for _ in 0..n_txs {
        let from = eoa(rng.below(n_eoas));
        let k = rng.below(3);
        match rng.below(16) {
            14 | 15 => {
                // a contract-creation TRANSACTION whose init code calls the delegated account: the
                // delegate's CREATE/CREATE2 runs in the delegated account's context, whatever the
                // kind of the transaction around it
                let init = asm::initcode(
                    &[Stmt::Call { kind: CallKind::Call, to: addr(da(k)), value: c(0), arg: Some(c(0)), result_slot: Some(0), gas: None }],
                    &runtime,
                );
                b.tx(rng, from, TxKind::Create, U256::ZERO, init, 700_000, format!("create-tx-whose-initcode-calls-delegated {k}"));
            }
            0..=3 => {
                let i = b.call(rng, from, da(k), &[0], "sponsor-calls-delegated");
                if rng.chance(1, 4) {
                    b.txs[i].value = U256::from(1 + rng.below(50_000));
                    b.desc[i].push_str(" +value");
                }
                amounts.push((i, k));
            }
            4 | 5 => {
                // the delegated account's own plain transaction (k < 2: account 2 never sends)
                let k = rng.below(2);
                let to = eoa(rng.below(n_eoas));
                let v = rng.below(5_000) as u128;
                let i = b.transfer(rng, da(k), to, v);
                b.txs[i].gas_limit = 30_000 + rng.below(200_000) as u64;
                b.desc[i] = format!("own-tx of delegated {k}: transfer {v}");
            }
            6 => {
                // own transaction that runs the account's delegated code (fee, debit and the
                // unused-gas reimbursement all hit the same account), often followed by another
                // own transaction so that there is something to reserve for
                let k = rng.below(2);
                let i = b.call(rng, da(k), da(k), &[0], "own-tx-runs-delegated-code");
                amounts.push((i, k));
                if rng.chance(2, 3) {
                    let to = eoa(rng.below(n_eoas));
                    let v = rng.below(5_000) as u128;
                    let j = b.transfer(rng, da(k), to, v);
                    b.desc[j] = format!("own-tx of delegated {k}: transfer {v}");
                }
            }
            7 => {
                let i = b.call(rng, from, nested, &[0], "nested-credit-then-debit");
                amounts.push((i, 0));
            }
            8 => {
                let t = pick(rng, &[payer, creator, creator2, bomber]);
                let w = rng.below(100) as u64;
                b.call(rng, from, t, &[w], "ordinary-context");
            }
            9 => {
                let t = pick(rng, &[dcaller, scaller, xdc, xdc]);
                b.call(rng, from, t, &[], "delegatecall-or-static");
            }
            10 => {
                let i = b.call(rng, from, catcher, &[0], "inner-revert-of-delegated-debit");
                amounts.push((i, 0));
            }
            11 | 12 => {
                let v = 1 + rng.below(100_000) as u128;
                b.transfer(rng, from, da(k), v);
            }
            _ if prague => {
                let target = pick(rng, &[payer, creator, Address::ZERO, bomber]);
                let n = if rng.chance(5, 6) { auth_nonce } else { auth_nonce + 2 };
                if n == auth_nonce {
                    auth_nonce += 1;
                }
                let i = b.tx(rng, from, TxKind::Call(da(2)), U256::ZERO, vec![0u8; 32], 500_000, format!("7702 re-point delegated 2 -> {target:#x}"));
                b.txs[i].tx_type = 4;
                b.txs[i].authorization_list = vec![auth(da(2), target, n)];
                if b.txs[i].gas_priority_fee.is_none() {
                    b.txs[i].gas_priority_fee = Some(0);
                }
                if b.txs[i].gas_price < b.basefee as u128 {
                    b.txs[i].gas_price = b.basefee as u128;
                }
                amounts.push((i, 2));
            }
            _ => {
                let to = eoa(rng.below(n_eoas));
                b.transfer(rng, from, to, 1);
            }
        }
    }
    // balances around the sum of the accounts' own maximum costs
    let mut balance = [0u128; 3];
    for k in 0..3 {
        let own: u128 = b
            .txs
            .iter()
            .filter(|t| t.caller == da(k))
            .map(|t| revm::context_interface::Transaction::max_balance_spending(t).map_or(u128::MAX / 4, |c| c.to::<u128>()))
            .sum();
        balance[k] = match rng.below(6) {
            0 => own,
            1 => own + 1 + rng.below(1000) as u128,
            2 => own.saturating_sub(1 + rng.below(1000) as u128),
            3 => own * 2 + 50_000,
            4 => own + 1_000_000,
            _ => 10_000_000 + rng.below(1_000_000) as u128,
        };
        b.db.accounts.get_mut(&da(k)).unwrap().info.balance = U256::from(balance[k]);
        let slack = balance[k].saturating_sub(own);
        for (i, kk) in &amounts {
            if *kk != k {
                continue;
            }
            // for the account's own transactions the interesting amounts sit right at the
            // boundary (what the account keeps is the slack plus whatever gas it gets back)
            let own_tx = b.txs[*i].caller == da(k);
            let v: u128 = match rng.below(if own_tx { 10 } else { 7 }) {
                0 => 0,
                1 => 1,
                2 => slack,
                3 | 7 | 8 | 9 => slack + 1,
                4 => slack.saturating_sub(1),
                5 => balance[k] / 2,
                _ => balance[k],
            };
            b.txs[*i].data = Bytes::from(U256::from(v).to_be_bytes::<32>().to_vec());
            b.desc[*i].push_str(&format!(" amount={v} (own-cost-sum {own}, balance {})", balance[k]));
        }
    }
    b.safety = match rng.below(4) {
        0 => DelegatedSafetyConfig::disabled(),
        1 => DelegatedSafetyConfig::create_only(),
        2 => DelegatedSafetyConfig::reserve_only(),
        _ => DelegatedSafetyConfig::enabled(),
    };
    b.finish()
}

pub fn gen_family(rng: &mut Rng, family: &str, n_txs: usize) -> Block {
    match family {
        "corpus" => gen_corpus(rng, n_txs),
        "stale-fatal" => gen_stale_fatal(rng),
        "conf" => gen_conf(rng, n_txs),
        "precompile" => {
            let spec = pick(rng, &[SpecId::SHANGHAI, SpecId::CANCUN, SpecId::PRAGUE, SpecId::OSAKA]);
            gen_precompile(rng, spec, n_txs)
        }
        "mixed" => {
            let spec = pick(rng, ALL_SPECS);
            gen_mixed(rng, spec, n_txs)
        }
        "lifecycle" => {
            let spec = pick(rng, &[
                SpecId::PETERSBURG,
                SpecId::ISTANBUL,
                SpecId::BERLIN,
                SpecId::LONDON,
                SpecId::SHANGHAI,
                SpecId::CANCUN,
                SpecId::PRAGUE,
                SpecId::OSAKA,
            ]);
            gen_lifecycle(rng, spec, n_txs)
        }
        "delegated" => {
            let spec = pick(rng, &[SpecId::PRAGUE, SpecId::PRAGUE, SpecId::OSAKA, SpecId::OSAKA, SpecId::CANCUN, SpecId::SHANGHAI]);
            gen_delegated(rng, spec, n_txs)
        }
        "code" => {
            let spec = if rng.chance(1, 4) {
                pick(rng, ALL_SPECS)
            } else if rng.chance(1, 5) {
                // before EIP-161 a created account keeps nonce 0
                pick(rng, &[SpecId::FRONTIER, SpecId::HOMESTEAD, SpecId::TANGERINE])
            } else {
                pick(rng, &[SpecId::SHANGHAI, SpecId::CANCUN, SpecId::PRAGUE, SpecId::PRAGUE, SpecId::OSAKA])
            };
            gen_code(rng, spec, n_txs)
        }
        _ => {
            let spec = pick(rng, MODERN_SPECS);
            gen_invalid(rng, spec, n_txs)
        }
    }
}

// ------------------------------------------------------------------------------------------------
// Custom precompiles (C11) and the stale-fatal witness (F2)
// ------------------------------------------------------------------------------------------------

use grevm::{DynParallelPrecompile, ParallelPrecompileError};
use revm::precompile::{PrecompileError, PrecompileHalt, PrecompileId, PrecompileOutput};

pub fn precompile_addr(i: usize) -> Address {
    Address::from(U160::from(0x3000 + i))
}
pub fn holder() -> Address {
    contract(40)
}

fn word(data: &[u8], i: usize) -> U256 {
    if data.len() >= 32 * (i + 1) { U256::from_be_slice(&data[32 * i..32 * (i + 1)]) } else { U256::ZERO }
}

/// The precompile set used by the generators.
/// Per-invocation log of facade calls made by the test precompiles: (static context?, list of
/// (operation: 0 balance, 1 sload, 2 set_balance, 3 sstore; result: 0 ok, 1 halt, 2 fatal)).
pub static FACADE_LOG: std::sync::Mutex<Vec<(bool, Vec<(u8, u8, u8, u8)>)>> = std::sync::Mutex::new(Vec::new());

/// Forwards to the real facade and records what each call returned.
struct Probe<'a, 'b> {
    input: &'a mut grevm::ParallelPrecompileInput<'b>,
    /// (operation, result kind, cold flag: 0 warm / 1 cold / 2 unknown, index of the address)
    rec: Vec<(u8, u8, u8, u8)>,
    addrs: Vec<Address>,
    is_static: bool,
}

impl<'a, 'b> Probe<'a, 'b> {
    fn new(input: &'a mut grevm::ParallelPrecompileInput<'b>) -> Self {
        let is_static = input.is_static();
        Self { input, rec: Vec::new(), addrs: Vec::new(), is_static }
    }
    fn note<T>(&mut self, op: u8, a: Address, cold: Option<bool>, r: &Result<T, ParallelPrecompileError>) {
        let k = match r {
            Ok(_) => 0,
            Err(ParallelPrecompileError::Halt(_)) => 1,
            Err(ParallelPrecompileError::Fatal(_)) => 2,
        };
        let idx = match self.addrs.iter().position(|x| *x == a) {
            Some(i) => i,
            None => {
                self.addrs.push(a);
                self.addrs.len() - 1
            }
        };
        self.rec.push((op, k, cold.map_or(2, |c| c as u8), idx as u8));
    }
    fn balance(&mut self, a: Address) -> Result<U256, ParallelPrecompileError> {
        let r = self.input.state().balance(a);
        let cold = r.as_ref().ok().map(|l| l.is_cold);
        let r = r.map(|l| l.data);
        self.note(0, a, cold, &r);
        r
    }
    fn sload(&mut self, a: Address, k: U256) -> Result<U256, ParallelPrecompileError> {
        // the cold flag of a storage load is the slot's, not the account's: not logged
        let r = self.input.state().sload(a, k).map(|l| l.data);
        self.note(1, a, None, &r);
        r
    }
    fn set_balance(&mut self, a: Address, v: U256) -> Result<(), ParallelPrecompileError> {
        let r = self.input.state().set_balance(a, v);
        let cold = r.as_ref().ok().map(|l| l.is_cold);
        let r = r.map(|_| ());
        self.note(2, a, cold, &r);
        r
    }
    fn sstore(&mut self, a: Address, k: U256, v: U256) -> Result<(), ParallelPrecompileError> {
        let r = self.input.state().sstore(a, k, v).map(|_| ());
        self.note(3, a, None, &r);
        r
    }
}

impl Drop for Probe<'_, '_> {
    fn drop(&mut self) {
        let mut log = FACADE_LOG.lock().unwrap();
        if log.len() < 200_000 {
            log.push((self.is_static, std::mem::take(&mut self.rec)));
        }
    }
}

pub fn standard_precompiles() -> Vec<(Address, DynParallelPrecompile)> {
    let ok = |reservoir: u64, gas: u64| Ok(PrecompileOutput::new(gas, Bytes::new(), reservoir));
    vec![
        // 0: holder[k+1] := holder[k] + 1  (k = first calldata word mod 4); read-your-writes
        (precompile_addr(0), DynParallelPrecompile::new(PrecompileId::Custom("rw".into()), move |input| {
            let mut st = Probe::new(input);
            let k = word(st.input.data(), 0) % U256::from(4u64);
            let r = st.input.reservoir();
            let v = st.sload(holder(), k)?;
            st.sstore(holder(), (k + U256::from(1u64)) % U256::from(4u64), v + U256::from(1u64))?;
            let again = st.sload(holder(), (k + U256::from(1u64)) % U256::from(4u64))?;
            if again != v + U256::from(1u64) {
                return Err(ParallelPrecompileError::Fatal(PrecompileError::Fatal("read-your-writes violated".into())));
            }
            ok(r, 100)
        })),
        // 1: move one wei of balance bookkeeping: balance(holder) -> set_balance(caller-derived account)
        (precompile_addr(1), DynParallelPrecompile::new(PrecompileId::Custom("bal".into()), move |input| {
            let mut st = Probe::new(input);
            let r = st.input.reservoir();
            let b = st.balance(holder())?;
            let target = contract(41);
            let t = st.balance(target)?;
            st.set_balance(target, t + (b % U256::from(7u64)) + U256::from(1u64))?;
            ok(r, 50)
        })),
        // 2: tries to write even in a static context and ignores the refusal
        (precompile_addr(2), DynParallelPrecompile::new(PrecompileId::Custom("static-write".into()), move |input| {
            let mut st = Probe::new(input);
            let r = st.input.reservoir();
            let _ = st.sstore(holder(), U256::from(9u64), U256::from(1u64));
            let _ = st.set_balance(contract(41), U256::from(5u64));
            ok(r, 10)
        })),
        // 3: halts
        (precompile_addr(3), DynParallelPrecompile::new(PrecompileId::Custom("halt".into()), move |input| {
            let mut st = Probe::new(input);
            let _ = st.sstore(holder(), U256::from(8u64), U256::from(1u64));
            Err(ParallelPrecompileError::Halt(PrecompileHalt::other_static("halt requested")))
        })),
        // 4: reads the beneficiary balance through the facade and records it
        (precompile_addr(4), DynParallelPrecompile::new(PrecompileId::Custom("coinbase-reader".into()), move |input| {
            let mut st = Probe::new(input);
            let r = st.input.reservoir();
            let b = st.balance(coinbase())?;
            st.sstore(holder(), U256::from(5u64), b)?;
            ok(r, 30)
        })),
        // 5: writer for the stale-fatal witness: holder[0] := 42
        (precompile_addr(5), DynParallelPrecompile::new(PrecompileId::Custom("w42".into()), move |input| {
            let mut st = Probe::new(input);
            let r = st.input.reservoir();
            st.sstore(holder(), U256::ZERO, U256::from(42u64))?;
            ok(r, 10)
        })),
        // 6: fatal iff holder[0] still has its block-start value 7 (state-dependent fatal error)
        (precompile_addr(6), DynParallelPrecompile::new(PrecompileId::Custom("fatal-if-7".into()), move |input| {
            let mut st = Probe::new(input);
            let r = st.input.reservoir();
            let v = st.sload(holder(), U256::ZERO)?;
            if v == U256::from(7u64) {
                return Err(ParallelPrecompileError::Fatal(PrecompileError::Fatal("fatal: observed the stale value 7".into())));
            }
            ok(r, 10)
        })),
        // 8: what an implementation does with a facade error is its own business — the adapter must
        // still report the FACADE's fault. Mode (first calldata word): 0 answer a facade error
        // with an own fatal error, 1 with an own halt, 2 propagate it, 3 ignore it and return Ok.
        (precompile_addr(8), DynParallelPrecompile::new(PrecompileId::Custom("error-replacer".into()), move |input| {
            let mut st = Probe::new(input);
            let mode = word(st.input.data(), 0);
            let r = st.input.reservoir();
            let res = st.sstore(holder(), U256::from(11u64), U256::from(1u64));
            match (res, mode.to::<u64>()) {
                (Ok(()), _) => ok(r, 10),
                (Err(_), 0) => Err(ParallelPrecompileError::Fatal(PrecompileError::Fatal("implementation's own fatal error".into()))),
                (Err(_), 1) => Err(ParallelPrecompileError::Halt(PrecompileHalt::other_static("implementation's own halt"))),
                (Err(e), 2) => Err(e),
                (Err(_), _) => ok(r, 10),
            }
        })),
        // 9: a vault on a CODELESS account (nonce 0, no code): mode 0 stores into its slot 0 and
        // funds it, mode 1 empties it (balance 0: the account is then touched-and-empty, which
        // EIP-161 clears together with the storage only the facade could have put there), mode 2
        // records its slot 0. After store / empty the slot must read 0 on every path.
        (precompile_addr(9), DynParallelPrecompile::new(PrecompileId::Custom("vault".into()), move |input| {
            let mut st = Probe::new(input);
            let mode = word(st.input.data(), 0).to::<u64>();
            let r = st.input.reservoir();
            let vault = contract(49);
            match mode {
                0 => {
                    let v = st.sload(vault, U256::ZERO)?;
                    st.sstore(vault, U256::ZERO, v + U256::from(7u64))?;
                    let b = st.balance(vault)?;
                    st.set_balance(vault, b + U256::from(1u64))?;
                }
                1 => st.set_balance(vault, U256::ZERO)?,
                _ => {
                    let v = st.sload(vault, U256::ZERO)?;
                    st.sstore(holder(), U256::from(12u64), v + U256::from(100u64))?;
                }
            }
            ok(r, 40)
        })),
        // 7: reads the balance of an account that is still cold in this transaction through the
        // facade and records it; callers read the same account again afterwards (both reads must
        // see one version, and the facade read must be validated like an opcode read)
        (precompile_addr(7), DynParallelPrecompile::new(PrecompileId::Custom("balance-probe".into()), move |input| {
            let mut st = Probe::new(input);
            let r = st.input.reservoir();
            let b = st.balance(contract(41))?;
            // a second read in the same invocation: the journal must already hold the account
            let again = st.balance(contract(41))?;
            if again != b {
                return Err(ParallelPrecompileError::Fatal(PrecompileError::Fatal("two facade reads of one account differ".into())));
            }
            st.sstore(holder(), U256::from(6u64), b)?;
            ok(r, 30)
        })),
    ]
}

pub fn precompile_builder(rng: &mut Rng, spec: SpecId, n_eoas: usize) -> Builder {
    let mut b = Builder::new(rng, spec, n_eoas);
    b.setup_coinbase(rng);
    b.db.insert_contract(holder(), vec![0x00], U256::from(1000u64), &[(0, 7), (1, 1), (2, 2)]);
    b.db.insert_eoa(contract(41), U256::from(3u64), 0);
    b.precompiles = standard_precompiles();
    // calls precompile 8 with mode = first calldata word, statically iff the second word is set;
    // stores whether the call succeeded
    b.db.insert_contract(
        contract(48),
        asm::assemble(&[
            Stmt::If(
                Expr::Cd(1),
                vec![Stmt::Call { kind: CallKind::StaticCall, to: addr(precompile_addr(8)), value: c(0), arg: Some(Expr::Cd(0)), result_slot: Some(0), gas: Some(60_000) }],
                vec![Stmt::Call { kind: CallKind::Call, to: addr(precompile_addr(8)), value: c(0), arg: Some(Expr::Cd(0)), result_slot: Some(0), gas: Some(60_000) }],
            ),
            Stmt::Sstore(c(1), c(7)),
        ]),
        U256::ZERO,
        &[(0, 5)],
    );
    // facade balance read of a cold account, then the opcode reads the same account
    b.db.insert_contract(
        contract(46),
        asm::assemble(&[
            Stmt::Call { kind: CallKind::Call, to: addr(precompile_addr(7)), value: c(0), arg: None, result_slot: Some(0), gas: Some(60_000) },
            Stmt::Sstore(c(1), Expr::Balance(Box::new(addr(contract(41))))),
        ]),
        U256::ZERO,
        &[],
    );
    // nested caller: calls precompile 0 with the first calldata word, then writes its own slot
    b.db.insert_contract(
        contract(42),
        asm::assemble(&[
            Stmt::Call { kind: CallKind::Call, to: addr(precompile_addr(0)), value: c(0), arg: Some(Expr::Cd(0)), result_slot: Some(0), gas: Some(60_000) },
            Stmt::Sstore(c(1), add(sload(1), c(1))),
        ]),
        U256::ZERO,
        &[],
    );
    // static caller: STATICCALL to the writing precompile
    b.db.insert_contract(
        contract(43),
        asm::assemble(&[Stmt::Call { kind: CallKind::StaticCall, to: addr(precompile_addr(2)), value: c(0), arg: None, result_slot: Some(0), gas: Some(60_000) }]),
        U256::ZERO,
        &[],
    );
    // reverting frame around a precompile write
    b.db.insert_contract(
        contract(44),
        asm::assemble(&[
            Stmt::Call { kind: CallKind::Call, to: addr(precompile_addr(0)), value: c(0), arg: Some(c(1)), result_slot: None, gas: Some(60_000) },
            Stmt::Revert,
        ]),
        U256::ZERO,
        &[],
    );
    b.db.insert_contract(
        contract(45),
        asm::assemble(&[
            Stmt::Call { kind: CallKind::Call, to: addr(contract(44)), value: c(0), arg: None, result_slot: Some(0), gas: Some(100_000) },
            Stmt::Sstore(c(1), Expr::Sload(Box::new(c(0)))),
        ]),
        U256::ZERO,
        &[],
    );
    b
}

/// Family 5: blocks mixing custom precompile calls with ordinary txs on the same accounts.
pub fn gen_precompile(rng: &mut Rng, spec: SpecId, n_txs: usize) -> Block {
    let n_eoas = 2 + rng.below(3);
    let mut b = precompile_builder(rng, spec, n_eoas);
    // one block in four opens with the life of the codeless vault (store, empty, read); one in
    // eight with a transaction the ordered commit rejects (nonce too high) followed, two
    // transactions later, by the state-dependent fatal precompile: the suffix is replayed
    // sequentially from the rejected one and the error must carry its GLOBAL index
    let script: &[usize] = match rng.below(8) {
        0 | 1 => &[16, 17, 18],
        2 => &[0, 13, 10, 12],
        _ => &[],
    };
    for k in 0..n_txs.max(script.len()) {
        let from = eoa(rng.below(n_eoas));
        match if k < script.len() { script[k] } else { rng.below(19) } {
            m @ 16..=18 => {
                let mode = (m - 16) as u64;
                b.call(rng, from, precompile_addr(9), &[mode], ["vault-store", "vault-empty", "vault-read"][mode as usize]);
            }
            0..=2 => {
                let w = rng.below(4) as u64;
                b.call(rng, from, precompile_addr(0), &[w], "precompile-rw-direct");
            }
            11 => {
                b.call(rng, from, precompile_addr(5), &[], "precompile-write-42");
            }
            12 => {
                // fatal unless an earlier transaction of the block wrote 42
                b.call(rng, from, precompile_addr(6), &[], "precompile-fatal-if-7");
            }
            14 | 15 => {
                b.call(rng, from, contract(46), &[], "facade-balance-then-opcode-balance");
            }
            13 => {
                // an invalid transaction in the middle of the block: ordered commit rejects it and
                // the rest of the block is replayed sequentially from there
                let i = b.transfer(rng, from, holder(), 1);
                let n = b.txs[i].nonce;
                b.txs[i].nonce = n + 2;
                b.nonces.insert(from, n);
                b.desc[i].push_str(" [nonce too high]");
            }
            3 => {
                let w = rng.below(4) as u64;
                b.call(rng, from, contract(42), &[w], "precompile-rw-nested");
            }
            4 => {
                b.call(rng, from, precompile_addr(1), &[], "precompile-balance");
            }
            5 => {
                b.call(rng, from, contract(43), &[], "precompile-static-write");
            }
            6 => {
                b.call(rng, from, precompile_addr(3), &[], "precompile-halt");
            }
            7 => {
                b.call(rng, from, precompile_addr(4), &[], "precompile-coinbase-reader");
            }
            8 => {
                b.call(rng, from, contract(45), &[], "precompile-in-reverting-frame");
            }
            9 => {
                b.transfer(rng, from, contract(41), 2);
            }
            _ => {
                b.transfer(rng, from, holder(), 1);
            }
        }
    }
    b.finish()
}

/// F2 witness block: tx 0 writes holder[0] := 42 through a precompile; tx 1 calls a precompile
/// that is fatal iff it still observes 7. In order, tx 1 observes 42 and succeeds.
pub fn gen_stale_fatal(rng: &mut Rng) -> Block {
    let mut b = precompile_builder(rng, SpecId::SHANGHAI, 2);
    let (f0, f1) = (eoa(0), eoa(1));
    b.call(rng, f0, precompile_addr(5), &[], "precompile-write-42");
    b.call(rng, f1, precompile_addr(6), &[], "precompile-fatal-if-7");
    b.finish()
}

/// F8 witness block: an invalid (intrinsic gas) transfer, then two plain transfers; the fault is
/// put on the fee recipient's account by the caller.
pub fn gen_invalid_then_transfers(rng: &mut Rng) -> Block {
    let mut b = Builder::new(rng, SpecId::SHANGHAI, 3);
    b.db.insert_eoa(coinbase(), U256::from(5u64), 0);
    let i = b.transfer(rng, eoa(0), eoa(2), 1);
    b.txs[i].gas_limit = 20_000;
    let n = b.txs[i].nonce;
    b.nonces.insert(eoa(0), n);
    b.desc[i].push_str(" [intrinsic gas]");
    b.transfer(rng, eoa(1), eoa(2), 3);
    b.transfer(rng, eoa(2), eoa(0), 5);
    b.finish()
}

/// Witness block for the commit-time nonce gate: a plain transfer, then a transfer from another
/// sender whose nonce is too high (otherwise valid). In order: executed, skipped.
pub fn gen_wrong_nonce_second(rng: &mut Rng) -> Block {
    let mut b = Builder::new(rng, SpecId::SHANGHAI, 3);
    b.db.insert_eoa(coinbase(), U256::from(5u64), 0);
    // the two transactions share nothing (distinct senders and recipients, non-zero fees so that
    // both rewards are deferred): the first attempt of the second one is never invalidated
    let j = b.transfer(rng, eoa(0), eoa(2), 3);
    let i = b.transfer(rng, eoa(1), contract(70), 5);
    let n = b.txs[i].nonce;
    b.txs[i].nonce = n + 1;
    b.nonces.insert(eoa(1), n);
    b.desc[i].push_str(" [nonce too high]");
    for k in [i, j] {
        b.txs[k].tx_type = 0;
        b.txs[k].gas_priority_fee = None;
        b.txs[k].gas_price = b.basefee as u128 + 2;
    }
    b.finish()
}

/// F5 witness block: tx 0 is a plain transfer; tx 1 is sent from an account with code
/// (rejected by EIP-3607, i.e. skipped in order).
pub fn gen_coded_sender(rng: &mut Rng) -> Block {
    let mut b = Builder::new(rng, SpecId::SHANGHAI, 2);
    b.db.insert_eoa(coinbase(), U256::from(1u64), 0);
    let coded = contract(30);
    b.db.insert_contract(coded, vec![0x00], U256::from(ETHER), &[]);
    b.nonces.insert(coded, 1);
    b.transfer(rng, eoa(0), eoa(1), 3);
    b.transfer(rng, coded, eoa(0), 1);
    b.finish()
}

/// mode (first calldata word): 0 set the flag (slot 0), 1 write slot 5 if the flag is unset (else
/// bump slot 1), 2 read slot 5 into slot 6
pub fn conditional_writer_code() -> Vec<u8> {
    let mode_is = |k: u64| Expr::Eq(Box::new(Expr::Cd(0)), Box::new(c(k)));
    asm::assemble(&[
        Stmt::If(mode_is(0), vec![Stmt::Sstore(c(0), add(sload(0), c(1)))], vec![]),
        Stmt::If(
            mode_is(1),
            vec![Stmt::If(Expr::IsZero(Box::new(sload(0))), vec![Stmt::Sstore(c(5), c(7))], vec![Stmt::Sstore(c(1), add(sload(1), c(1)))])],
            vec![],
        ),
        Stmt::If(mode_is(2), vec![Stmt::Sstore(c(6), add(sload(5), c(1)))], vec![]),
    ])
}

/// Witness block for a read whose multi-version source vanishes: tx 0 sets the flag, tx 1 writes
/// slot 5 only while the flag is unset, tx 2 reads slot 5; three senders.
pub fn gen_vanished_source(rng: &mut Rng) -> Block {
    let mut b = Builder::new(rng, SpecId::SHANGHAI, 3);
    b.db.insert_eoa(coinbase(), U256::from(1u64), 0);
    b.db.insert_contract(contract(4), conditional_writer_code(), U256::ZERO, &[]);
    for k in 0..3u64 {
        b.call(rng, eoa(k as usize), contract(4), &[k], ["flag-set", "write-if-flag-unset", "read-conditional-slot"][k as usize]);
    }
    b.finish()
}

/// Conformance family: only MV-tracked locations are read (fees are non-zero so every reward is
/// deferred and the beneficiary is never loaded; no creation or destruction, hence no reset
/// markers). Transfers among few EOAs plus the data-dependent mixer contracts.
pub fn gen_conf(rng: &mut Rng, n_txs: usize) -> Block {
    let n_eoas = 2 + rng.below(3);
    let spec = pick(rng, &[SpecId::BERLIN, SpecId::SHANGHAI, SpecId::CANCUN]);
    let mut b = Builder::new(rng, spec, n_eoas);
    b.basefee = 0;
    b.env.basefee = 0;
    b.db.insert_eoa(coinbase(), U256::from(1u64), 0);
    b.db.insert_contract(contract(1), mixer_code(None), U256::ZERO, &[(0, 2), (1, 3)]);
    b.db.insert_contract(contract(0), mixer_code(Some(contract(1))), U256::from(9u64), &[(0, 1), (2, 4)]);
    b.db.insert_contract(contract(3), mover_code(), U256::ZERO, &[(0, 1), (1, 2)]);
    // a writer whose write depends on a flag another transaction sets: an attempt that ran before
    // the flag was set writes slot 5, its re-execution writes nothing there and nobody else does,
    // so a reader of slot 5 that saw the first attempt must be invalidated by a MISSING entry.
    // mode (first calldata word): 0 set the flag, 1 write slot 5 if the flag is unset, 2 read slot 5
    b.db.insert_contract(contract(4), conditional_writer_code(), U256::ZERO, &[]);
    // one block in three opens with the pattern in block order (flag set, conditional writer,
    // reader), each from its own sender where there are enough of them
    let vanish = n_txs >= 3 && rng.below(3) == 0;
    for k in 0..n_txs {
        let scripted = vanish && k < 3;
        let from = if scripted { eoa(k % n_eoas) } else { eoa(rng.below(n_eoas)) };
        let i = match if scripted { 10 } else { rng.below(13) } {
            10..=12 => {
                let mode = if scripted { k as u64 } else { rng.below(3) as u64 };
                b.call(rng, from, contract(4), &[mode], ["flag-set", "write-if-flag-unset", "read-conditional-slot"][mode as usize])
            }
            0..=2 => {
                let to = eoa(rng.below(n_eoas));
                let v = [1u128, 1000, ETHER / 5][rng.below(3)];
                b.transfer(rng, from, to, v)
            }
            3..=5 => {
                let words = [rng.below(2) as u64, rng.below(5) as u64];
                b.call(rng, from, contract(3), &words, "mover")
            }
            _ => {
                let words = [rng.below(6) as u64, rng.below(5) as u64];
                let to = contract(rng.below(2));
                b.call(rng, from, to, &words, "mixer")
            }
        };
        // non-zero fee: the reward is deferred, the beneficiary account is never read
        b.txs[i].tx_type = 0;
        b.txs[i].gas_priority_fee = None;
        b.txs[i].gas_price = 1 + rng.below(3) as u128;
    }
    // accounts come with their bytecode attached, so whether the code location is read does not
    // depend on the fill state of the shared cache
    b.db.attach_code = true;
    b.finish()
}
