//! C10: `ParallelState` as a stand-in for revm's `State`.
//!
//! `history`: random histories of committed journal states, balance increments / drains,
//! transition merges (all retention modes) and bundle extractions over 1-3 consecutive blocks on
//! one `ParallelState` and one `revm_database::State` (optionally both starting from the same
//! pre-populated bundle); after every operation the pending transitions, every readable account,
//! code and slot, and every extracted bundle must be equal.
//!
//! `race`: cache-filling storage reads through the worker view run concurrently with the ordered
//! commit of destroy / create / empty-touch / update states, under controller schedules
//! (random, PCT, sticky, and the directed F1 schedule: reader paused between its database fetch and
//! its cache insert while the owning account is destroyed). Afterwards the state must serve what
//! revm's `State` serves after the same commits.

use crate::{
    Args,
    ctrl::{Ctrl, Directive, Rng, Sel, Strategy},
    json::J,
    world::{MemAccount, MemDb, compare_bundles},
};
use grevm::{ParallelState, ParallelTakeBundle, verif::drivers::{cache_race, cache_race_accounts}};
use revm::{Database, DatabaseCommit, DatabaseRef};
use revm_database::{DatabaseCommitExt, State, StateBuilder, states::bundle_state::BundleRetention};
use revm_primitives::{Address, KECCAK_EMPTY, U256};
use revm_state::{Account, AccountInfo, AccountStatus, Bytecode, EvmState, EvmStorageSlot, TransactionId};
use std::collections::{BTreeMap, HashMap};

const N_ADDR: usize = 4;
const N_SLOT: usize = 3;

fn addr(i: usize) -> Address {
    Address::with_last_byte(0xB0 + i as u8)
}

fn code(id: usize) -> Option<Bytecode> {
    match id {
        0 => None,
        3 => Some(Bytecode::new_eip7702(Address::with_last_byte(0x77))),
        _ => Some(Bytecode::new_raw(vec![0x60, id as u8, 0x00].into())),
    }
}

fn info(nonce: u64, balance: u64, code_id: usize) -> AccountInfo {
    let bytecode = code(code_id);
    AccountInfo {
        nonce,
        balance: U256::from(balance),
        code_hash: bytecode.as_ref().map_or(KECCAK_EMPTY, |c| c.hash_slow()),
        code: bytecode,
        ..Default::default()
    }
}

fn gen_db(rng: &mut Rng) -> MemDb {
    let mut db = MemDb::default();
    for a in 0..N_ADDR {
        if rng.chance(2, 3) {
            let cid = if rng.chance(1, 2) { 0 } else { 1 + rng.below(3) };
            let mut i = info(rng.below(3) as u64, rng.below(4) as u64, cid);
            if let Some(c) = i.code.take() {
                db.codes.insert(c.hash_slow(), c);
            }
            let mut storage = BTreeMap::new();
            if i.nonce > 0 || cid != 0 {
                for k in 0..N_SLOT {
                    if rng.chance(1, 2) {
                        storage.insert(U256::from(k), U256::from(1 + rng.below(3)));
                    }
                }
            }
            db.accounts.insert(addr(a), MemAccount { info: i, storage });
        }
    }
    for id in 1..=3 {
        let c = code(id).unwrap();
        db.codes.entry(c.hash_slow()).or_insert(c);
    }
    db
}

/// One finalized journal state for account `a`, realistic for the current logical state `pre`.
fn gen_change(rng: &mut Rng, pre: &Option<AccountInfo>, cur: impl Fn(usize) -> U256) -> (Account, &'static str) {
    let pre_code = pre.as_ref().is_some_and(|p| p.code_hash != KECCAK_EMPTY);
    let mut status = AccountStatus::Touched;
    if pre.is_none() {
        status |= AccountStatus::LoadedAsNotExisting;
    }
    let mut storage: HashMap<U256, EvmStorageSlot> = HashMap::default();
    let roll = rng.below(10);
    let (new_info, label) = if roll < 2 {
        status |= AccountStatus::SelfDestructed;
        if rng.chance(1, 3) {
            status |= AccountStatus::Created;
        }
        let mut i = pre.clone().unwrap_or_default();
        i.balance = U256::ZERO;
        (i, "selfdestruct")
    } else if roll < 5 && pre.as_ref().is_none_or(|p| p.nonce == 0 && !pre_code) {
        status |= AccountStatus::Created;
        for k in 0..N_SLOT {
            if rng.chance(1, 2) {
                storage.insert(U256::from(k), EvmStorageSlot::new_changed(U256::ZERO, U256::from(rng.below(3)), TransactionId::ZERO));
            }
        }
        let mut i = info(rng.below(2) as u64, rng.below(3) as u64, if rng.chance(1, 3) { 0 } else { 1 + rng.below(3) });
        if i.code.is_none() {
            // revm always attaches the (possibly empty) deployed code to a created account
            i.code = Some(Bytecode::default());
        }
        (i, "create")
    } else if roll < 6 && pre.is_some() {
        // touched and left empty: EIP-161 clear (only reachable for accounts that are empty)
        (AccountInfo::default(), "touch-empty")
    } else {
        let (n0, b0) = pre.as_ref().map_or((0, 0), |p| (p.nonce, p.balance.to::<u64>()));
        let mut i = pre.clone().unwrap_or_default();
        i.nonce = n0 + rng.below(2) as u64;
        i.balance = U256::from(if rng.chance(1, 2) { b0 } else { rng.below(5) as u64 });
        if rng.chance(1, 5) {
            let n = info(i.nonce + 1, i.balance.to::<u64>(), rng.below(4));
            i = n;
        } else if let Some(c) = code_of(&i) {
            i.code = Some(c);
        }
        if pre.is_some() {
            for _ in 0..rng.below(3) {
                let k = rng.below(N_SLOT);
                storage.insert(U256::from(k), EvmStorageSlot::new_changed(cur(k), U256::from(rng.below(3)), TransactionId::ZERO));
            }
        }
        (i, "update")
    };
    let mut account = Account::default().with_info(new_info);
    account.status = status;
    account.storage = storage.into_iter().collect();
    (account, label)
}

fn code_of(i: &AccountInfo) -> Option<Bytecode> {
    (1..=3).filter_map(code).find(|c| c.hash_slow() == i.code_hash)
}

fn show_info(i: &Option<AccountInfo>) -> String {
    match i {
        None => "-".to_owned(),
        Some(i) => format!("{}:{}:{}", i.nonce, i.balance, i.code_hash),
    }
}

fn code_id(h: &revm_primitives::B256) -> usize {
    if *h == KECCAK_EMPTY { 0 } else { (1..=3).find(|id| code(*id).unwrap().hash_slow() == *h).unwrap_or(9) }
}

/// `n:b:c` (c = code id) or `-`: the account rendering of the Lean `acct` session.
fn model_info(i: &Option<AccountInfo>) -> String {
    match i {
        None => "-".to_owned(),
        Some(i) => format!("{}:{}:{}", i.nonce, i.balance, code_id(&i.code_hash)),
    }
}

/// The cache entries of account `a` on both sides: `<status> <info> <status> <info>`.
fn model_entries(p: &ParallelState<MemDb>, s: &State<revm_database::WrapDatabaseRef<&MemDb>>, a: usize) -> String {
    let pe = match p.cache.accounts.get(&addr(a)) {
        Some(e) => format!("{:?} {}", e.status, model_info(&e.account)),
        None => "uncached -".to_owned(),
    };
    let se = match s.cache.accounts.get(&addr(a)) {
        Some(e) => format!("{:?} {}", e.status, model_info(&e.account.as_ref().map(|x| x.info.clone()))),
        None => "uncached -".to_owned(),
    };
    format!("{pe} {se}")
}

/// The committed journal account as an operation of the Lean model (the case split of
/// `apply_account_state`).
fn model_commit_op(account: &Account) -> String {
    let slots: BTreeMap<U256, U256> = account.changed_storage_slots().map(|(k, v)| (*k, v.present_value)).collect();
    let slots = slots.iter().map(|(k, v)| format!(" {k}={v}")).collect::<String>();
    if account.is_selfdestructed() {
        "sd".to_owned()
    } else if account.is_created() {
        format!("create {}{}", model_info(&Some(account.info.clone())), slots)
    } else if account.is_empty() {
        "touch".to_owned()
    } else {
        format!("change {}{}", model_info(&Some(account.info.clone())), slots)
    }
}

/// Compare everything readable. `what` names the point in the history.
fn compare_reads(p: &mut ParallelState<MemDb>, s: &mut State<revm_database::WrapDatabaseRef<&MemDb>>, what: &str, mlog: &mut [Vec<String>]) -> Option<String> {
    for a in 0..N_ADDR {
        let pi = p.basic_ref(addr(a)).unwrap();
        let si = s.basic(addr(a)).unwrap();
        mlog[a].push(format!("basic ; {}", model_info(&pi)));
        if show_info(&pi) != show_info(&si) {
            return Some(format!("{what}: account {a}: ParallelState {} vs revm State {}", show_info(&pi), show_info(&si)));
        }
        if let Some(i) = &si {
            if i.code_hash != KECCAK_EMPTY {
                let pc = p.code_by_hash_ref(i.code_hash).map(|c| c.hash_slow()).ok();
                let sc = s.code_by_hash(i.code_hash).map(|c| c.hash_slow()).ok();
                if pc != sc {
                    return Some(format!("{what}: code of account {a}: {pc:?} vs {sc:?}"));
                }
            }
        }
        for k in 0..N_SLOT {
            let pv = p.storage_ref(addr(a), U256::from(k)).unwrap();
            let sv = s.storage(addr(a), U256::from(k)).unwrap();
            mlog[a].push(format!("read {k} ; {pv}"));
            if pv != sv {
                return Some(format!("{what}: slot {k} of account {a}: ParallelState {pv} vs revm State {sv}"));
            }
        }
    }
    None
}

fn compare_transitions(p: &ParallelState<MemDb>, s: &State<revm_database::WrapDatabaseRef<&MemDb>>, what: &str) -> Option<String> {
    // canonical rendering: storage sorted, bytecode by hash
    let render = |v: &revm_database::TransitionAccount| {
        let info = |i: &Option<AccountInfo>| i.as_ref().map(|i| format!("{}:{}:{}:code_attached={}", i.nonce, i.balance, i.code_hash, i.code.is_some()));
        format!(
            "info={:?} status={:?} previous_info={:?} previous_status={:?} storage={:?} storage_was_destroyed={}",
            info(&v.info),
            v.status,
            info(&v.previous_info),
            v.previous_status,
            v.storage.iter().map(|(k, s)| (*k, (s.previous_or_original_value, s.present_value))).collect::<BTreeMap<_, _>>(),
            v.storage_was_destroyed
        )
    };
    let pt = p.transition_state.as_ref().map(|t| t.transitions.iter().map(|(k, v)| (*k, render(v))).collect::<BTreeMap<_, _>>());
    let st = s.transition_state.as_ref().map(|t| t.transitions.iter().map(|(k, v)| (*k, render(v))).collect::<BTreeMap<_, _>>());
    if pt != st {
        let (pt, st) = (pt.unwrap_or_default(), st.unwrap_or_default());
        for k in pt.keys().chain(st.keys()) {
            if pt.get(k) != st.get(k) {
                return Some(format!("{what}: pending transition of {k:#x}: ParallelState {:?} vs revm State {:?}", pt.get(k), st.get(k)));
            }
        }
    }
    None
}

fn compare_reverts(a: &revm_database::BundleState, b: &revm_database::BundleState) -> Option<String> {
    let norm = |x: &revm_database::BundleState| -> Vec<BTreeMap<Address, String>> {
        x.reverts.iter().map(|blk| blk.iter().map(|(a, r)| (*a, format!("{:?} {:?} {:?} wipe={:?}", r.account, r.previous_status, r.storage.iter().collect::<BTreeMap<_, _>>(), r.wipe_storage))).collect()).collect()
    };
    let (na, nb) = (norm(a), norm(b));
    if na != nb {
        return Some(format!("reverts differ: ParallelState {na:?} vs revm State {nb:?}"));
    }
    None
}

fn history_case(rng: &mut Rng, hist: &mut BTreeMap<&'static str, u64>, mlog: &mut Vec<Vec<String>>) -> (Vec<String>, Option<String>) {
    let db = gen_db(rng);
    let mut log: Vec<String> = Vec::new();
    // per account: the session of the Lean account-status machine (Model/AcctState)
    *mlog = (0..N_ADDR)
        .map(|a| {
            let acc = db.accounts.get(&addr(a));
            let slots = (0..N_SLOT).map(|k| acc.and_then(|x| x.storage.get(&U256::from(k)).copied()).unwrap_or_default().to_string()).collect::<Vec<_>>().join(" ");
            vec!["acct".to_owned(), format!("db {} {}", model_info(&acc.map(|x| x.info.clone())), slots)]
        })
        .collect();
    let idx_of = |x: &Address| (0..N_ADDR).find(|a| addr(*a) == *x).unwrap();
    let with_bundle = true;
    let mut p = ParallelState::new(db.clone(), with_bundle, false);
    let mut s = StateBuilder::new().with_bundle_update().with_database_ref(&db).build();
    let blocks = 1 + rng.below(3);
    let accumulate = rng.chance(1, 2);
    let parallel_take = rng.chance(1, 2);
    let handoff_reverts = rng.chance(1, 2);
    log.push(format!("blocks={blocks} accumulate_bundle={accumulate} parallel_take_bundle={parallel_take} handoff_reverts={handoff_reverts}"));
    for blk in 0..blocks {
        let n_ops = 1 + rng.below(6);
        for op in 0..n_ops {
            let what = format!("block {blk} op {op}");
            match rng.below(10) {
                0 => {
                    // documented precondition of increment_balances: non-zero amounts; callers
                    // (alloy-evm's withdrawals) pass a map, i.e. distinct addresses
                    let incs: BTreeMap<Address, u128> = (0..1 + rng.below(2)).map(|_| (addr(rng.below(N_ADDR)), 1 + rng.below(3) as u128)).collect();
                    let incs: Vec<(Address, u128)> = incs.into_iter().collect();
                    log.push(format!("{what}: increment_balances {incs:?}"));
                    *hist.entry("increment").or_default() += 1;
                    p.increment_balances(incs.clone()).unwrap();
                    s.increment_balances(incs.clone()).unwrap();
                    for (x, amt) in &incs {
                        let a = idx_of(x);
                        mlog[a].push(format!("inc {amt} ; {}", model_entries(&p, &s, a)));
                    }
                }
                1 => {
                    let who: Vec<Address> = (0..1 + rng.below(2)).map(|_| addr(rng.below(N_ADDR))).collect();
                    let who: Vec<Address> = who.into_iter().collect::<std::collections::BTreeSet<_>>().into_iter().collect();
                    log.push(format!("{what}: drain_balances {who:?}"));
                    *hist.entry("drain").or_default() += 1;
                    let pd = p.drain_balances(who.clone()).unwrap();
                    let sd = s.drain_balances(who.clone()).unwrap();
                    for (x, amt) in who.iter().zip(pd.iter()) {
                        let a = idx_of(x);
                        mlog[a].push(format!("drain {amt} ; {}", model_entries(&p, &s, a)));
                    }
                    if pd != sd {
                        return (log, Some(format!("{what}: drained amounts differ: {pd:?} vs {sd:?}")));
                    }
                }
                _ => {
                    let mut changes = EvmState::default();
                    let mut desc = Vec::new();
                    let mut chosen = std::collections::BTreeSet::new();
                    for _ in 0..1 + rng.below(2) {
                        chosen.insert(rng.below(N_ADDR));
                    }
                    for a in chosen {
                        // both sides load the account first, as execution does
                        let pre = s.basic(addr(a)).unwrap();
                        let ppre = p.basic_ref(addr(a)).unwrap();
                        mlog[a].push(format!("basic ; {}", model_info(&ppre)));
                        let cur: Vec<U256> = (0..N_SLOT).map(|k| s.storage(addr(a), U256::from(k)).unwrap()).collect();
                        for (k, v) in cur.iter().enumerate() {
                            mlog[a].push(format!("sread {k} ; {v}"));
                        }
                        let (account, label) = gen_change(rng, &pre, |k| cur[k]);
                        *hist.entry(label).or_default() += 1;
                        desc.push(format!("{a}:{label}:{}:{:?}", show_info(&Some(account.info.clone())), account.changed_storage_slots().map(|(k, v)| (*k, v.present_value)).collect::<BTreeMap<_, _>>()));
                        changes.insert(addr(a), account);
                    }
                    log.push(format!("{what}: commit {desc:?}"));
                    p.commit(changes.clone());
                    s.commit(changes.clone());
                    for (x, account) in changes.iter() {
                        let a = idx_of(x);
                        mlog[a].push(format!("{} ; {}", model_commit_op(account), model_entries(&p, &s, a)));
                    }
                }
            }
            if let Some(d) = compare_transitions(&p, &s, &what) {
                return (log, Some(d));
            }
            if rng.chance(1, 3) {
                if let Some(d) = compare_reads(&mut p, &mut s, &what, mlog) {
                    return (log, Some(d));
                }
            }
        }
        let reverts = rng.chance(1, 2);
        let retention = || if reverts { BundleRetention::Reverts } else { BundleRetention::PlainState };
        log.push(format!("block {blk}: merge_transitions({:?})", retention()));
        let last = blk + 1 == blocks;
        if accumulate && !last {
            // the bundle is carried into the next block (pre-populated bundle)
            p.merge_transitions(retention());
            s.merge_transitions(retention());
            if handoff_reverts {
                // as a caller persisting changesets does: the reverts leave, the state stays
                log.push(format!("block {blk}: take_all_reverts"));
                *hist.entry("reverts-handed-off").or_default() += 1;
                let pr = p.bundle_state.take_all_reverts();
                let sr = s.bundle_state.take_all_reverts();
                if format!("{:?}", pr.len()) != format!("{:?}", sr.len()) {
                    return (log, Some(format!("block {blk}: taken reverts differ in length")));
                }
            }
        } else if parallel_take {
            if accumulate {
                *hist.entry("parallel-take-on-prepopulated-bundle").or_default() += 1;
            }
            let pb = p.parallel_take_bundle(retention());
            s.merge_transitions(retention());
            let sb = s.take_bundle();
            if let Some(d) = compare_bundles(&sb, &pb).or_else(|| compare_reverts(&pb, &sb)) {
                return (log, Some(format!("block {blk}: parallel_take_bundle: {d}")));
            }
        } else {
            p.merge_transitions(retention());
            s.merge_transitions(retention());
            let pb = p.take_bundle();
            let sb = s.take_bundle();
            if let Some(d) = compare_bundles(&sb, &pb).or_else(|| compare_reverts(&pb, &sb)) {
                return (log, Some(format!("block {blk}: take_bundle: {d}")));
            }
        }
        if let Some(d) = compare_reads(&mut p, &mut s, &format!("after block {blk}"), mlog) {
            return (log, Some(d));
        }
    }
    (log, None)
}

pub fn cmd_cache_history(args: &Args) -> J {
    let seed = args.num("seed", 1);
    let cases = args.num("cases", 1000);
    let mut rng = Rng::new(seed ^ 0xcac4e);
    let mut hist = BTreeMap::new();
    let mut divergences = Vec::new();
    let mut ok = 0usize;
    let mut distinct = std::collections::BTreeSet::new();
    let mut samples = Vec::new();
    let gmodel = args.str("gmodel", "/verif/lean/.lake/build/bin/gmodel");
    let mut session = String::new();
    let mut session_of: Vec<(u64, usize, Vec<String>)> = Vec::new();
    let mut model_ops = 0usize;
    // replay every account's operations through the Lean account-status machine (both sides);
    // in batches, so that a thorough-size run does not build one multi-gigabyte session
    let mut model_ok = 0usize;
    let mut n_sessions = 0usize;
    let mut flush = |session: &mut String, session_of: &mut Vec<(u64, usize, Vec<String>)>, divergences: &mut Vec<J>| {
        if session_of.is_empty() {
            return;
        }
        n_sessions += session_of.len();
        match crate::lean::run_gmodel(&gmodel, session) {
            Ok(lines) => {
                if lines.len() != session_of.len() {
                    divergences.push(J::obj(vec![("kind", J::s("correspondence")), ("detail", J::s(format!("acct sessions: {} answers for {} sessions", lines.len(), session_of.len())))]));
                }
                for (line, (case, a, ops)) in lines.iter().zip(session_of.iter()) {
                    if line.starts_with("ok ") {
                        model_ok += 1;
                    } else if divergences.len() < 8 {
                        divergences.push(J::obj(vec![
                            ("kind", J::s("correspondence")),
                            ("detail", J::s(format!("cache history case {case} account {a}: Lean account-status machine (Model/AcctState): {line}"))),
                            ("history", J::Arr(ops.iter().map(|l| J::s(l.clone())).collect())),
                        ]));
                    }
                }
            }
            Err(e) => divergences.push(J::obj(vec![("kind", J::s("correspondence")), ("detail", J::s(format!("gmodel: {e}")))])),
        }
        session.clear();
        session_of.clear();
    };
    for case in 0..cases {
        if case % 2000 == 0 {
            flush(&mut session, &mut session_of, &mut divergences);
        }
        let mut mlog: Vec<Vec<String>> = Vec::new();
        let (log, verdict) = history_case(&mut rng, &mut hist, &mut mlog);
        for (a, lines) in mlog.into_iter().enumerate() {
            model_ops += lines.len().saturating_sub(2);
            session.push_str(&lines.join("\n"));
            session.push_str("\nend\n");
            session_of.push((case, a, lines));
        }
        distinct.insert(log.join("|"));
        if samples.len() < 2 {
            samples.push(J::Arr(log.iter().map(|l| J::s(l.clone())).collect()));
        }
        match verdict {
            None => ok += 1,
            Some(d) => {
                if divergences.len() < 5 {
                    divergences.push(J::obj(vec![
                        ("kind", J::s("oracle")),
                        ("detail", J::s(format!("cache history case {case}: {d}"))),
                        ("history", J::Arr(log.iter().map(|l| J::s(l.clone())).collect())),
                    ]));
                }
            }
        }
    }
    flush(&mut session, &mut session_of, &mut divergences);
    drop(flush);
    J::obj(vec![
        ("check", J::s("cache-history (ParallelState vs revm State: transitions, reads, bundles, reverts; every account's operations replayed through the Lean account-status machine G.step / S.step)")),
        ("acct_sessions", J::n(n_sessions)),
        ("acct_sessions_conforming", J::n(model_ok)),
        ("acct_model_operations", J::n(model_ops)),
        ("seed", J::n(seed as usize)),
        ("cases", J::n(cases as usize)),
        ("conforming", J::n(ok)),
        ("distinct_nontrivial", J::n(distinct.len())),
        ("histogram", J::Obj(hist.into_iter().map(|(k, v)| (k.to_owned(), J::n(v as usize))).collect())),
        ("divergences", J::Arr(divergences)),
        ("samples", J::Arr(samples)),
    ])
}

/// One race scenario on account 0. Returns (description, oracle verdict, stall, model session).
fn race_case(rng: &mut Rng, strategy: Strategy, sname: &str, seed: u64, f1_shape: bool) -> (String, Option<String>, Option<String>, String) {
    let mut db = gen_db(rng);
    if f1_shape {
        // account 0: a contract with storage, as in F1
        let mut i = info(1, 5, 1);
        i.code = None;
        db.accounts.insert(addr(0), MemAccount { info: i, storage: (0..N_SLOT).map(|k| (U256::from(k), U256::from(40 + k))).collect() });
    }
    let mut p = ParallelState::new(db.clone(), true, false);
    let mut s = StateBuilder::new().with_bundle_update().with_database_ref(&db).build();
    let known = |s: &State<revm_database::WrapDatabaseRef<&MemDb>>| {
        s.cache.accounts.get(&addr(0)).is_some_and(|a| a.status.is_storage_known() || a.account.is_none())
    };
    let _ = s.basic(addr(0)).unwrap();
    let _ = p.basic_ref(addr(0)).unwrap();
    let mut session = format!(
        "cache {} {} {}\n",
        grevm::verif::rt::fnv(addr(0).as_slice()),
        known(&s) as u8,
        (0..N_SLOT).map(|k| db.accounts.get(&addr(0)).and_then(|a| a.storage.get(&U256::from(k)).copied()).unwrap_or_default().to_string()).collect::<Vec<_>>().join(" ")
    );
    let n_commits = if f1_shape { 1 } else { 1 + rng.below(3) };
    let mut changes_list = Vec::new();
    let mut desc = Vec::new();
    for c in 0..n_commits {
        let mut changes = EvmState::default();
        let pre = s.basic(addr(0)).unwrap();
        let cur: Vec<U256> = (0..N_SLOT).map(|k| s.storage(addr(0), U256::from(k)).unwrap()).collect();
        let (account, label) = if f1_shape {
            let mut acc = Account::default().with_info(AccountInfo { balance: U256::ZERO, ..pre.clone().unwrap() });
            acc.status = AccountStatus::Touched | AccountStatus::SelfDestructed;
            (acc, "selfdestruct")
        } else {
            gen_change(rng, &pre, |k| cur[k])
        };
        desc.push(format!("commit {c}: {label} {:?}", account.changed_storage_slots().map(|(k, v)| (k.to::<u64>(), v.present_value.to::<u64>())).collect::<BTreeMap<_, _>>()));
        let kind = if account.is_selfdestructed() {
            "D"
        } else if account.is_created() {
            "C"
        } else if account.is_empty() {
            // a touched empty account is cleared; for an absent account that is the same as a
            // destruction of nothing (status stays storage-known, slots cleared)
            "D"
        } else {
            "U"
        };
        let vals: Vec<String> = (0..N_SLOT)
            .map(|k| match account.storage.get(&U256::from(k)) {
                Some(slot) if slot.is_changed() && (kind == "C" || kind == "U") => slot.present_value.to_string(),
                _ => "-".to_owned(),
            })
            .collect();
        let before = known(&s);
        changes.insert(addr(0), account);
        s.commit(changes.clone());
        let after = known(&s);
        session.push_str(&format!("commit {kind} {} {}\n", (!before && after) as u8, vals.join(" ")));
        changes_list.push(changes);
    }
    // ParallelState's storage cache is still cold for every slot, as for a worker that has not
    // touched the account yet (only the account itself was loaded, as execution does).
    let reads: Vec<(Address, U256)> = if f1_shape {
        vec![(addr(0), U256::ZERO)]
    } else {
        (0..1 + rng.below(3)).map(|_| (addr(0), U256::from(rng.below(N_SLOT)))).collect()
    };
    desc.push(format!("readers of slots {:?}", reads.iter().map(|(_, k)| k.to::<u64>()).collect::<Vec<_>>()));
    let ctrl = Ctrl::new(strategy, seed, reads.len() + 1);
    ctrl.install();
    let seen = cache_race(&mut p, &reads, changes_list);
    let report = ctrl.finish();
    for l in crate::kernels::trace_lines(&report) {
        // a touched-empty commit of an absent account takes the clearing path without a change
        session.push_str(&l);
        session.push('\n');
    }
    // returned values per slot (readers of one slot are interchangeable)
    for k in 0..N_SLOT {
        let mut vals: Vec<u64> = reads.iter().zip(seen.iter()).filter(|((_, slot), _)| slot.to::<usize>() == k).map(|(_, v)| v.to::<u64>()).collect();
        if !vals.is_empty() {
            vals.sort();
            session.push_str(&format!("rs {k} {}\n", vals.iter().map(|v| v.to_string()).collect::<Vec<_>>().join(" ")));
        }
    }
    session.push_str(&format!(
        "final {}\n",
        (0..N_SLOT).map(|k| p.storage_ref(addr(0), U256::from(k)).unwrap().to_string()).collect::<Vec<_>>().join(" ")
    ));
    session.push_str("end\n");
    let description = format!("{sname} schedule; {}", desc.join("; "));
    let verdict = compare_reads(&mut p, &mut s, "after the race", &mut vec![Vec::new(); N_ADDR]);
    (description, verdict, report.stall, session)
}

/// Account-fill race: the account is NOT cached; readers load it through the worker view (database
/// fetch, then publication of the fetched entry) while the commit thread applies changes to it.
/// A reader may return any committed prefix value (it is validated later); what the state serves
/// afterwards must be what revm's `State` serves after the same commits: a late publication of the
/// fetched pre-block entry must not replace the committed one.
fn race_accounts_case(rng: &mut Rng, strategy: Strategy, sname: &str, seed: u64) -> (String, Option<String>, Option<String>) {
    let db = gen_db(rng);
    let mut p = ParallelState::new(db.clone(), true, false);
    let mut s = StateBuilder::new().with_bundle_update().with_database_ref(&db).build();
    let mut prefix_values = vec![show_info(&s.basic(addr(0)).unwrap())];
    let n_commits = 1 + rng.below(3);
    let mut changes_list = Vec::new();
    let mut desc = Vec::new();
    for c in 0..n_commits {
        let mut changes = EvmState::default();
        let pre = s.basic(addr(0)).unwrap();
        let cur: Vec<U256> = (0..N_SLOT).map(|k| s.storage(addr(0), U256::from(k)).unwrap()).collect();
        let (account, label) = gen_change(rng, &pre, |k| cur[k]);
        desc.push(format!("commit {c}: {label}"));
        changes.insert(addr(0), account);
        s.commit(changes.clone());
        prefix_values.push(show_info(&s.basic(addr(0)).unwrap()));
        changes_list.push(changes);
    }
    let reads: Vec<Address> = (0..1 + rng.below(3)).map(|_| addr(0)).collect();
    desc.push(format!("{} account readers, cache cold", reads.len()));
    let ctrl = Ctrl::new(strategy, seed, reads.len() + 1);
    ctrl.install();
    let seen = cache_race_accounts(&mut p, &reads, changes_list);
    let report = ctrl.finish();
    let description = format!("{sname} schedule; {}", desc.join("; "));
    let mut verdict = None;
    for (k, v) in seen.iter().enumerate() {
        let shown = show_info(v);
        if !prefix_values.contains(&shown) {
            verdict = Some(format!("account reader {k} returned {shown}, which no committed prefix holds ({prefix_values:?})"));
        }
    }
    let verdict = verdict.or_else(|| compare_reads(&mut p, &mut s, "after the account race", &mut vec![Vec::new(); N_ADDR]));
    (description, verdict, report.stall)
}

pub fn cmd_cache_race(args: &Args) -> J {
    let seed = args.num("seed", 1);
    let cases = args.num("cases", 300);
    let mut rng = Rng::new(seed ^ 0x4ace);
    let mut divergences = Vec::new();
    let mut ok = 0usize;
    let mut distinct = std::collections::BTreeSet::new();
    let mut samples = Vec::new();
    let mut stalls = Vec::new();
    let mut session = String::new();
    let mut descs: Vec<String> = Vec::new();
    let mut account_cases = 0usize;
    let gmodel = args.str("gmodel", "/verif/lean/.lake/build/bin/gmodel");
    let d = |allowed, stop_site, stop_arg0| Directive { allowed, stop_site, stop_arg0 };
    for case in 0..cases {
        // case 0: the F1 witness schedule — the reader is held between its database fetch and its
        // cache insert while the commit thread destroys the account
        let (strategy, sname, f1) = if case % 25 == 0 {
            (
                Strategy::Directed(vec![d(Sel::Role(0, 0), "cache_fill_storage", None), d(Sel::Role(2, 0), "never", None), d(Sel::All, "never", None)]),
                "directed(F1: fetch | destroy | insert)",
                true,
            )
        } else {
            match case % 3 {
                0 => (Strategy::Random, "random", false),
                1 => (Strategy::Pct { d: 1 + rng.below(3), len: 10 + rng.below(30) }, "pct", false),
                _ => (Strategy::Sticky, "sticky", false),
            }
        };
        let cseed = rng.next();
        // every fourth case races ACCOUNT fills instead of storage fills (every 28th under the
        // directed schedule: reader held between its database fetch and the publication of the
        // fetched entry while the commit thread runs to the end)
        let account_case = case % 4 == 3;
        let (desc, verdict, stall) = if account_case {
            let (strategy, sname) = if case % 28 == 3 {
                (
                    Strategy::Directed(vec![d(Sel::Role(0, 0), "cache_fill_basic", None), d(Sel::Role(2, 0), "never", None), d(Sel::All, "never", None)]),
                    "directed(account: fetch | commits | publish)",
                )
            } else {
                (strategy, sname)
            };
            account_cases += 1;
            race_accounts_case(&mut rng, strategy, sname, cseed)
        } else {
            let (desc, verdict, stall, sess) = race_case(&mut rng, strategy, sname, cseed, f1);
            session.push_str(&sess);
            descs.push(desc.clone());
            (desc, verdict, stall)
        };
        distinct.insert(desc.clone());
        if samples.len() < 3 {
            samples.push(J::s(desc.clone()));
        }
        if let Some(st) = stall {
            stalls.push(format!("case {case}: {st}"));
        }
        match verdict {
            None => ok += 1,
            Some(v) => {
                if divergences.len() < 5 {
                    divergences.push(J::obj(vec![
                        ("kind", J::s("oracle")),
                        ("signature", J::obj(vec![("kind", J::s("cache-fill-race")), ("site", J::s(if account_case { "ParallelStateView::db_basic vs apply_account_state" } else { "ParallelStateView::db_storage vs apply_account_state" }))])),
                        ("detail", J::s(format!("cache race case {case} ({desc}): {v}"))),
                        ("seed", J::n(seed as usize)),
                        ("case", J::n(case as usize)),
                    ]));
                }
            }
        }
    }
    // replay every trace through the proven model
    let mut model_ok = 0usize;
    match crate::lean::run_gmodel(&gmodel, &session) {
        Err(e) => divergences.push(J::obj(vec![("kind", J::s("correspondence")), ("detail", J::s(e))])),
        Ok(lines) => {
            for (i, dsc) in descs.iter().enumerate() {
                let l = lines.get(i).map(|s| s.as_str()).unwrap_or("missing");
                if l.starts_with("ok ") {
                    model_ok += 1;
                } else if divergences.len() < 8 {
                    divergences.push(J::obj(vec![
                        ("kind", J::s("correspondence")),
                        ("detail", J::s(format!("cache race case {i} ({dsc}): model says {l}"))),
                        ("case", J::n(i)),
                    ]));
                }
            }
        }
    }
    J::obj(vec![
        ("traces_conforming_to_model", J::n(model_ok)),
        ("account_fill_cases", J::n(account_cases)),
        ("check", J::s("cache-race (worker-view storage and account reads vs ordered commit, controller schedules)")),
        ("seed", J::n(seed as usize)),
        ("cases", J::n(cases as usize)),
        ("conforming", J::n(ok)),
        ("distinct_nontrivial", J::n(distinct.len())),
        ("divergences", J::Arr(divergences)),
        ("stalls", J::Arr(stalls.into_iter().map(J::s).collect())),
        ("samples", J::Arr(samples)),
    ])
}
