"""Per-property configuration of ./check: Lean theorem modules, harness runs, evidence texts."""

COMMON_TRUST = [
    "Lean 4.33 kernel (lake build; leanchecker re-check in the thorough tier)",
    "axioms: at most propext, Classical.choice, Quot.sound (audited with #print axioms on every property theorem); no sorry/admit/native_decide/bv_decide/own axioms",
    "hand-written Lean model of the named code, tied to /repo's working tree by the correspondence runs listed under coverage.correspondence (differential testing: bounded by the generators)",
    "the verif-hooks schedule points (one hook = one model step) and the harness controller that serialises the real threads",
    "sequential consistency per atomic operation / mutex region (x86 host; weak-memory reorderings are not exhibited by the harness)",
]

KERNEL_TIMEOUT = 1800

E2E_TRUST = COMMON_TRUST + [
    "the in-order oracle: stock revm (revm_database::State + mainnet EVM via alloy EthEvm) run one transaction at a time on the same pre-state, skipping invalid transactions, in harness/src/world.rs",
    "revm/alloy-evm as a deterministic black box: a transaction is modelled as a deterministic program over database reads (Model/Block.lean); revm's interpreter, journal and handler are not modelled",
]

def e2e(families, quick_cases, thorough_cases, configs="w2,w3", schedules=2, label=None, extra=None):
    q = {"families": families, "cases": quick_cases, "configs": configs, "schedules": schedules}
    t = {"families": families, "cases": thorough_cases, "configs": configs, "schedules": schedules + 2, "max-txs": 14}
    if label:
        q["label"] = label
        t["label"] = label
    if extra:
        q.update(extra)
        t.update(extra)
    return {"sub": "e2e", "quick": q, "thorough": t, "timeout": 7000}

E2E_RULE = ("blocks are generated from a typed mini-language (families: mixed transfers/data-dependent storage/beneficiary roles; lifecycle selfdestruct/EIP-161/recreate; code deploy + EIP-7702 set/re-point/clear; invalid transactions of every kind with in-block-dependent validity, incl. transactions with two defects whose reported reason must be the one revm tests first; custom precompiles incl. a vault on a codeless account that is stored into, emptied (EIP-161) and read back; fee recipients that are destroyed and re-created in the block), 2-10 txs on few accounts so that conflicts are forced, specs Frontier..Osaka; "
            "each block runs free (OS scheduling) and under seeded controller schedules (random / PCT / sticky) per configuration; oracle = in-order stock revm; compared: every outcome, status, full bundle (state, original values, statuses, contracts, reverts, size accounting) and every applied commit (result + state changes) against the in-order transaction; distinct = distinct (spec, tx list); non-trivial = all (>= 2 txs touching shared accounts)")

WITNESS = {"sub": "witness", "quick": {}, "thorough": {}, "timeout": 600}
SCHED_CONF = {"sub": "sched-conf", "quick": {"cases": 60, "schedules": 3}, "thorough": {"cases": 2500, "schedules": 4, "max-txs": 10}, "timeout": 7000}
SCHED_CONF_RULE = ("; sched-conformance: blocks of the conformance family (transfers + data-dependent storage contracts, non-zero fees so that the beneficiary is never read) run on the real scheduler under seeded controller schedules with 2-3 workers; the totally ordered hook-event trace is replayed through the PROVEN step function of Model/Sched.lean: each event must be an enabled model action and every observed value (read version and value, estimate/blocked/new-location flags, validation verdict, rewind and validation timestamps, finality lower bound, commit order) must equal the model's; each transaction's program is reconstructed from the observed incarnations (equal values read => equal behaviour, else reported)")

REPR = {"sub": "repr", "quick": {"cases": 3000}, "thorough": {"cases": 150000}, "timeout": 3000}
REPR_RULE = ("repr-differential: blocks of 1-7 finalized journal states over 3 accounts x 3 slots x 5 code ids (selfdestruct, CREATE over absent/destroyed/balance-only accounts with constructor storage, transfers, nonce bumps, EIP-7702 set/re-point/clear, SSTOREs with the original value read first, EIP-161 empty touches, backing store with and without storage) are published through the real IncarnationDb::publish_writes and committed to stock revm's State; before every publication and after the block, accounts, code and slots are read through the real IncarnationDb as a later transaction does; each read must equal revm State's (oracle) and the Lean model's physical read (readStorage/readBasic/readCode over mvOf..skipReal codeChangedReal) and logical value; the published MV entries must equal the model's entry by entry; FinalizedAccount::from vs classify on every generated flag combination; distinct = distinct sessions with >= 2 changes; ")

PROPS = {
    "C01": {
        "harness": [e2e("mixed,lifecycle,code,invalid,precompile", 250, 3000), SCHED_CONF, REPR, WITNESS],
        "rule": E2E_RULE + SCHED_CONF_RULE + "; " + REPR_RULE,
        "trusted_base": E2E_TRUST,
        "modelled": ["a transaction as a deterministic interaction tree over reads (Model/Block.lean); in-order semantics `ideal`; multi-version read resolution `view`"],
        "assumptions": ["monitored: an incarnation's result is a function of the values returned to it (determinism of revm)"],
        "lean_modules": ["Props.C01", "Props.C02"],
        "partial": ["the composition with the representation layer (physical locations vs. revm's logical state, C08/C09) and the cache/bundle layer (C10) is by the end-to-end oracle, not by a single Lean theorem"],
        "explanation": "Static core validated_reads_imply_in_order / outcomes_in_order (Props/C01) + the pipeline theorems of Props/C02 (execute_ok: when the block is committed the outcome list is the in-order list, for every block, worker count and interleaving); tied to the code by end-to-end comparison with stock revm under controller schedules.",
    },
    "C02": {
        "lean_modules": ["Props.C02"],
        "harness": [e2e("mixed,lifecycle,code,invalid,precompile", 100, 3000, label="per-commit-oracle"), SCHED_CONF, WITNESS],
        "rule": E2E_RULE + SCHED_CONF_RULE + "; for C02 the decisive comparison is per commit: every applied commit event (txid, result, finalized state changes) must be the next index, exactly once, and equal the in-order result and state of that transaction",
        "trusted_base": E2E_TRUST,
        "modelled": ["execute_task / validate / mark_mv_estimate / rewind_validation_to / lock_finality_candidate / run_commit_loop of src/scheduler.rs and src/scheduler/context.rs as Model/Sched.lean: one action per shared-memory access, worker control state attached to the transaction it holds the lock of (any number of workers)", "choice of which transaction a worker claims, and the vcur pre-filter of finality, are over-approximated (arbitrary / dropped)", "beneficiary history reads are not part of this model (C07)"],
        "assumptions": ["a read that misses the MV memory reads the committed cache in a LATER step (action execFetch): it returns the value of the latest committed writer below the commit cursor at that moment, or the block-start value (modelled; exercised: such racing reads occur about once per 10,000 traces)", "determinism of a transaction as a function of the values it reads"],
        "explanation": "Theorems finalized_exact, commit_prefix, commit_once, finality_is_final, stale_validation_never_final, execute_ok over ALL reachable states of the pipeline model (any block, any number of workers, any interleaving), proved by five inductive invariant groups incl. the timestamp invariant I1'.",
    },
    "C03": {
        "lean_modules": ["Props.C03"],
        "harness": [
            e2e("invalid,code,mixed", 90, 3000, label="invalid-heavy"),
            {"sub": "commit-gate", "quick": {"cases": 3000}, "thorough": {"cases": 100000}, "timeout": 3000},
            WITNESS,
        ],
        "rule": "witness: a wrong-nonce (otherwise valid) transaction whose speculative attempt is held until the transaction before it is committed, so that it ENDS as the commit head (directed schedule attempt-ends-at-commit-head): the commit-time gate must still reject it; commit-gate: (nonce check on/off, transaction nonce, committed sender nonce) with both nonces drawn from {0..5, u64::MAX-1, u64::MAX}: the real OrderedCommitter::commit on a ParallelState whose sender has that nonce (Committed / NeedsSequentialFallback) vs stock revm's validation of the same transaction on the same state (accepted / NonceTooHigh / NonceTooLow / NonceOverflow) vs the Lean nonceGate and nonceInvalid; " + E2E_RULE,
        "trusted_base": E2E_TRUST,
        "modelled": ["OrderedCommitter::commit nonce gate", "execute_sequential_suffix classification", "error branch of execute_task for invalid transactions"],
        "assumptions": ["revm's transaction validation = nonce check AND nonce-independent rest (hypothesis hdecomp of gate_equiv; exercised by the differential runs)"],
        "explanation": "Theorems nonce_gate, gate_iff_valid (the gate passes exactly when in-order nonce validation accepts, for every transaction that can have a speculative result), nonce_max_always_invalid, nonce_check_off, gate_equiv, replay_no_error, replay_pointwise, invalid_never_fatal on the decision logic; the gate and the reason classification are compared with the real committer and with revm's validation; blocks with every invalid kind (incl. nonce overflow) at random positions against the in-order oracle (reason values compared structurally).",
    },
    "C04": {
        "lean_modules": ["Props.C04"],
        "harness": [
            {"sub": "faults", "quick": {"cases": 40}, "thorough": {"cases": 400, "max-txs": 9}, "timeout": 7000},
            WITNESS,
        ],
        "rule": "for each generated block: every database key touched by the in-order run, by a speculative grevm run or by grevm's sequential path x {persistent, fail-once} is injected into the pre-state database; each fault point runs on the parallel path (free and under a random controller schedule) and on the sequential path (force_sequential); oracle = in-order revm on the same faulty database with the fee recipient loaded up front; persistent: equal status/outcomes/bundle (or the fault is avoided and the fault-free result is produced); fail-once: absorbed (fault-free result) or reported as that fault with the exact in-order prefix of outcomes and state; plus the deterministic witnesses F2/F5 under directed schedules and F8 (fee-recipient fault on the three sequential entry paths and the parallel path)",
        "trusted_base": E2E_TRUST,
        "modelled": ["post_execute abort-reason mapping", "execute_sequential_suffix prefix preservation", "error branch of execute_task"],
        "assumptions": ["fault injection wraps DatabaseRef of the pre-state only"],
        "partial": ["error_branch_start_partial: the decision logic; that an attempt started at the commit head reads only final state is the pipeline theorem (C02)"],
        "explanation": "Theorems replay_error_prefix, post_execute_returns, error_branch_start_partial, head_attempt_is_in_order, fatal_only_if_in_order_fatal (a fatal abort is raised only when in-order execution of that transaction is fatal), f7_unchecked_head_attempt_violates; fault enumeration against the oracle; findings F2, F4, F5, F7, F8 repaired (F2/F5/F8 witnesses run every time).",
    },
    "C05": {
        "lean_modules": ["Props.C05", "Props.C16", "Props.C17", "Props.C15"],
        "harness": [
            e2e("mixed,invalid,lifecycle,code,precompile,conf,delegated", 140, 6000, configs="w1,w2,w3,fallback", schedules=4, label="termination"),
            {"sub": "panics", "quick": {"cases": 10}, "thorough": {"cases": 400, "max-keys": 12}, "timeout": 7000},
            {"sub": "panics", "quick": {"cases": 12, "families": "invalid", "max-keys": 8}, "thorough": {"cases": 300, "families": "invalid", "max-keys": 12}, "timeout": 7000},
            {"sub": "kernel-wait", "quick": {"cases": 300}, "thorough": {"cases": 20000}, "timeout": KERNEL_TIMEOUT},
            {"sub": "kernel-dep", "quick": {"cases": 300}, "thorough": {"cases": 20000}, "timeout": KERNEL_TIMEOUT},
        ],
        "rule": "termination: every generated block (all families incl. invalid transactions whose validity depends on earlier ones — errors parked behind the commit boundary —, fatal precompile errors, mid-block replay, delegated-safety policies) runs on the real scheduler with 1-3 workers + finality + commit thread, free and under seeded random / PCT / sticky controller schedules in which park/unpark are emulated by the token contract and NO stall timer exists: a state in which no enrolled thread can run is a deadlock, 60000 consecutive idle (spin / recheck) steps or 400000 steps are a livelock, both reported with the schedule; a run that does not return within 60-90 s trips the process watchdog; the result must also equal the in-order oracle; panics: for every database key a block touches, a database that panics on that key — persistently, and only once —: execute() must return by unwinding with the ORIGINAL panic whenever the database panicked inside the scheduler (counted in the database itself), every scheduler thread must leave, no stall; a second run over blocks with invalid transactions combines panics with recorded aborts (sequential fallback, fatal errors); kernel-wait / kernel-dep: trace conformance of WaitSlot and TxDependency with their proven models (a waiter or a parked transaction left behind is a stall); " + E2E_RULE,
        "trusted_base": E2E_TRUST,
        "modelled": ["the pipeline (Model/Sched.lean), the dependency graph (Model/TxDep.lean), the validation cursor (Model/Cursor.lean) and the wait slot (Model/WaitSlot.lean) as for C02, C16, C15, C17", "which transaction a worker claims is left to the scheduler of the pipeline model (arbitrary), so fair termination is not expressible there"],
        "assumptions": ["threads are scheduled fairly by the OS (the controller's fairness valve plays that role)", "user code (database, precompiles) returns or panics"],
        "partial": ["fair termination (absence of livelock) and the composition of the four component theorems are NOT one theorem: the models prove that no reachable state is stuck (progress, head_progress), that no dependency edge, claimable transaction, validation index or wake-up is lost (C16, C15, C17); that the real scheduler terminates under every fair schedule is decided by the bounded controller exploration with deadlock / livelock detection, not by proof", "joins / panic propagation (CancelOnPanic guards) are exercised by panic injection only"],
        "explanation": "Theorems progress and head_progress (Props/C05): in every reachable state of the pipeline model with an uncommitted transaction some action is enabled, and one can be chosen at the commit head (commit, or a step of / claim on transaction fin); with claimable_covered, claimable_quiescent, edge_covered, stale_edge_harmless (C16), no_skip, rewind_reoffers (C15), no_lost_wakeup, wakeup_within_two_steps (C17). Tied to the code by running the real threads under a deterministic controller that knows which threads are runnable.",
    },
    "C06": {
        "lean_modules": ["Props.C06"],
        "harness": [
            e2e("mixed,lifecycle,code,invalid,precompile", 200, 3000, configs="w1,w2,w4,seq,fallback,minpar,mineq", schedules=1, label="config-matrix"),
            e2e("delegated", 150, 3000, configs="w1,w2,w4,seq,fallback,minpar,mineq", schedules=1, label="policy-config-matrix"),
            {"sub": "reserve", "quick": {"cases": 2000}, "thorough": {"cases": 50000}, "timeout": 3000},
        ],
        "rule": E2E_RULE + "; configurations: workers 1,2,4; min_parallel_txs 0, n, n+1; force_sequential; fallback_sequential() entry point — all compared with the same in-order oracle result; policy-config-matrix: the delegated family with the CREATE guard / balance reserve on and off under the same configurations (reserve-on blocks: reference = the sequential path, every parallel configuration and schedule must equal it); reserve-differential: the shared ReservePlanner answers (txid, address) queries issued in random order with repetitions exactly as the pure function Model/Reserve.requiredAfter does — an answer that depends on which queries came before (i.e. on the speculative execution order) is a disagreement",
        "trusted_base": E2E_TRUST,
        "modelled": ["path selection in parallel_execute_inner"],
        "assumptions": ["both paths compute the in-order result (C01-C04)"],
        "explanation": "Theorems path_select, config_independent, replay_append, replay_length, suffix_replay_is_sequential (the committed prefix of a parallel run followed by the sequential replay of the suffix is the sequential replay of the whole block, an error being reported at its GLOBAL index); every generated block is executed under 7 configurations and 2 entry points and all results are compared with one oracle result.",
    },
    "C07": {
        "lean_modules": ["Props.C07"],
        "harness": [
            {"sub": "history", "quick": {"cases": 1500}, "thorough": {"cases": 60000}, "timeout": 3000},
            {"sub": "reward", "quick": {"cases": 5000}, "thorough": {"cases": 200000}, "timeout": 3000},
            e2e("mixed,precompile,lifecycle", 90, 1500, label="beneficiary-roles"),
        ],
        "rule": "history: random op sequences (record reward/unchanged/snapshot/estimate, invalidate, resolve, validate of remembered chains; incarnations 0..3 so stale ones occur) on the real BeneficiaryHistory vs Model/History.lean, result by result; reward: (spec, fees, gas, reservoir) tuples: grevm from_gas vs revm reward_beneficiary vs Lean rewardAmount; e2e: beneficiary absent / EOA / near-overflow / contract with storage / sender / a contract destroyed (and re-created) in the block while later transactions keep paying it, zero and non-zero priority fees",
        "trusted_base": E2E_TRUST,
        "modelled": ["BeneficiaryHistory record/invalidate/scan_before/resolve/validate", "DeferredBeneficiaryReward::apply_to", "BeneficiaryReward::from_gas and the defer decision"],
        "assumptions": ["fee-disabled mode (optional_fee_charge feature) is not generated"],
        "explanation": "Theorems scan_fold, validate_sound (over all op histories), evolves_ops, record_guard, invalidate_guard, defer_iff, reward_formula, applyReward_spec, commit_fold.",
    },
    "C08": {
        "lean_modules": ["Props.C08"],
        "harness": [REPR, e2e("lifecycle,mixed", 60, 2000, label="lifecycle")],
        "rule": REPR_RULE + E2E_RULE,
        "trusted_base": E2E_TRUST,
        "modelled": ["FinalizedAccount::from (src/account.rs)", "IncarnationDb::publish_writes, basic, storage (src/incarnation_db.rs) as Model/Repr.lean: Basic / StorageReset / Storage / Code entries per transaction, latest-preceding-version reads with the reset-vs-slot comparison", "revm State's account/storage lifecycle (CacheState::apply_account_state) as `commitL`: destroy clears storage, create resets it to the constructor's slots, update overwrites changed slots"],
        "assumptions": ["ClearBumps (hypothesis of repr_basic_real): revm never turns non-empty code into empty code while nonce and balance both stay equal (SELFDESTRUCT deletes, EIP-7702 clearing bumps the nonce, CREATE over code is a collision); the generators respect it and the e2e oracle would expose a violation", "an account without nonce and code has no storage in the backing store (relied on by revm's State itself)", "each transaction reads an account before changing it (revm's journal always does), so the snapshot the publication compares against is the in-order pre-state (by validation, C02)"],
        "explanation": "Theorems repr_storage (unconditional), repr_basic / repr_basic_real, deleted_then_zero, created_then_only_own_slots, updated_keeps_storage, classify_spec: for every block and every interleaving of destroy / create / update per account, a physical read through the representation equals the logical state of in-order execution; tied to the code by the three-way repr differential and the lifecycle e2e family.",
    },
    "C09": {
        "lean_modules": ["Props.C09"],
        "harness": [REPR, e2e("code,mixed", 60, 2000, label="code")],
        "rule": REPR_RULE + E2E_RULE,
        "trusted_base": E2E_TRUST,
        "modelled": ["the code_changed decision and the Code / Basic publication of IncarnationDb::publish_writes; code_by_address (latest preceding Code version, else backing code by hash)"],
        "assumptions": ["code identifiers stand for code hashes (collision-free)", "the published info carries the bytecode when the code hash changed (info.code.is_some(): revm attaches it on CREATE and EIP-7702; exercised by e2e)"],
        "explanation": "Theorems code_entry_current, repr_code, repr_code_real (no hypothesis beyond the account being the logical one), codeChangedOk_real, redelegation_keeps_storage: after any sequence of deploy / set / re-point / clear / set-again / delete / recreate, a later transaction resolves exactly the code in-order execution sees, and storage is untouched by re-delegation.",
    },
    "C10": {
        "lean_modules": ["Props.C10", "Props.C08"],
        "harness": [
            {"sub": "cache-history", "quick": {"cases": 1500}, "thorough": {"cases": 100000}, "timeout": 3000},
            {"sub": "cache-race", "quick": {"cases": 1000}, "thorough": {"cases": 60000}, "timeout": 3000},
            e2e("lifecycle,mixed,code", 90, 3000, label="bundle"),
        ],
        "rule": "cache-history: random histories over 4 accounts x 3 slots x 4 codes on one ParallelState and one revm State (same backing store): commits of realistic finalized journal states (selfdestruct incl. created+destroyed, CREATE over absent / destroyed / balance-only accounts with constructor storage, EIP-161 empty touch, updates with SSTOREs whose original value is the current one, code changes), increment_balances (non-zero amounts, distinct addresses: the documented precondition), drain_balances, merge_transitions (Reverts / PlainState), take_bundle or parallel_take_bundle per block or accumulated over 1-3 consecutive blocks on the same state; after EVERY operation the pending transitions are compared (canonical rendering) and the cache entries (status, info) of the touched accounts on BOTH sides are recorded; at the end every account's operation sequence (basic, read, revm-side peeks, sd / create / touch / change with the changed slots, inc, drain) with the observed infos, slot values, drained amounts and cache entries is replayed through the Lean machines G.step (grevm) and S.step (revm) of Model/AcctState.lean - the definitions acct_machine_refines_revm is about: every observation must equal the model's (three-way: real ParallelState / real revm State / Lean); after every third and after every block all accounts, codes and slots readable through the database interface, after every extraction state, contracts, reverts; cache-race (account cases, every fourth): the account is not cached; 1-3 reader threads load it through the worker view (database fetch, hook point cache_fill_basic, publication of the fetched entry) while 1-3 ordered commits change it, under random / PCT / sticky schedules and a directed one (reader held between fetch and publication until all commits are applied); every reader must return the value of some committed prefix, and afterwards all reads must equal revm State's (Lean: account_fill_coherent over all interleavings of publish / commit; blind_publish_violates); cache-race (storage cases): 1-3 reader threads (cache-filling storage_ref through the worker view) against 1-3 ordered commits (destroy / create / empty-touch / update) of one account under random / PCT / sticky controller schedules and the directed F1 schedule (reader held between database fetch and cache insert while the account is destroyed); afterwards all reads must equal revm State's after the same commits, and the totally ordered hook-event trace (cache_read_begin, cache_fill_storage with the status the reader saw, cache_commit_begin, cache_set_status, cache_clear_storage, cache_write_slots) is replayed through the PROVEN Cache.step (one model state per slot): every event must be enabled, the values returned to readers and the values served at the end must equal the model's, and the model's served values its logical ones; e2e (bundle): " + E2E_RULE,
        "trusted_base": E2E_TRUST,
        "modelled": ["ParallelStateView::db_basic (miss, database fetch, insert-if-absent) against commits of the account as Model/AccountFill.lean", "ParallelStateView::db_storage (hit / status read + fetch / guarded insert-if-absent with status re-check) and the order status-update -> storage.remove -> update_storage_slot of ParallelCacheState::apply_account_state as Model/Cache.lean, per (address, slot)", "the account/storage lifecycle (destroy, create, update) as in Model/Repr.lean (commitL)", "the account-status machine, sequentially: CacheAccountInfo::{selfdestruct, newly_created, touch_empty_eip161, change, account_info_change}, the case split and slot-map handling of ParallelCacheState::apply_account_state, db_basic / db_storage / load_mut_cache_account, increment_balance_transitions and ParallelState::drain_balances as the machine G of Model/AcctState.lean; revm's CacheAccount, CacheState::apply_account_state, State::{load_cache_account, storage} and the default DatabaseCommitExt::{increment_balances, drain_balances} as the machine S; AccountStatus::{on_created, on_changed, on_selfdestructed, on_touched_empty_post_eip161, is_storage_known} transcribed for both"],
        "assumptions": ["DashMap shard guards give mutual exclusion between the guarded insert and storage.remove (one critical section = one model action)", "an account without nonce and code has no storage in the backing store (revm's own assumption when it marks such an account in-memory)", "the bundle builder (bundle.rs: transitions -> BundleState, reverts, retention modes) is NOT modelled in Lean: it is decided by the history differential against revm's State only", "acct_machine_refines_revm is about histories on which grevm does not panic (a committed account is cached: execution loads every account it commits) and with non-zero increments (documented precondition; zero_increment_differs shows it is needed); the storage maps of a TransitionAccount (original values) are handed through by both implementations and not modelled"],
        "partial": ["bundle/revert construction from the transitions: differential only (no theorem); the status machine and the per-operation transitions are a theorem (acct_machine_refines_revm) for sequential histories, its composition with the racing cache fills (cache_coherent, account_fill_coherent) is not one theorem", "account fills are modelled abstractly (Model/AccountFill.lean: publish = insert-if-absent of the immutable database value, commit = overwrite) and tied by the account cases of cache-race (final state vs revm State, returned values vs committed prefixes), not by trace replay; code cache fills (insert-if-absent of immutable bytecode keyed by its hash) are not modelled"],
        "explanation": "Theorems cache_coherent / cache_entry_current (for any number of readers, any history of destroy / create / update commits and any interleaving, whenever no commit is in progress the cache serves exactly what revm's State serves; nothing a reader left behind is stale) and f1_original_order_violates (the original order of finding F1 is refuted in the model); account_fill_coherent (any interleaving of account-filling reads with commits leaves the committed account in the cache) and blind_publish_violates. acct_machine_refines_revm / step_refines / reads_equal_after_any_history: grevm's two-map account cache (info + status, slots apart, slots cacheable before the account is loaded) refines revm's CacheAccount for EVERY history of loads, slot reads, committed selfdestructs / creations / empty touches / changes, increments and drains: same TransitionAccount (info, status, previous info, previous status, storage-was-destroyed), same infos, same slot values, same drained amounts; loaded_history_refines_revm (a history that starts by loading the account never makes grevm panic and is answered identically by revm), storage_known_is_monotone, destroyed_account_serves_zero, transition_is_exact_delta (a reported transition records exactly the cache entry before and after the operation), zero_increment_differs. Findings F1 and F6 repaired (known_findings.json).",
    },
    "C11": {
        "lean_modules": ["Props.C11"],
        "harness": [
            e2e("precompile,mixed", 160, 5000, configs="w2,w3,seq,fallback", schedules=3, label="precompiles"),
            {"sub": "facade-conf", "quick": {"cases": 60}, "thorough": {"cases": 3000}, "timeout": 3000},
            {"sub": "adapter-conf", "quick": {}, "thorough": {}, "timeout": 600},
        ],
        "rule": "precompile family: eight custom precompiles registered through DynParallelPrecompile (read-your-writes storage update, balance bookkeeping via balance / set_balance, a writer that ignores the refusal in a static context, a halting one that writes first, a beneficiary-balance reader, a writer, a state-dependent fatal one, a balance probe of a still-cold account followed by the BALANCE opcode on the same account) called directly, nested from contracts, through STATICCALL, inside a reverting frame, mixed with transfers to the accounts they touch, a mid-block invalid transaction (sequential suffix replay) — parallel (free and controller schedules), sequential and fallback_sequential() entry; oracle = in-order stock revm with the same adapters installed (outcomes, gas, bundle, per-commit state); adapter-conf: an error-replacer precompile (answers a facade error with an own fatal error / own halt / propagates it / ignores it) is called through CALL and STATICCALL, on the parallel and the sequential path; what the call ends as (ok / halt / fatal) must be what Facade.adapter says — the expected verdict comes from the Lean model because the in-order oracle installs the same adapter; facade-conf: every precompile invocation logs (static?, facade calls, kind of each result); all logged invocations are replayed through Facade.runOps: the result kinds must equal the model's (static refusal at the first mutation, the same halt for every later call); " + E2E_RULE,
        "trusted_base": E2E_TRUST,
        "modelled": ["ParallelPrecompileState::{balance, sload, set_balance, sstore, ensure_healthy, ensure_mutable, record_fault, take_fault} and the fault enforcement of DynParallelPrecompile::to_alloy (src/precompile.rs) as Model/Facade.lean", "the journal is a pair of maps plus the set of loaded accounts; warm/cold metadata, gas and EvmInternals are not modelled"],
        "assumptions": ["facade accesses are ordinary journal accesses (load_account / sload / sstore of EvmInternals), so conflict detection, frame reverts and the absence of residue are those of C01/C02; exercised by the e2e family incl. the cold-account balance probe", "the test precompiles use the facade only (the type system forbids anything else: fields are private)"],
        "partial": ["that a facade access is recorded in the read/write sets and validated is NOT a Lean theorem of this model (it is the statement that journal accesses reach IncarnationDb): decided end to end", "both execution paths registering the same list is exercised (seq / fallback configurations), not proved"],
        "explanation": "Theorems fault_sticky, static_refuses_before_change, static_mutation_faults, fault_survives, fault_enforced, static_write_is_halt, reads_go_through_journal, read_your_write over all call sequences (an implementation is any list of facade calls that may ignore every error).",
    },
    "C12": {
        "lean_modules": ["Props.C12"],
        "harness": [e2e("delegated,code,lifecycle", 240, 6000, configs="w2,w3,seq", label="create-guard")],
        "rule": "delegated family: EIP-7702 delegated accounts (reached from call transactions AND from the init code of contract-creation transactions; delegates: payer, payer+refund router, CREATE creator, CREATE2 creator, self-destructor, a contract that DELEGATECALLs the creator) called by sponsors, by themselves, nested with value, through STATICCALL, through an ordinary contract that DELEGATECALLs the delegated account, through a reverting inner frame; ordinary-context calls of the same contracts; in-block re-pointing / clearing of a delegation; specs Shanghai, Cancun (policies must be inert), Prague, Osaka; the four policy combinations; oracle = stock revm whose CREATE/CREATE2 consult the decision table exported by the Lean model (Guard.effective over the observed static / create2 / spec / designator-in-context-account bits) and are the stock instruction otherwise; " + E2E_RULE,
        "trusted_base": E2E_TRUST,
        "modelled": ["guarded_create (src/delegated_safety/instructions.rs): order of the static, pre-Petersburg and designator checks", "the table swap in create_evm (src/scheduler/executor.rs) and DelegatedSafetyConfig::for_spec"],
        "assumptions": ["`load_account_delegated(target).is_delegate_account_cold.is_some()` iff the context account's code is an EIP-7702 designator (the oracle decides this independently from the code bytes)", "all opcodes other than CREATE/CREATE2 come from EthInstructions::new_mainnet_with_spec unchanged (structural; exercised by the comparison with stock revm on every block)"],
        "explanation": "Theorems guard_halts, guard_only_delegated, guard_inert_off, errors_keep_precedence, guard_exact (the engine differs from stock revm at a create iff guard on, >= Prague, stock would create, context account delegated), delegated_nonce_kept: complete case analyses of the six-input decision. Tied to the code by running every generated block against stock revm driven by this decision table.",
    },
    "C13": {
        "lean_modules": ["Props.C13"],
        "harness": [
            {"sub": "reserve", "quick": {"cases": 2000}, "thorough": {"cases": 100000}, "timeout": 3000},
            e2e("delegated", 400, 6000, configs="w2,w3,seq", label="reserve-policy"),
        ],
        "rule": "reserve-differential: (a) planner: random blocks of 1-12 transactions over 1-4 senders with costs from 0 to overflowing max_balance_spending, queried for random (txid, address) pairs in random order with repetitions on the real ReservePlanner vs Model/Reserve.requiredAfter; (b) journal scan: random valid journals (forward-simulated balances; transfers incl. self-transfers and zero amounts, self-destructs with beneficiary, balance changes, unrelated entries, entries before the checkpoint, root-value transfer present/absent, look-alikes of the root transfer) over accounts with and without EIP-7702 designator on the real delegated_debits_since vs Model/Reserve.delegatedDebits (address, balance before first debit, final balance); e2e (reserve-policy): delegated family (see C12) with the reserve on/off; for reserve-on blocks the reference is grevm's sequential path, checked by (1) fundability: a sender whose block-start balance covers the maximum cost of all its transactions is never skipped for lack of funds, (2) against stock revm with the policy off up to the first differing transaction: agreeing transactions must not leave a delegated account (debited in someone else's transaction) below the cost of its later transactions, the first differing one must be a top-level revert with empty output justified by a delegated account ending below that cost; parallel runs (free and under controller schedules) must equal the sequential reference; " + E2E_RULE,
        "trusted_base": E2E_TRUST,
        "modelled": ["ReservePlanner::{required_after, sender_index, build_schedule}, AccountReserveSchedule::required_after", "delegated_debits_since, is_root_value_transfer, balance_before_entry", "has_reserve_violation (the comparison final < min(before, future cost), future cost non-zero)"],
        "assumptions": ["TxEffect.Sane (hypotheses of fundable): outside delegated execution a transaction lowers an account's balance by at most the sender's own maximum cost; the forced revert restores the post-fee state (revm's checkpoint_revert; exercised by the e2e fundability check)", "the OnceLock/DashMap caching of the planner is abstracted as a pure function (query-order independence is exercised by the differential)"],
        "partial": ["the forced revert itself (checkpoint revert, create-nonce restore, refund and reimbursement re-application in handler.rs enforce_reserve) is not modelled; it is covered by the parallel = sequential comparison and the policy-off comparison only up to the first forced revert of a block"],
        "explanation": "Theorems planner_spec (the implemented index + suffix array + binary search equals the saturating cost of the account's later transactions), reqFrom_eq_min, requiredSpec_step, balance_before_exact (undoing the surviving journal yields the balance before the first debit), violates_iff, no_candidates_no_violation, no_future_cost_no_violation, step_keeps_reserve, fundable (block-level: an account that can pay all its transactions at block start can pay each of them when its turn comes); required_after_antitone (the demand never grows as the block advances), required_after_last / last_transaction_never_violates, required_after_no_later_tx (only accounts with transactions still to come are protected), debit_ok_stays_ok; firstDebits_sound / delegatedDebits_sound (the scan reports only delegated accounts, each at most once, at an index inside the journal, with its final balance).",
    },
    "C14": {
        "lean_modules": ["Props.C14"],
        "harness": [{"sub": "once", "quick": {"cases": 400}, "thorough": {"cases": 20000}, "timeout": 3000}],
        "rule": "each case = one scheduler over a generated block (0-8 txs; families mixed/conf/invalid/lifecycle; nonce check on or off so that a second application would really be applied; workers 1-3; parallel or sequential path) and 2-6 calls of execute / parallel_execute(Some(w)) / fallback_sequential issued (a) one after another, (b) from threads released together, (c) with late callers arriving while the first is inside the block (slowed database), (d) tight races: 6 x cases rounds of four callers (fallback / execute alternating) spinning on one atomic and calling the moment it flips, over a one-transaction block with the nonce check off - the election window is a few instructions wide, a blocking barrier's wake-up skew hides it; oracle: exactly one call is elected, every other call returns the only-once error, and outcomes + state + bundle afterwards equal ONE in-order execution (stock revm); the observed results in completion order are replayed through RunOnce.step (call*, winner CAS, loser CASes, body) with the applied-count; distinct = distinct (block, mode, call list)",
        "trusted_base": COMMON_TRUST,
        "modelled": ["Scheduler::run_once election (src/scheduler/control.rs) as a CAS on `started`; the block body is one abstract step"],
        "assumptions": ["compare_exchange on `started` is atomic", "every public entry point goes through run_once (exercised: all three entry points in every position of the call sequence)"],
        "partial": ["the CAS order of racing callers is not observed (no hook inside run_once): the replayed model run orders the winner first, which is the only order the model admits"],
        "explanation": "Theorems one_winner / returned_implies_one_winner / losers_touch_nothing / untouched_before_execute over all interleavings of any number of callers; split_election_elects_two / split_election_sequential_ok: an election made of a load and a later store elects two racing callers (block applied twice) while successive calls are still refused - the shape the tight-race phase looks for.",
    },
    "C15": {
        "lean_modules": ["Props.C15", "Props.C02"],
        "harness": [
            {"sub": "kernel-ctx", "quick": {"cases": 600}, "thorough": {"cases": 20000}, "timeout": KERNEL_TIMEOUT},
            SCHED_CONF,
        ],
        "rule": "each case = 2-3 real threads running random scripts of executed/next_validation_idx/rewind_validation_to/logical_timestamp/execution_frontier on the real SchedulerContext (2-5 txs) under a seeded random/PCT/sticky controller schedule; the totally ordered hook-event trace is replayed through the Lean step functions (every event must be the enabled next model step with equal observed values, return values and final cursors/timestamps must agree); distinct = distinct event traces; all are non-trivial (>= 2 threads, >= 3 calls each)",
        "trusted_base": COMMON_TRUST,
        "modelled": ["claim_before CAS loop, RewindableCursor::rewind (src/scheduler/cursor.rs)", "ExecutionFrontier::{publish, advance, current} (src/scheduler/context.rs)", "rewind_validation_to / logical_timestamp / unconfirmed ordering of clock, lts, cursor"],
        "assumptions": ["SC atomics (declared orderings Acquire/Release/AcqRel are not distinguished)"],
        "partial": ["weak-memory reorderings permitted by the declared orderings are not modelled"],
        "explanation": "Theorems no_skip, rewind_reoffers, claim_below_limit (cursor); frontier_sound, current_sound, quiescent_exact (frontier) for any number of threads and any interleaving; stale_validation_never_final is part of the pipeline model (C02).",
    },
    "C16": {
        "lean_modules": ["Props.C16"],
        "harness": [
            {"sub": "kernel-dep", "quick": {"cases": 800}, "thorough": {"cases": 30000}, "timeout": KERNEL_TIMEOUT},
        ],
        "rule": "each case = 2-3 real threads running random scripts of next/remove/commit/key_tx/add on the real TxDependency (2-5 txs) under a seeded controller schedule; trace replayed through Model/TxDep.lean step by step incl. lock-busy probes; final onboard/dependency/affect/index compared; distinct = distinct event traces",
        "trusted_base": COMMON_TRUST,
        "modelled": ["TxDependency::{next, remove, commit, key_tx, add} (src/tx_dependency.rs) with per-tx and per-predecessor mutexes and the Relaxed cursor"],
        "assumptions": ["parking_lot mutexes give mutual exclusion", "HashSet iteration order is arbitrary (the model takes the order from the trace)"],
        "explanation": "Over every state reachable from init n (any number of threads, any interleaving of next/remove/commit/key_tx/add steps, one action per lock acquisition / critical section): lock_owner, dep_mutex, aff_mutex (a lock is held exactly by the thread inside its critical section); edge_covered (every forward edge t->d, d != t, has its reverse entry: no wait is orphaned, also during remove); stale_edge_harmless (remove clears only edges that still point at it); claimable_covered / claimable_quiescent (an on-board transaction without dependency is at or above the claim cursor or in the hands of a thread that will lower the cursor); single_claim, handoff_takes_offboard, handoff_once (a transaction is handed out only by a step that takes it off board: claimed at most once per on-boarding).",
    },
    "C17": {
        "lean_modules": ["Props.C17"],
        "harness": [
            {"sub": "kernel-wait", "quick": {"cases": 800}, "thorough": {"cases": 40000}, "timeout": KERNEL_TIMEOUT},
            e2e("conf,mixed,invalid", 60, 2500, schedules=4, label="stall-detection"),
        ],
        "rule": "kernel-wait: one waiter thread (register; loop wait_while(!ready) until the predicate was seen false) and 1-3 producer threads (scripts of set-condition-then-notify / bare notify, each ending with ready := true; notify) on the real WaitSlot under seeded random/PCT/sticky controller schedules with park/unpark emulated by the token contract and NO timeout; the totally ordered event trace (register, wait_check1/2 with the observed predicate value, wait_park, park-with-token, wake, p_set, notify, unpark) is replayed through WaitSlot.step: every event must be the enabled model step, observed predicate values must equal the model's, the waiter must finish; a waiter left parked with every other thread finished is reported by the controller as a stall; e2e (stall-detection): whole blocks on the real scheduler under controller schedules with emulated park and no timeout: a lost wakeup of the finality or commit coordinator is a controller deadlock (reported as stall = concrete failing schedule), besides the oracle comparison; " + E2E_RULE,
        "trusted_base": COMMON_TRUST,
        "modelled": ["WaitSlot::{register_current_thread, notify, wait_while} (src/scheduler/wait.rs); park/unpark by the token contract of std::thread; no timeout in the model"],
        "assumptions": ["std::thread::park/unpark token semantics", "producers write the condition before notify: part of the model (nPublish before nStep); the call sites in validate, the finality loop and cancel are exercised by the e2e stall detection, where a notify issued before its condition is published deadlocks the emulated park"],
        "partial": ["the 8 s STALL_TIMEOUT safety net is deliberately absent from model and harness: the property is that it is never needed"],
        "explanation": "Theorems no_lost_wakeup, wakeup_within_two_steps and quiescent_implies_done (deadlock freedom: with the condition set, a reachable state in which neither the waiter nor a pending notify can step has the waiter returned) over all interleavings of one waiter and any number of producers; ready_changes_only_by_publish, waiter_blocked_only_at_park.",
    },
}
