"""Per-property configuration of ./check: Lean theorem modules, harness runs, evidence texts."""

COMMON_TRUST = [
    "Lean 4.33 kernel (lake build; leanchecker re-check in the thorough tier)",
    "axioms: at most propext, Classical.choice, Quot.sound (audited with #print axioms on every property theorem); no sorry/admit/native_decide/bv_decide/own axioms",
    "hand-written Lean model of the named code, tied to /repo's working tree by the correspondence runs listed under coverage.correspondence (differential testing: bounded by the generators)",
    "the verif-hooks schedule points (one hook = one model step) and the harness controller that serialises the real threads",
    "sequential consistency per atomic operation / mutex region (x86 host; weak-memory reorderings are not exhibited by the harness)",
]

KERNEL_TIMEOUT = 1800

PROPS = {
    "C14": {
        "lean_modules": ["Props.C14"],
        "harness": [],
        "rule": "n/a (filled by harness runs)",
        "trusted_base": COMMON_TRUST,
        "modelled": ["Scheduler::run_once election (src/scheduler/control.rs) as a CAS on `started`; the block body is one abstract step"],
        "assumptions": ["compare_exchange on `started` is atomic", "every public entry point goes through run_once (checked structurally by the translator)"],
        "explanation": "Theorems one_winner / returned_implies_one_winner / losers_touch_nothing / untouched_before_execute over all interleavings of any number of callers.",
    },
    "C15": {
        "lean_modules": ["Props.C15"],
        "harness": [
            {"sub": "kernel-ctx", "quick": {"cases": 600}, "thorough": {"cases": 20000}, "timeout": KERNEL_TIMEOUT},
        ],
        "rule": "each case = 2-3 real threads running random scripts of executed/next_validation_idx/rewind_validation_to/logical_timestamp/execution_frontier on the real SchedulerContext (2-5 txs) under a seeded random/PCT/sticky controller schedule; the totally ordered hook-event trace is replayed through the Lean step functions (every event must be the enabled next model step with equal observed values, return values and final cursors/timestamps must agree); distinct = distinct event traces; all are non-trivial (>= 2 threads, >= 3 calls each)",
        "trusted_base": COMMON_TRUST,
        "modelled": ["claim_before CAS loop, RewindableCursor::rewind (src/scheduler/cursor.rs)", "ExecutionFrontier::{publish, advance, current} (src/scheduler/context.rs)", "rewind_validation_to / logical_timestamp / unconfirmed ordering of clock, lts, cursor"],
        "assumptions": ["SC atomics (declared orderings Acquire/Release/AcqRel are not distinguished)"],
        "partial": ["weak-memory reorderings permitted by the declared orderings are not modelled"],
        "explanation": "Theorems no_skip, rewind_reoffers, claim_below_limit (cursor); frontier_sound, current_sound, quiescent_exact (frontier) for any number of threads and any interleaving; stale_validation_never_final is part of the pipeline model (C02).",
    },
    "C16": {
        "lean_modules": ["Props.C16"],
        "harness": [
            {"sub": "kernel-dep", "quick": {"cases": 800}, "thorough": {"cases": 30000}, "timeout": KERNEL_TIMEOUT},
        ],
        "rule": "each case = 2-3 real threads running random scripts of next/remove/commit/key_tx/add on the real TxDependency (2-5 txs) under a seeded controller schedule; trace replayed through Model/TxDep.lean step by step incl. lock-busy probes; final onboard/dependency/affect/index compared; distinct = distinct event traces",
        "trusted_base": COMMON_TRUST,
        "modelled": ["TxDependency::{next, remove, commit, key_tx, add} (src/tx_dependency.rs) with per-tx and per-predecessor mutexes and the Relaxed cursor"],
        "assumptions": ["parking_lot mutexes give mutual exclusion", "HashSet iteration order is arbitrary (the model takes the order from the trace)"],
        "explanation": "Invariants of the dependency graph over all interleavings; see theorem list.",
    },
    "C17": {
        "lean_modules": ["Props.C17"],
        "harness": [],
        "rule": "n/a (filled by harness runs)",
        "trusted_base": COMMON_TRUST,
        "modelled": ["WaitSlot::{register_current_thread, notify, wait_while} (src/scheduler/wait.rs); park/unpark by the token contract of std::thread; no timeout in the model"],
        "assumptions": ["std::thread::park/unpark token semantics", "producers write the condition before notify (validate, finality loop, cancel: checked structurally by the translator)"],
        "explanation": "Theorems no_lost_wakeup and wakeup_within_two_steps over all interleavings of one waiter and any number of producers.",
    },
}
