/-
`gmodel` — line-protocol driver exposing the executable Lean models to the Rust harness.
Reads a session from stdin, writes one result line per request to stdout.
-/
import Grevm.Driver.Kernel
import Grevm.Driver.Components
import Grevm.Driver.Sched
import Grevm.Driver.Repr
import Grevm.Driver.Small
import Grevm.Driver.Reserve
import Grevm.Driver.CacheConf
import Grevm.Driver.AcctConf

open Grevm Grevm.Driver

partial def readLines (h : IO.FS.Stream) (acc : Array String) : IO (Array String) := do
  let line ← h.getLine
  if line.isEmpty then return acc
  readLines h (acc.push line)

def natList (ws : List String) : List Nat := ws.filterMap String.toNat?

/-- Replay one `kernel ctx` session. Returns a result line. -/
def replayCtx (n : Nat) (lines : List String) : String := Id.run do
  let mut s := CtxState.init n
  let mut idx := 0
  for line in lines do
    let ws := words line
    match ws with
    | "ev" :: _ =>
        match parseEv ws with
        | none => return s!"diverge {idx} unparsable: {line}"
        | some ev =>
            match ctxEvent s ev with
            | .ok s' => s := s'
            | .error msg => return s!"diverge {idx} {msg} :: {line.trimAscii.toString}"
    | "final" :: rest =>
        -- final <validation_idx> <frontier> lts.. uts..
        let vals := natList rest
        let expect := [s.cur.cursor, s.fr.frontier] ++ (List.range n).map s.lts ++ (List.range n).map s.uts
        -- the harness reads the frontier through `current()`, which helps: compare only when
        -- the model frontier is exact (no thread in flight), else compare the sound bound
        let implRest := vals.drop 2
        let modelRest := expect.drop 2
        if vals.head? != expect.head? then
          return s!"diverge {idx} final validation_idx differs: impl {vals.head?} model {expect.head?}"
        if implRest != modelRest then
          return s!"diverge {idx} final timestamps differ: impl {implRest} model {modelRest}"
        if vals.getD 1 0 != s.fr.frontier then
          return s!"diverge {idx} final frontier differs: impl {vals.getD 1 0} model {s.fr.frontier}"
    | _ => pure ()
    idx := idx + 1
  return s!"ok {idx}"

def replayDep (n : Nat) (lines : List String) : String := Id.run do
  let mut st : DepState := { s := TxDep.init n, ret := fun _ => none }
  let mut idx := 0
  for line in lines do
    let ws := words line
    match ws with
    | "ev" :: _ =>
        match parseEv ws with
        | none => return s!"diverge {idx} unparsable: {line}"
        | some ev =>
            match depEvent st ev with
            | .ok st' => st := st'
            | .error msg => return s!"diverge {idx} {msg} :: {line.trimAscii.toString}"
    | "final" :: rest =>
        -- final <index> then per tx: <onboard 0/1> <dependency or -> then `aff` <d> <members..> ;
        let toks := rest
        let modelToks : List String :=
          [toString st.s.index] ++
          ((List.range n).flatMap fun i =>
            [if st.s.onboard i then "1" else "0",
             match st.s.dependency i with | some d => toString d | none => "-"]) ++
          ((List.range n).flatMap fun d =>
            ["aff"] ++ ((st.s.affect d).mergeSort (· ≤ ·)).map toString)
        if toks != modelToks then
          return s!"diverge {idx} final state differs: impl {toks} model {modelToks}"
    | _ => pure ()
    idx := idx + 1
  return s!"ok {idx}"

/-- Split the input into sessions separated by `end` lines. -/
def sessions (lines : List String) : List (List String) := Id.run do
  let mut out : Array (List String) := #[]
  let mut cur : Array String := #[]
  for l in lines do
    if (words l) == ["end"] then
      out := out.push cur.toList
      cur := #[]
    else cur := cur.push l
  if !cur.isEmpty then out := out.push cur.toList
  return out.toList

def runSession (lines : List String) : String :=
  match lines with
  | [] => "error empty session"
  | hd :: rest =>
      match words hd with
      | ["kernel", "ctx", n] => replayCtx (n.toNat?.getD 0) rest
      | ["kernel", "dep", n] => replayDep (n.toNat?.getD 0) rest
      | "history" :: hd => replayHistory hd rest
      | ["reward"] => replayReward rest
      | ["repr"] => ReprConf.replayRepr rest
      | ["guard-table"] => Small.guardTable
      | ["facade"] => Small.replayFacade rest
      | ["gate"] => Small.replayGate rest
      | ["adapter"] => Small.replayAdapter rest
      | ["reserve"] => ReserveConf.replayReserve rest
      | "cache" :: hd => CacheConf.replayCache hd rest
      | ["acct"] => AcctConf.replayAcct rest
      | ["kernel", "wait"] => Small.replayWait rest
      | ["once", k] => Small.replayOnce (k.toNat?.getD 0) rest
      | ["sched", n] => SchedConf.replaySched (n.toNat?.getD 0) rest
      | _ => s!"error unknown session header: {hd}"

def main : IO Unit := do
  let stdin ← IO.getStdin
  let lines ← readLines stdin #[]
  for sess in sessions lines.toList do
    IO.println (runSession sess)
