/-
claimable_covered: a claimable transaction (on board, no blocker) is either still ahead of the
cursor or some thread is about to claim it / about to rewind the cursor to it.
-/
import Grevm.Lemmas.TxDepInv

namespace Grevm.TxDep

/-- `Covers p x`: a thread at `p` has taken cursor value `x` and is about to examine it
    (`nextLock x`), or is about to `fetch_min(x)`. -/
def Covers : Pc → Nat → Prop
  | .nextLock i, x => x = i
  | .rmMin _ _ _ _ tx, x => x = tx
  | .cmMin nx, x => x = nx
  | .keyMin y, x => x = y
  | .addMin _ d, x => x = d
  | .addNoneMin y, x => x = y
  | _, _ => False

theorem entry_not_covers {n : Nat} {p : Pc} (h : IsEntry n p) (x : Nat) : ¬ Covers p x := by
  cases p <;> simp_all [IsEntry, Covers]

theorem exCover_split (pc : Tid → Pc) (t : Tid) (x : Nat) :
    (∃ u, Covers (pc u) x) ↔ Covers (pc t) x ∨ ∃ u, u ≠ t ∧ Covers (pc u) x := by
  constructor
  · rintro ⟨u, hu⟩
    by_cases h : u = t
    · subst h; exact Or.inl hu
    · exact Or.inr ⟨u, h, hu⟩
  · rintro (h | ⟨u, _, hu⟩)
    · exact ⟨t, h⟩
    · exact ⟨u, hu⟩

theorem exCover_upd (pc : Tid → Pc) (t : Tid) (p : Pc) (x : Nat) :
    (∃ u, Covers (upd pc t p u) x) ↔ Covers p x ∨ ∃ u, u ≠ t ∧ Covers (pc u) x := by
  rw [exCover_split (upd pc t p) t x]
  simp only [upd, if_true]
  constructor
  · rintro (h | ⟨u, hne, hu⟩)
    · exact Or.inl h
    · rw [if_neg hne] at hu; exact Or.inr ⟨u, hne, hu⟩
  · rintro (h | ⟨u, hne, hu⟩)
    · exact Or.inl h
    · refine Or.inr ⟨u, hne, ?_⟩; rw [if_neg hne]; exact hu

def ClaimInv (s : State) : Prop :=
  ∀ x, x < s.n → s.onboard x = true → s.dependency x = none →
    s.index ≤ x ∨ ∃ u, Covers (s.pc u) x

theorem claimInv_init (n : Nat) : ClaimInv (init n) := by
  intro x _ _ _; simp [init]

theorem claimInv_step {s s' : State} {t : Tid} {pick : Nat} {r : Ret} (hc : ClaimInv s)
    (h : Step s t pick s' r) : ClaimInv s' := by
  intro x
  have c := hc x
  rw [exCover_split s.pc t x] at c
  cases h
  case call p hpc he =>
    simp only [setPc, exCover_upd]
    have := entry_not_covers he x
    rw [hpc] at c
    have : ¬ Covers .idle x := by simp [Covers]
    grind
  all_goals try (rename_i hrc; cases hrc)
  all_goals
    have hpc := (by assumption : s.pc t = _)
    rw [hpc] at c
    simp only [setPc, exCover_upd]
    generalize (∃ u, u ≠ t ∧ Covers (s.pc u) x) = O at *
    simp only [Covers] at c ⊢
    try simp only [upd]
    first
      | grind [keyDep]

end Grevm.TxDep
