/-
Simulation between grevm's account/slot caches and revm's `CacheAccount` (Model/AcctState):
relation `R`, its initialisation and its preservation by every operation.
-/
import Grevm.Model.AcctState

namespace Grevm.Acct

/-- What the status says about the database (only `load` produces `loaded` / `loadedEmptyEIP161`). -/
structure Inv (db : Db) (a : GAcct) : Prop where
  loaded : a.status = .loaded → a.info = db.info
  empty : a.status = .loadedEmptyEIP161 → ∃ i, db.info = some i ∧ i.isEmpty = true
  noneKnown : a.info = none → a.status.known = true

/-- grevm's caches and revm's cache account agree, seen through a load of the account. -/
structure R (db : Db) (g : G) (s : S) : Prop where
  status : (g.loaded db).status = (s.loaded db).status
  info : (g.loaded db).info = (s.loaded db).info
  reads : ∀ k, g.readVal db k = s.readVal db k
  inv : Inv db (g.loaded db)

theorem sLoad_status (db : Db) : (sLoadFromDb db).status = (loadFromDb db).status := by
  unfold sLoadFromDb loadFromDb
  cases db.info with
  | none => rfl
  | some i => by_cases h : i.isEmpty = true <;> simp [h]

theorem sLoad_info (db : Db) : (sLoadFromDb db).info = (loadFromDb db).info := by
  unfold sLoadFromDb loadFromDb SAcct.info
  cases db.info with
  | none => rfl
  | some i => by_cases h : i.isEmpty = true <;> simp [h]

theorem inv_load (db : Db) : Inv db (loadFromDb db) := by
  unfold loadFromDb
  split
  · exact ⟨by simp, by simp, by simp [Status.known]⟩
  · rename_i i hi
    split
    · exact ⟨by simp, by intro _; exact ⟨i, hi, by assumption⟩, by simp⟩
    · exact ⟨by intro _; simp [hi], by simp, by simp⟩

theorem isEmpty_noCodeNonce {i : Info} (h : i.isEmpty = true) : i.noCodeNonce = true := by
  simp [Info.isEmpty, Info.noCodeNonce] at *; omega

theorem db_zero_of_none {db : Db} (hdb : db.Ok) (h : db.info = none) (k : Nat) : db.slot k = 0 :=
  hdb (by simp [h]) k

theorem db_zero_of_noCodeNonce {db : Db} (hdb : db.Ok) {i : Info} (h : db.info = some i)
    (hi : i.noCodeNonce = true) (k : Nat) : db.slot k = 0 :=
  hdb (by simp [h, hi]) k

theorem R_init (db : Db) (hdb : db.Ok) : R db G.init S.init := by
  refine ⟨?_, ?_, ?_, ?_⟩
  · simp [G.loaded, S.loaded, G.init, S.init, sLoad_status]
  · simp [G.loaded, S.loaded, G.init, S.init, sLoad_info]
  · intro k
    cases h : db.info with
    | none => simp [G.readVal, S.readVal, G.init, S.init, S.loaded, Slots.none, G.known, sLoadFromDb, h,
        db_zero_of_none hdb h k]
    | some i => by_cases h' : i.isEmpty = true <;>
        simp [G.readVal, S.readVal, G.init, S.init, S.loaded, G.known, sLoadFromDb, h, h', Slots.none,
          Status.known]
  · simpa [G.loaded, G.init] using inv_load db

/-- when the status turns storage-known by a change, the database holds no slot of the account -/
theorem db_zero_of_becomes_known {db : Db} (hdb : db.Ok) {a : GAcct} (hinv : Inv db a)
    (h0 : a.status.known = false)
    (h1 : (a.status.onChanged (hadNoCodeNonce a.info)).known = true) (k : Nat) :
    db.slot k = 0 := by
  obtain ⟨info, status⟩ := a
  cases status <;> simp [Status.known] at h0
  · -- loaded
    have hi := hinv.loaded rfl
    simp at hi
    by_cases hh : hadNoCodeNonce info = true
    · cases info with
      | none => simp [hadNoCodeNonce] at hh
      | some i => exact db_zero_of_noCodeNonce hdb hi.symm (by simpa [hadNoCodeNonce] using hh) k
    · simp [Status.onChanged, hh, Status.known] at h1
  · -- loadedEmptyEIP161
    obtain ⟨i, hi, he⟩ := hinv.empty rfl
    exact db_zero_of_noCodeNonce hdb hi (isEmpty_noCodeNonce he) k
  · simp [Status.onChanged, Status.known] at h1

theorem known_mono_changed (s : Status) (b : Bool) (h : s.known = true) :
    (s.onChanged b).known = true := by
  cases s <;> simp [Status.known, Status.onChanged] at *

theorem known_created (s : Status) : s.onCreated.known = true := by
  cases s <;> simp [Status.known, Status.onCreated]

theorem known_selfdestructed (s : Status) : s.onSelfdestructed.known = true := by
  cases s <;> simp [Status.known, Status.onSelfdestructed]

theorem known_touched (s : Status) : s.onTouchedEmpty.known = true := by
  cases s <;> simp [Status.known, Status.onTouchedEmpty]

theorem satAdd_pos (a b : Nat) (h : b ≠ 0) : satAdd a b ≠ 0 := by
  unfold satAdd umax; split <;> omega

/-! ### reads in normal form -/

/-- a slot read: the cached value, else zero if the storage is known, else the database -/
def rd (x : Option Nat) (κ : Bool) (d : Nat) : Nat := match x with
  | some v => v
  | none => if κ then 0 else d

def kn (a : GAcct) : Bool := a.status.known || a.info.isNone
def SAcct.slots (a : SAcct) : Slots := match a.acct with
  | some (_, m) => m
  | none => Slots.none
def SAcct.kn (a : SAcct) : Bool := a.status.known || a.acct.isNone

theorem G_readVal_loaded {db : Db} (hdb : db.Ok) (g : G) (k : Nat) :
    g.readVal db k = rd (g.slots k) (kn (g.loaded db)) (db.slot k) := by
  unfold G.readVal G.known G.loaded rd kn
  cases hg : g.acct with
  | some a => rfl
  | none =>
    cases h : db.info with
    | none => cases g.slots k <;> simp [loadFromDb, h, Status.known, db_zero_of_none hdb h k]
    | some i => by_cases h' : i.isEmpty = true <;> cases g.slots k <;>
        simp [loadFromDb, h, h', Status.known]

theorem S_readVal_loaded (db : Db) (s : S) (k : Nat) :
    s.readVal db k = rd ((s.loaded db).slots k) (s.loaded db).kn (db.slot k) := by
  unfold S.readVal rd SAcct.slots SAcct.kn
  generalize s.loaded db = a
  obtain ⟨acct, st⟩ := a
  cases acct with
  | none => simp [Slots.none]
  | some p => obtain ⟨i, m⟩ := p; dsimp only; cases m k <;> simp

theorem kn_eq {ga : GAcct} {sa : SAcct} (h1 : ga.status = sa.status) (h2 : ga.info = sa.info) :
    kn ga = sa.kn := by
  unfold kn SAcct.kn; rw [h1, h2]; unfold SAcct.info; cases sa.acct <;> simp

theorem R.reads' {db : Db} (hdb : db.Ok) {g : G} {s : S} (h : R db g s) (k : Nat) :
    rd (g.slots k) (kn (g.loaded db)) (db.slot k)
      = rd ((s.loaded db).slots k) (kn (g.loaded db)) (db.slot k) := by
  have := h.reads k
  rw [G_readVal_loaded hdb, S_readVal_loaded, ← kn_eq h.status h.info] at this
  exact this

/-- a read stays equal when the status turns (or stays) storage-known -/
theorem rd_pres (x y : Option Nat) (κ κ' : Bool) (d : Nat) (hm : κ = true → κ' = true)
    (hz : κ = false → κ' = true → d = 0) (h : rd x κ d = rd y κ d) : rd x κ' d = rd y κ' d := by
  unfold rd at *
  cases x <;> cases y <;> cases κ <;> cases κ' <;> simp_all

/-- building `R` from its normal-form ingredients, for states whose account is cached -/
theorem R.mk' {db : Db} (hdb : db.Ok) {ga : GAcct} {m : Slots} {sa : SAcct}
    (h1 : ga.status = sa.status) (h2 : ga.info = sa.info)
    (h3 : ∀ k, rd (m k) (kn ga) (db.slot k) = rd (sa.slots k) (kn ga) (db.slot k))
    (h4 : Inv db ga) : R db ⟨some ga, m⟩ (some sa) := by
  refine ⟨h1, h2, ?_, h4⟩
  intro k
  rw [G_readVal_loaded hdb, S_readVal_loaded]
  simp only [G.loaded, S.loaded]
  rw [← kn_eq h1 h2]; exact h3 k

/-! ### one operation -/

theorem inv_of_known {db : Db} {a : GAcct} (h : a.status.known = true) : Inv db a :=
  ⟨by intro e; rw [e] at h; simp [Status.known] at h,
   by intro e; rw [e] at h; simp [Status.known] at h, fun _ => h⟩

theorem inv_changed {db : Db} (st : Status) (b : Bool) (i : Info) :
    Inv db ⟨some i, st.onChanged b⟩ :=
  ⟨by cases st <;> cases b <;> simp [Status.onChanged],
   by cases st <;> cases b <;> simp [Status.onChanged], by simp⟩

theorem sim_selfdestruct {db : Db} (hdb : db.Ok) {g : G} {s : S} (hR : R db g s) (ga : GAcct)
    (hga : g.acct = some ga) :
    ga.selfdestruct.2 = (s.loaded db).selfdestruct.2 ∧
    R db ⟨some ga.selfdestruct.1, Slots.none⟩ (some (s.loaded db).selfdestruct.1) := by
  have h1 := hR.status; have h2 := hR.info
  simp only [G.loaded, hga] at h1 h2
  refine ⟨by simp [GAcct.selfdestruct, SAcct.selfdestruct, h1, h2], ?_⟩
  apply R.mk' hdb
  · simp [GAcct.selfdestruct, SAcct.selfdestruct, h1]
  · simp [GAcct.selfdestruct, SAcct.selfdestruct, SAcct.info]
  · intro k; simp [GAcct.selfdestruct, SAcct.selfdestruct, SAcct.slots, Slots.none]
  · exact inv_of_known (known_selfdestructed _)

theorem sim_touchEmpty {db : Db} (hdb : db.Ok) {g : G} {s : S} (hR : R db g s) (ga : GAcct)
    (hga : g.acct = some ga) :
    ga.touchEmpty.2 = (s.loaded db).touchEmpty.2 ∧
    R db ⟨some ga.touchEmpty.1, Slots.none⟩ (some (s.loaded db).touchEmpty.1) := by
  have h1 := hR.status; have h2 := hR.info
  simp only [G.loaded, hga] at h1 h2
  refine ⟨by simp [GAcct.touchEmpty, SAcct.touchEmpty, h1, h2], ?_⟩
  apply R.mk' hdb
  · simp [GAcct.touchEmpty, SAcct.touchEmpty, h1]
  · simp [GAcct.touchEmpty, SAcct.touchEmpty, SAcct.info]
  · intro k; simp [GAcct.touchEmpty, SAcct.touchEmpty, SAcct.slots, Slots.none]
  · exact inv_of_known (known_touched _)

theorem sim_create {db : Db} (hdb : db.Ok) {g : G} {s : S} (hR : R db g s) (ga : GAcct)
    (hga : g.acct = some ga) (i : Info) (c : Slots) :
    (ga.newlyCreated i).2 = ((s.loaded db).newlyCreated i c).2 ∧
    R db ⟨some (ga.newlyCreated i).1, Slots.none.extend c⟩
      (some ((s.loaded db).newlyCreated i c).1) := by
  have h1 := hR.status; have h2 := hR.info
  simp only [G.loaded, hga] at h1 h2
  refine ⟨by simp [GAcct.newlyCreated, SAcct.newlyCreated, h1, h2], ?_⟩
  apply R.mk' hdb
  · simp [GAcct.newlyCreated, SAcct.newlyCreated, h1]
  · simp [GAcct.newlyCreated, SAcct.newlyCreated, SAcct.info]
  · intro k; simp [GAcct.newlyCreated, SAcct.newlyCreated, SAcct.slots]
  · exact inv_of_known (known_created _)

/-- `change` from the loaded views (used by change, increment and drain) -/
theorem sim_change_loaded {db : Db} (hdb : db.Ok) {g : G} {s : S} (hR : R db g s)
    (i : Info) (c : Slots) :
    ((g.loaded db).change i).2 = ((s.loaded db).change i c).2 ∧
    R db ⟨some ((g.loaded db).change i).1, g.slots.extend c⟩
      (some ((s.loaded db).change i c).1) := by
  have h1 := hR.status; have h2 := hR.info
  refine ⟨by simp [GAcct.change, SAcct.change, h1, h2], ?_⟩
  apply R.mk' hdb
  · simp [GAcct.change, SAcct.change, h1, h2]
  · simp [GAcct.change, SAcct.change, SAcct.info]
  · intro k
    have hk := hR.reads' hdb k
    have hslots : ((s.loaded db).change i c).1.slots = (s.loaded db).slots.extend c := by
      unfold SAcct.change SAcct.slots
      cases (s.loaded db).acct with
      | none => rfl
      | some p => rfl
    rw [hslots]
    unfold Slots.extend
    cases hc : c k with
    | some v => simp [rd]
    | none =>
      simp only []
      apply rd_pres _ _ (kn (g.loaded db)) _ _ _ _ hk
      · intro hκ
        simp only [kn, GAcct.change, Option.isNone_some, Bool.or_false]
        simp only [kn, Bool.or_eq_true] at hκ
        rcases hκ with hκ | hκ
        · exact known_mono_changed _ _ hκ
        · exact known_mono_changed _ _ (hR.inv.noneKnown (by simpa using hκ))
      · intro hκ hκ'
        simp only [kn, Bool.or_eq_false_iff] at hκ
        simp only [kn, GAcct.change, Option.isNone_some, Bool.or_false] at hκ'
        exact db_zero_of_becomes_known hdb hR.inv hκ.1 hκ' k
  · exact inv_changed _ _ _

theorem loaded_of_some {db : Db} {g : G} {ga : GAcct} (h : g.acct = some ga) : g.loaded db = ga := by
  simp [G.loaded, h]

/-! ### reads and loads are transparent -/

theorem G_read_spec (db : Db) (g : G) (k : Nat) :
    ∃ g', G.step db g (.read k) = some (g', .val (g.readVal db k)) ∧ g'.acct = g.acct ∧
      ∀ j, g'.readVal db j = g.readVal db j := by
  cases h : g.slots k with
  | some v => exact ⟨g, by simp [G.step, G.readVal, h], rfl, fun _ => rfl⟩
  | none =>
    refine ⟨{ g with slots := g.slots.set k (if g.known then 0 else db.slot k) },
      by simp [G.step, G.readVal, h], rfl, ?_⟩
    unfold G.readVal
    intro j
    by_cases hj : j = k
    · subst hj; simp [Slots.set, h, G.known]
    · simp only [Slots.set, hj, if_false, G.known]; cases g.slots j <;> rfl

theorem S_read_spec (db : Db) (s : S) (k : Nat) :
    ∃ s', S.step db s (.read k) = (s', .val (s.readVal db k)) ∧
      (S.loaded db s').status = (s.loaded db).status ∧ (S.loaded db s').info = (s.loaded db).info ∧
      ∀ j, S.readVal db s' j = s.readVal db j := by
  unfold S.step S.readVal
  generalize s.loaded db = a
  obtain ⟨acct, st⟩ := a
  cases acct with
  | none => exact ⟨_, rfl, rfl, rfl, fun _ => rfl⟩
  | some p =>
    obtain ⟨i, m⟩ := p
    dsimp only
    cases h : m k with
    | some v => exact ⟨_, rfl, rfl, rfl, fun j => rfl⟩
    | none =>
      refine ⟨_, rfl, rfl, rfl, ?_⟩
      intro j
      by_cases hj : j = k
      · subst hj; simp [S.loaded, Slots.set, h]
      · simp only [S.loaded, Slots.set, hj, if_false]; cases m j <;> rfl

theorem S_readVal_cached (db : Db) (s : S) (k : Nat) :
    S.readVal db (some (s.loaded db)) k = S.readVal db s k := rfl

theorem sim_read {db : Db} {g : G} {s : S} (hR : R db g s) (k : Nat) :
    ∃ g' s' v, G.step db g (.read k) = some (g', .val v) ∧ S.step db s (.read k) = (s', .val v) ∧
      R db g' s' := by
  obtain ⟨g', hg, hacct, hgr⟩ := G_read_spec db g k
  obtain ⟨s', hs, hst, hinfo, hsr⟩ := S_read_spec db s k
  refine ⟨g', s', g.readVal db k, hg, by rw [hs, hR.reads k], ?_⟩
  have hl : g'.loaded db = g.loaded db := by simp [G.loaded, hacct]
  exact ⟨by rw [hl, hst]; exact hR.status, by rw [hl, hinfo]; exact hR.info,
    fun j => by rw [hgr, hsr]; exact hR.reads j, by rw [hl]; exact hR.inv⟩

theorem sim_basic {db : Db} (hdb : db.Ok) {g : G} {s : S} (hR : R db g s) :
    ∃ g' s' o, G.step db g .basic = some (g', o) ∧ S.step db s .basic = (s', o) ∧ R db g' s' := by
  refine ⟨g.load db, some (s.loaded db), .info (g.loaded db).info, rfl, ?_, ?_⟩
  · simp [S.step, hR.info]
  · have hl : (g.load db).loaded db = g.loaded db := by simp [G.load, G.loaded]
    refine ⟨by rw [hl]; exact hR.status, by rw [hl]; exact hR.info, ?_, by rw [hl]; exact hR.inv⟩
    intro k
    have := hR.reads k
    rw [G_readVal_loaded hdb] at this ⊢
    rw [hl, S_readVal_cached]
    simpa [G.load] using this

/-- a touched account without changed slots, committed from the loaded views -/
theorem sim_applyTouched {db : Db} (hdb : db.Ok) {g : G} {s : S} (hR : R db g s) (i : Info) :
    (g.applyTouched (g.loaded db) i).2 = ((s.loaded db).applyTouched i).2 ∧
    R db (g.applyTouched (g.loaded db) i).1 (some ((s.loaded db).applyTouched i).1) := by
  unfold G.applyTouched SAcct.applyTouched
  by_cases he : i.isEmpty = true
  · simp only [he, if_true]
    have hR' : R db (g.load db) s := by
      obtain ⟨_, _, _, h1, h2, h3⟩ := sim_basic hdb hR
      simp [G.step, S.step] at h1 h2
      obtain ⟨rfl, rfl⟩ := h1
      -- the revm side of `basic` only caches the loaded view
      refine ⟨hR.status, hR.info, ?_, hR.inv⟩
      intro k; have := h3.reads k; rw [← h2.1, S_readVal_cached] at this
      exact this
    exact sim_touchEmpty hdb hR' (g.loaded db) rfl
  · simp only [he]
    have := sim_change_loaded hdb hR i Slots.none
    have hext : g.slots.extend Slots.none = g.slots := by
      funext k; simp [Slots.extend, Slots.none]
    simpa [hext] using this

end Grevm.Acct
