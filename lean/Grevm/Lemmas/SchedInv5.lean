/- Invariant group 5 of the pipeline model (I2): every finalized transaction holds exactly its
   in-order run, and the committed outcomes are the in-order outcomes. -/
import Grevm.Lemmas.SchedInv4Step

namespace Grevm.Sched

open Grevm.Block

def toRun (r : Result) : Run := { reads := toPairs r.reads, out := r.out }

/-- The write list of `j`'s current result. -/
def resWrites (s : State) (j : TxId) : List (Loc × Val) :=
  match s.result j with
  | some r => r.out.writes
  | none => []

structure Inv5 (P : Params) (s : State) : Prop where
  exact : ∀ j, j < s.fin → ∃ r, s.result j = some r ∧ toRun r = ideal P.txs P.base j
  outcomes : s.outcomes = (List.range s.com).map (fun j => (ideal P.txs P.base j).out)

theorem inv5_init (P : Params) : Inv5 P init := by
  refine ⟨?_, ?_⟩
  · intro j hj; simp [init] at hj
  · simp [init]

/-- If the columns below `i` hold exactly the write lists `W`, multi-version resolution computes
    the in-order view. -/
theorem resolve_view (mv : Loc → TxId → Option Entry) (W : TxId → List (Loc × Val))
    (base : Loc → Val) (i : TxId) (l : Loc)
    (h : ∀ j, j < i → (∀ e, mv l j = some e → lookup (W j) l = some e.val) ∧
                       (mv l j = none → lookup (W j) l = none)) :
    view W base i l = match resolve mv i l with
      | some (_, e) => e.val
      | none => base l := by
  induction i with
  | zero => simp [view, resolve]
  | succ i ih =>
    simp only [view, resolve]
    have hi := h i (Nat.lt_succ_self i)
    cases hm : mv l i with
    | some e => simp [hi.1 e hm]
    | none =>
      simp only [hi.2 hm]
      exact ih (fun j hj => h j (by omega))

/-- The heart of the safety argument: at the instant a transaction is finalized, its recorded run
    is its in-order run. -/
theorem finalize_sound {P : Params} {s : State} (h1 : Inv1 P s) (h2 : Inv2 s) (h3 : Inv3 P s)
    (h4 : Inv4 s) (h5 : Inv5 P s) (hp : s.phase s.fin = .idle) (hst : s.status s.fin = .unconfirmed)
    (hg : s.uts s.fin > max s.lower (s.lts s.fin)) :
    ∃ r, s.result s.fin = some r ∧ toRun r = ideal P.txs P.base s.fin := by
  have hsh := (h2 s.fin).shape
  unfold Shape at hsh
  rw [hp] at hsh
  simp only [hst] at hsh
  obtain ⟨r, hr, hok, hcl⟩ := hsh
  refine ⟨r, hr, ?_⟩
  -- every read is still valid
  have hall : AllOk s s.fin r.reads := by
    rcases (h4 s.fin).unconf hp hst r hr with hall | hj
    · exact hall
    · exfalso
      rcases hj with ⟨k, hk, hlt⟩ | ⟨j, hj, ho⟩ | ⟨j, k, ts, st, hj, hpj, hlt⟩
      · by_cases hkf : k = s.fin
        · subst hkf; omega
        · have := h1.lower_ge k (by omega); omega
      · rw [h1.fin_idle hj] at ho; exact ho
      · rw [h1.fin_idle hj] at hpj; cases hpj
  -- columns below fin hold exactly the in-order writes
  have hcols : ∀ l j, j < s.fin →
      (∀ e, s.mv l j = some e → lookup (idealWrites P.txs P.base j) l = some e.val) ∧
      (s.mv l j = none → lookup (idealWrites P.txs P.base j) l = none) := by
    intro l j hj
    obtain ⟨rj, hrj, hrun⟩ := h5.exact j hj
    have hshj := (h2 j).shape
    unfold Shape at hshj
    rw [h1.fin_idle hj] at hshj
    simp only [(h1.fin_status j).mpr hj] at hshj
    obtain ⟨rj', hrj', hokj, hclj⟩ := hshj
    rw [hrj] at hrj'; cases hrj'
    have hw : idealWrites P.txs P.base j = rj.writes := by
      obtain ⟨o, ho⟩ := hokj
      simp only [idealWrites, ← hrun, toRun, ho, Out.writes]
    rw [hw]
    refine ⟨fun e he => (hclj.1 l e he).2.2.1, fun hn => ?_⟩
    exact lookup_none_iff.mpr (hclj.2 l hn)
  -- hence every recorded value is the in-order view
  have hvals : ∀ x ∈ toPairs r.reads, x.2 = view (idealWrites P.txs P.base) P.base s.fin x.1 := by
    intro x hx
    obtain ⟨rr, hrr, rfl⟩ := List.mem_map.mp hx
    simp only []
    rw [resolve_view s.mv _ P.base s.fin rr.loc (fun j hj => hcols rr.loc j hj)]
    have hro := hall rr hrr
    have hprov := (h3 s.fin).res_prov r hr rr hrr
    unfold readOk at hro
    unfold ReadProv at hprov
    cases hres : resolve s.mv s.fin rr.loc with
    | none =>
      rw [hres] at hro
      simp at hro
      rw [hro] at hprov
      simp only [] at hprov
      obtain ⟨c, hc, hval⟩ := hprov
      -- the fetch saw a committed cache in which no transaction below `c ≤ com ≤ fin` wrote the
      -- location (else the column of that transaction would hold an entry and resolution would
      -- not miss), i.e. the block-start value
      have hbase : cval P s c rr.loc = P.base rr.loc := by
        apply cval_base
        intro j hj rj hrj w o ho
        have hjf : j < s.fin := by have := h1.com_le.1; omega
        have hshj := (h2 j).shape
        unfold Shape at hshj
        rw [h1.fin_idle hjf] at hshj
        simp only [(h1.fin_status j).mpr hjf] at hshj
        obtain ⟨rj', hrj', hokj, hclj⟩ := hshj
        rw [hrj] at hrj'; cases hrj'
        obtain ⟨o', ho'⟩ := hokj
        rw [ho] at ho'; cases ho'
        exact lookup_none_iff.mpr (hclj.2 rr.loc (resolve_none hres j hjf))
      simp only [hval, hbase]
    | some p =>
      obtain ⟨k, e⟩ := p
      rw [hres] at hro
      simp at hro
      obtain ⟨_, hver⟩ := hro
      rw [hver] at hprov
      simp only [] at hprov
      obtain ⟨_, w, hw, hl⟩ := hprov
      obtain ⟨_, hmk, _⟩ := resolve_some hres
      obtain ⟨w', hw', hl'⟩ := (h2 k).entry rr.loc e hmk
      rw [hw] at hw'; cases hw'
      have : rr.val = e.val := Option.some.inj (hl.symm.trans hl')
      simpa using this
  have hcons := (h3 s.fin).cons_res r hr hok
  rw [ideal_eq]
  exact (consistent_exec (P.txs s.fin) _ (toPairs r.reads) r.out hcons hvals).symm

theorem inv5_step {P : Params} {s s' : State} (h1 : Inv1 P s) (h2 : Inv2 s) (h3 : Inv3 P s)
    (h4 : Inv4 s) (h : Inv5 P s) (hs : Step P s s') : Inv5 P s' := by
  have hfro := step_frozen h1 hs
  -- `exact` for the old prefix is preserved by frozenness
  have hold : ∀ j, j < s.fin → ∃ r, s'.result j = some r ∧ toRun r = ideal P.txs P.base j := by
    intro j hj
    obtain ⟨r, hr, hrun⟩ := h.exact j hj
    exact ⟨r, by rw [(hfro j hj).1]; exact hr, hrun⟩
  cases hs with
  | finalize hi hp hst hg =>
    refine ⟨?_, h.outcomes⟩
    intro j hj
    have hj : j < s.fin + 1 := hj
    by_cases hjf : j = s.fin
    · subst hjf
      exact finalize_sound h1 h2 h3 h4 h hp hst hg
    · exact hold j (by omega)
  | commit r hc hr =>
    refine ⟨hold, ?_⟩
    show s.outcomes ++ [r.out] = (List.range (s.com + 1)).map _
    rw [List.range_succ, List.map_append, ← h.outcomes]
    obtain ⟨r', hr', hrun⟩ := h.exact s.com hc
    rw [hr] at hr'; cases hr'
    simp [← hrun, toRun]
  | claimExec i hi hp hst => exact ⟨hold, h.outcomes⟩
  | execReadMv i l k reads blocked j' e hp hr => exact ⟨hold, h.outcomes⟩
  | execReadMiss i l k reads blocked hp hr => exact ⟨hold, h.outcomes⟩
  | execFetch i l k reads blocked hp => exact ⟨hold, h.outcomes⟩
  | execFinishOk i w o reads blocked hp => exact ⟨hold, h.outcomes⟩
  | execFinishErr i e reads blocked hp => exact ⟨hold, h.outcomes⟩
  | publishOne i run l todo newLoc v hp hl hv => exact ⟨hold, h.outcomes⟩
  | endPublish i run newLoc hp => exact ⟨hold, h.outcomes⟩
  | removeOne i run l todo newLoc hp hl => exact ⟨hold, h.outcomes⟩
  | recordBlocked i run newLoc hp hb => exact ⟨hold, h.outcomes⟩
  | recordRewind i run newLoc handoff hp hb hn => exact ⟨hold, h.outcomes⟩
  | recordDirect i run hp hb => exact ⟨hold, h.outcomes⟩
  | markErrSome i e ow l todo en hp hl hm => exact ⟨hold, h.outcomes⟩
  | markErrNone i e ow l todo hp hl hm => exact ⟨hold, h.outcomes⟩
  | markValSome i l todo en hp hl hm => exact ⟨hold, h.outcomes⟩
  | markValNone i l todo hp hl hm => exact ⟨hold, h.outcomes⟩
  | endErrMark i e ow hp => exact ⟨hold, h.outcomes⟩
  | tailTs i k st hp hk => exact ⟨hold, h.outcomes⟩
  | tailSkip i k st hp hk => exact ⟨hold, h.outcomes⟩
  | tailLts i k ts st hp => exact ⟨hold, h.outcomes⟩
  | claimVal i hp hst => exact ⟨hold, h.outcomes⟩
  | valTs i r hp hr => exact ⟨hold, h.outcomes⟩
  | valCheck i ts done r todo conflict k hp hk => exact ⟨hold, h.outcomes⟩
  | endScanConflict i ts done hp => exact ⟨hold, h.outcomes⟩
  | endScanOk i ts done hp => exact ⟨hold, h.outcomes⟩
  | endValMark i hp => exact ⟨hold, h.outcomes⟩

/-- All invariants hold in every reachable state. -/
theorem inv_reach {P : Params} {s : State} (h : Reach P s) :
    Inv1 P s ∧ Inv2 s ∧ Inv3 P s ∧ Inv4 s ∧ Inv5 P s := by
  induction h with
  | init => exact ⟨inv1_init P, inv2_init, inv3_init P, inv4_init, inv5_init P⟩
  | step _ hs ih =>
    obtain ⟨i1, i2, i3, i4, i5⟩ := ih
    exact ⟨inv1_step i1 hs, inv2_step i1 i2 hs, inv3_step i1 i2 i3 hs, inv4_step i1 i2 i4 hs,
      inv5_step i1 i2 i3 i4 i5 hs⟩

end Grevm.Sched
