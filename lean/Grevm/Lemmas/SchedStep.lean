/- The transition relation of the pipeline model in relational form: one constructor per concrete
   transition with its guard and its explicit successor state; `step_sound` relates it to the
   executable `step`. All invariant proofs go by cases on `Step`. -/
import Grevm.Lemmas.SchedBasic

namespace Grevm.Sched

open Grevm.Block

inductive Step (P : Params) (s : State) : State → Prop where
  | claimExec (i : TxId) (hi : i < P.n) (hp : s.phase i = .idle)
      (hs : s.status i = .initial ∨ s.status i = .conflict) :
      Step P s { s with status := updF s.status i .executing, inc := updF s.inc i (s.inc i + 1),
                        phase := updF s.phase i (.reading (P.txs i) [] false) }
  | execReadMv (i : TxId) (l : Loc) (k : Val → Prog) (reads : List ReadRec) (blocked : Bool)
      (j : TxId) (e : Entry)
      (hp : s.phase i = .reading (.read l k) reads blocked) (hr : resolve s.mv i l = some (j, e)) :
      Step P s (setPhase s i (.reading (k e.val)
        ({ loc := l, ver := some (j, e.inc), val := e.val } :: reads) (blocked || e.est)))
  | execReadMiss (i : TxId) (l : Loc) (k : Val → Prog) (reads : List ReadRec) (blocked : Bool)
      (hp : s.phase i = .reading (.read l k) reads blocked) (hr : resolve s.mv i l = none) :
      Step P s (setPhase s i (.fetching l k reads blocked))
  | execFetch (i : TxId) (l : Loc) (k : Val → Prog) (reads : List ReadRec) (blocked : Bool)
      (hp : s.phase i = .fetching l k reads blocked) :
      Step P s (setPhase s i (.reading (k (cval P s s.com l))
        ({ loc := l, ver := none, val := cval P s s.com l } :: reads) blocked))
  | execFinishOk (i : TxId) (w : List (Loc × Val)) (o : Nat) (reads : List ReadRec) (blocked : Bool)
      (hp : s.phase i = .reading (.done w o) reads blocked) :
      Step P s { s with hist := fun j m => if j = i ∧ m = s.inc i then some w else s.hist j m,
                        phase := updF s.phase i
                          (.publishing { reads := reads.reverse, writes := w, out := o, blocked := blocked }
                            (writeLocs w) false) }
  | execFinishErr (i : TxId) (e : Nat) (reads : List ReadRec) (blocked : Bool)
      (hp : s.phase i = .reading (.fail e) reads blocked) :
      Step P s (setPhase s i (.errMark e (oldWrites s i) (oldLocs s i)))
  | publishOne (i : TxId) (run : Pending) (l : Loc) (todo : List Loc) (newLoc : Bool) (v : Val)
      (hp : s.phase i = .publishing run todo newLoc) (hl : l ∈ todo)
      (hv : lookup run.writes l = some v) :
      Step P s { s with mv := setMv s.mv l i (some { inc := s.inc i, val := v, est := run.blocked }),
                        phase := updF s.phase i
                          (.publishing run (todo.erase l) (newLoc || !decide (l ∈ oldLocs s i))) }
  | endPublish (i : TxId) (run : Pending) (newLoc : Bool)
      (hp : s.phase i = .publishing run [] newLoc) :
      Step P s (setPhase s i (.removing run
        ((oldLocs s i).filter (fun l => !decide (l ∈ writeLocs run.writes))) newLoc))
  | removeOne (i : TxId) (run : Pending) (l : Loc) (todo : List Loc) (newLoc : Bool)
      (hp : s.phase i = .removing run todo newLoc) (hl : l ∈ todo) :
      Step P s { s with mv := setMv s.mv l i none,
                        phase := updF s.phase i (.removing run (todo.erase l) newLoc) }
  | recordBlocked (i : TxId) (run : Pending) (newLoc : Bool)
      (hp : s.phase i = .removing run [] newLoc) (hb : run.blocked = true) :
      Step P s (setPhase { s with result := updF s.result i (some
          { inc := s.inc i, reads := run.reads, writes := run.writes, out := .ok run.writes run.out }) }
        i (.tailPreTs (i + 1) .conflict))
  | recordRewind (i : TxId) (run : Pending) (newLoc handoff : Bool)
      (hp : s.phase i = .removing run [] newLoc) (hb : run.blocked = false)
      (hn : (newLoc || handoff) = true) :
      Step P s (setPhase { s with result := updF s.result i (some
          { inc := s.inc i, reads := run.reads, writes := run.writes, out := .ok run.writes run.out }) }
        i (.tailPreTs i .executed))
  | recordDirect (i : TxId) (run : Pending)
      (hp : s.phase i = .removing run [] false) (hb : run.blocked = false) :
      Step P s { s with result := updF s.result i (some
          { inc := s.inc i, reads := run.reads, writes := run.writes, out := .ok run.writes run.out }),
                        status := updF s.status i .validating, phase := updF s.phase i .valPreTs }
  | markErrSome (i : TxId) (e : Nat) (ow : List (Loc × Val)) (l : Loc) (todo : List Loc) (en : Entry)
      (hp : s.phase i = .errMark e ow todo) (hl : l ∈ todo) (hm : s.mv l i = some en) :
      Step P s { s with mv := setMv s.mv l i (some { en with est := true }),
                        phase := updF s.phase i (.errMark e ow (todo.erase l)) }
  | markErrNone (i : TxId) (e : Nat) (ow : List (Loc × Val)) (l : Loc) (todo : List Loc)
      (hp : s.phase i = .errMark e ow todo) (hl : l ∈ todo) (hm : s.mv l i = none) :
      Step P s (setPhase s i (.errMark e ow (todo.erase l)))
  | markValSome (i : TxId) (l : Loc) (todo : List Loc) (en : Entry)
      (hp : s.phase i = .valMark todo) (hl : l ∈ todo) (hm : s.mv l i = some en) :
      Step P s { s with mv := setMv s.mv l i (some { en with est := true }),
                        phase := updF s.phase i (.valMark (todo.erase l)) }
  | markValNone (i : TxId) (l : Loc) (todo : List Loc)
      (hp : s.phase i = .valMark todo) (hl : l ∈ todo) (hm : s.mv l i = none) :
      Step P s (setPhase s i (.valMark (todo.erase l)))
  | endErrMark (i : TxId) (e : Nat) (ow : List (Loc × Val))
      (hp : s.phase i = .errMark e ow []) :
      Step P s { s with result := updF s.result i (some
          { inc := s.inc i, reads := [], writes := ow, out := .err e }),
                        phase := updF s.phase i (.tailPreTs (i + 1) .conflict) }
  | tailTs (i : TxId) (k : Nat) (st : Status) (hp : s.phase i = .tailPreTs k st) (hk : k < P.n) :
      Step P s { s with clock := s.clock + 1, phase := updF s.phase i (.tailLts k s.clock st) }
  | tailSkip (i : TxId) (k : Nat) (st : Status) (hp : s.phase i = .tailPreTs k st) (hk : ¬ k < P.n) :
      Step P s { s with status := updF s.status i st, phase := updF s.phase i .idle }
  | tailLts (i : TxId) (k ts : Nat) (st : Status) (hp : s.phase i = .tailLts k ts st) :
      Step P s { s with lts := updF s.lts k (max (s.lts k) ts), status := updF s.status i st,
                        phase := updF s.phase i .idle }
  | claimVal (i : TxId) (hp : s.phase i = .idle)
      (hs : s.status i = .executed ∨ s.status i = .unconfirmed) :
      Step P s { s with status := updF s.status i .validating, phase := updF s.phase i .valPreTs }
  | valTs (i : TxId) (r : Result) (hp : s.phase i = .valPreTs) (hr : s.result i = some r) :
      Step P s { s with clock := s.clock + 1,
                        phase := updF s.phase i (.valScan s.clock [] r.reads false) }
  | valCheck (i : TxId) (ts : Nat) (done : List ReadRec) (r : ReadRec) (todo : List ReadRec)
      (conflict : Bool) (k : Nat) (hp : s.phase i = .valScan ts done todo conflict)
      (hk : todo[k]? = some r) :
      Step P s (setPhase s i (.valScan ts (r :: done) (todo.eraseIdx k)
        (conflict || !readOk s.mv i r)))
  | endScanConflict (i : TxId) (ts : Nat) (done : List ReadRec)
      (hp : s.phase i = .valScan ts done [] true) :
      Step P s (setPhase s i (.valMark (oldLocs s i)))
  | endScanOk (i : TxId) (ts : Nat) (done : List ReadRec)
      (hp : s.phase i = .valScan ts done [] false) :
      Step P s { s with uts := updF s.uts i (max (s.uts i) ts),
                        status := updF s.status i .unconfirmed, phase := updF s.phase i .idle }
  | endValMark (i : TxId) (hp : s.phase i = .valMark []) :
      Step P s (setPhase s i (.tailPreTs (i + 1) .conflict))
  | finalize (hi : s.fin < P.n) (hp : s.phase s.fin = .idle) (hs : s.status s.fin = .unconfirmed)
      (hg : s.uts s.fin > max s.lower (s.lts s.fin)) :
      Step P s { s with lower := max s.lower (s.lts s.fin),
                        status := updF s.status s.fin .finality, fin := s.fin + 1 }
  | commit (r : Result) (hc : s.com < s.fin) (hr : s.result s.com = some r) :
      Step P s { s with outcomes := s.outcomes ++ [r.out], com := s.com + 1 }

theorem step_sound {P : Params} {s s' : State} {a : Act} (h : step P s a = some s') :
    Step P s s' := by
  cases a with
  | claimExec i =>
    simp only [step] at h
    split at h
    · rename_i hi
      split at h
      · rename_i hp hs; simp at h; subst h; exact .claimExec i hi hp (Or.inl hs)
      · rename_i hp hs; simp at h; subst h; exact .claimExec i hi hp (Or.inr hs)
      · simp at h
    · simp at h
  | execRead i =>
    simp only [step] at h
    split at h
    · rename_i l k reads blocked hp
      split at h
      · rename_i j e hr; simp at h; subst h; exact .execReadMv i l k reads blocked j e hp hr
      · rename_i hr; simp at h; subst h; exact .execReadMiss i l k reads blocked hp hr
    · simp at h
  | execFetch i =>
    simp only [step] at h
    split at h
    · rename_i l k reads blocked hp; simp at h; subst h; exact .execFetch i l k reads blocked hp
    · simp at h
  | execFinish i =>
    simp only [step] at h
    split at h
    · rename_i w o reads blocked hp; simp at h; subst h; exact .execFinishOk i w o reads blocked hp
    · rename_i e reads blocked hp; simp at h; subst h; exact .execFinishErr i e reads blocked hp
    · simp at h
  | publishOne i l =>
    simp only [step] at h
    split at h
    · rename_i run todo newLoc hp
      split at h
      · rename_i hl
        split at h
        · rename_i v hv; simp at h; subst h; exact .publishOne i run l todo newLoc v hp hl hv
        · simp at h
      · simp at h
    · simp at h
  | endPublish i =>
    simp only [step] at h
    split at h
    · rename_i run newLoc hp; simp at h; subst h; exact .endPublish i run newLoc hp
    · simp at h
  | removeOne i l =>
    simp only [step] at h
    split at h
    · rename_i run todo newLoc hp
      split at h
      · rename_i hl; simp at h; subst h; exact .removeOne i run l todo newLoc hp hl
      · simp at h
    · simp at h
  | recordResult i handoff =>
    simp only [step] at h
    split at h
    · rename_i run newLoc hp
      split at h
      · rename_i hb; simp at h; subst h; exact .recordBlocked i run newLoc hp hb
      · rename_i hb
        have hb' : run.blocked = false := by simpa using hb
        split at h
        · rename_i hn; simp at h; subst h; exact .recordRewind i run newLoc handoff hp hb' hn
        · rename_i hn
          simp at h; subst h
          have : newLoc = false := by
            cases newLoc <;> simp_all
          subst this
          exact .recordDirect i run hp hb'
    · simp at h
  | markOne i l =>
    simp only [step] at h
    split at h
    · rename_i e ow todo hp
      split at h
      · rename_i hl
        split at h
        · rename_i en hm; simp at h; subst h; exact .markErrSome i e ow l todo en hp hl hm
        · rename_i hm; simp at h; subst h; exact .markErrNone i e ow l todo hp hl hm
      · simp at h
    · rename_i todo hp
      split at h
      · rename_i hl
        split at h
        · rename_i en hm; simp at h; subst h; exact .markValSome i l todo en hp hl hm
        · rename_i hm; simp at h; subst h; exact .markValNone i l todo hp hl hm
      · simp at h
    · simp at h
  | endErrMark i =>
    simp only [step] at h
    split at h
    · rename_i e ow hp; simp at h; subst h; exact .endErrMark i e ow hp
    · simp at h
  | tailTs i =>
    simp only [step] at h
    split at h
    · rename_i k st hp
      split at h
      · rename_i hk; simp at h; subst h; exact .tailTs i k st hp hk
      · rename_i hk; simp at h; subst h; exact .tailSkip i k st hp hk
    · simp at h
  | tailLts i =>
    simp only [step] at h
    split at h
    · rename_i k ts st hp; simp at h; subst h; exact .tailLts i k ts st hp
    · simp at h
  | claimVal i =>
    simp only [step] at h
    split at h
    · rename_i hp hs; simp at h; subst h; exact .claimVal i hp (Or.inl hs)
    · rename_i hp hs; simp at h; subst h; exact .claimVal i hp (Or.inr hs)
    · simp at h
  | valTs i =>
    simp only [step] at h
    split at h
    · rename_i r hp hr; simp at h; subst h; exact .valTs i r hp hr
    · simp at h
  | valCheck i k =>
    simp only [step] at h
    split at h
    · rename_i ts done todo conflict hp
      split at h
      · rename_i r hk; simp at h; subst h; exact .valCheck i ts done r todo conflict k hp hk
      · simp at h
    · simp at h
  | endScan i =>
    simp only [step] at h
    split at h
    · rename_i ts done conflict hp
      split at h
      · rename_i hc; simp at h; subst h; subst hc; exact .endScanConflict i ts done hp
      · rename_i hc
        have : conflict = false := by simpa using hc
        subst this
        simp at h; subst h; exact .endScanOk i ts done hp
    · simp at h
  | endValMark i =>
    simp only [step] at h
    split at h
    · rename_i hp; simp at h; subst h; exact .endValMark i hp
    · simp at h
  | finalize =>
    simp only [step] at h
    split at h
    · rename_i hi
      split at h
      · rename_i hp hs
        split at h
        · rename_i hg; simp at h; subst h; exact .finalize hi hp hs hg
        · simp at h
      · simp at h
    · simp at h
  | commit =>
    simp only [step] at h
    split at h
    · rename_i hc
      split at h
      · rename_i r hr; simp at h; subst h; exact .commit r hc hr
      · simp at h
    · simp at h

/-- Reachability in relational form. -/
inductive Reach (P : Params) : State → Prop where
  | init : Reach P init
  | step {s s' : State} : Reach P s → Step P s s' → Reach P s'

theorem reach_of_run {P : Params} : ∀ (as : List Act) (s s' : State),
    Reach P s → run P s as = some s' → Reach P s' := by
  intro as
  induction as with
  | nil => intro s s' hr h; simp [run] at h; subst h; exact hr
  | cons a as ih =>
    intro s s' hr h
    simp only [run] at h
    split at h
    · simp at h
    · rename_i s1 hs
      exact ih s1 s' (.step hr (step_sound hs)) h

theorem reach_of_reachable {P : Params} {s : State} (h : Reachable P s) : Reach P s := by
  obtain ⟨as, h⟩ := h
  exact reach_of_run as _ _ .init h

end Grevm.Sched
