/-
Inductive invariant of the committed-state cache model (`Grevm/Model/Cache.lean`) for the
repaired code (`fixed = true`).
-/
import Grevm.Model.Cache

namespace Grevm.Cache

@[simp] theorem setR_known (s : State) (t : Nat) (p : RPc) : (setR s t p).known = s.known := rfl
@[simp] theorem setR_cache (s : State) (t : Nat) (p : RPc) : (setR s t p).cache = s.cache := rfl
@[simp] theorem setR_logical (s : State) (t : Nat) (p : RPc) :
    (setR s t p).logical = s.logical := rfl
@[simp] theorem setR_dbv (s : State) (t : Nat) (p : RPc) : (setR s t p).dbv = s.dbv := rfl
@[simp] theorem setR_cpc (s : State) (t : Nat) (p : RPc) : (setR s t p).cpc = s.cpc := rfl
@[simp] theorem setR_rpc (s : State) (t : Nat) (p : RPc) (u : Nat) :
    (setR s t p).rpc u = if u = t then p else s.rpc u := rfl
@[simp] theorem serve_setR (s : State) (t : Nat) (p : RPc) : serve (setR s t p) = serve s := rfl

/-- Reader part: what an in-flight reader holds. -/
def RInv (s : State) : Prop :=
  ∀ t v wk, s.rpc t = .fetched v wk →
    (wk = false → v = s.dbv) ∧ (wk = true → v = 0 ∧ s.known = true)

/-- Commit part, by commit phase. -/
def CInv (s : State) : Prop :=
  match s.cpc with
  | .idle => serve s = s.logical
  | .statusSet w =>
      s.known = true ∧ (w = none → s.logical = 0) ∧ (∀ v, w = some v → s.logical = v)
  | .pendingWrite v => s.logical = v
  | .clearedFirst _ => False

def Inv (s : State) : Prop := RInv s ∧ CInv s

theorem inv_init (dbv : Nat) (known : Bool) : Inv (init dbv known) := by
  refine ⟨?_, ?_⟩
  · intro t v wk h
    simp [init] at h
  · cases known <;> simp [CInv, init, serve]

theorem inv_step {s s' : State} {a : Act} (hi : Inv s) (h : step true s a = some s') :
    Inv s' := by
  obtain ⟨hr, hcv⟩ := hi
  cases a with
  | rLook t =>
    simp only [step] at h
    split at h
    · split at h
      · cases h
        refine ⟨?_, ?_⟩
        · intro u v wk hu
          simp only [setR_rpc] at hu
          split at hu
          · cases hu
          · simpa using hr u v wk hu
        · simpa [CInv] using hcv
      · cases h
        refine ⟨?_, ?_⟩
        · intro u v wk hu
          simp only [setR_rpc] at hu
          split at hu
          · cases hu
            cases hk : s.known <;> simp [hk]
          · simpa using hr u v wk hu
        · simpa [CInv] using hcv
    · cases h
  | rInsert t =>
    simp only [step] at h
    split at h
    · rename_i v wk hpc
      have hrt := hr t v wk hpc
      split at h
      · cases h
        refine ⟨?_, ?_⟩
        · intro u v' wk' hu
          simp only [setR_rpc] at hu
          split at hu
          · cases hu
          · simpa using hr u v' wk' hu
        · simpa [CInv] using hcv
      · rename_i hcache
        cases h
        refine ⟨?_, ?_⟩
        · intro u v' wk' hu
          simp only [setR_rpc] at hu
          split at hu
          · cases hu
          · simpa using hr u v' wk' hu
        · unfold CInv at hcv ⊢
          simp only [setR_cpc]
          split <;> rename_i hc <;> simp only [hc] at hcv
          · simp only [serve_setR, setR_logical]
            simp only [serve, hcache] at hcv ⊢
            cases wk <;> cases hk : s.known <;> simp_all
          · simpa using hcv
          · simpa using hcv
    · cases h
  | cBegin op =>
    simp only [step] at h
    split at h
    · rename_i hc
      unfold CInv at hcv
      simp only [hc] at hcv
      split at h
      · rename_i slot bk
        split at h
        · cases h
        · rename_i hg
          split at h
          · cases h
            refine ⟨?_, ?_⟩
            · intro u v' wk' hu
              have := hr u v' wk' hu
              simp only at hu ⊢
              cases wk' <;> simp_all
            · simp [CInv, Op.logicalAfter]
          · cases h
            refine ⟨?_, ?_⟩
            · intro u v' wk' hu
              have := hr u v' wk' hu
              simp only at hu ⊢
              cases wk' <;> simp_all
            · simp only [CInv, hc, Op.logicalAfter, Option.getD]
              simp only [serve] at hcv ⊢
              cases hcache : s.cache <;> cases hk : s.known <;> cases bk <;> simp_all
      · simp only [if_true] at h
        cases h
        refine ⟨?_, ?_⟩
        · intro u v' wk' hu
          have := hr u v' wk' hu
          simp only at hu ⊢
          cases wk' <;> simp_all
        · cases op <;> simp_all [CInv, Op.logicalAfter, Op.write]
    · cases h
  | cClear =>
    simp only [step] at h
    split at h
    · rename_i w hc
      unfold CInv at hcv
      simp only [hc] at hcv
      split at h
      · cases h
        refine ⟨fun u v' wk' hu => hr u v' wk' hu, ?_⟩
        simp_all [CInv]
      · cases h
        refine ⟨fun u v' wk' hu => hr u v' wk' hu, ?_⟩
        simp_all [CInv, serve]
    · rename_i op hc
      unfold CInv at hcv
      simp only [hc] at hcv
    · cases h
  | cWrite =>
    simp only [step] at h
    split at h
    · rename_i v hc
      unfold CInv at hcv
      simp only [hc] at hcv
      cases h
      refine ⟨fun u v' wk' hu => hr u v' wk' hu, ?_⟩
      simp_all [CInv, serve]
    · cases h

theorem inv_run {as : List Act} {s s' : State} (hi : Inv s) (h : run true s as = some s') :
    Inv s' := by
  induction as generalizing s with
  | nil => simp only [run] at h; cases h; exact hi
  | cons a as ih =>
    simp only [run] at h
    split at h
    · cases h
    · rename_i s1 hs
      exact ih (inv_step hi hs) h

end Grevm.Cache
