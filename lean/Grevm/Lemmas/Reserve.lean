/-
Lemmas about the reserve planner model (`Grevm/Model/Reserve.lean`) used by `Props/C13.lean`.
-/
import Grevm.Model.Reserve

namespace Grevm.Reserve

/-! ## Sender index restricted to a window `[k, k+m)` -/

/-- Ascending ids in `[k, k+m)` of the transactions sent by `a`. -/
def idsFrom (txs : List Tx) (a k m : Nat) : List Nat :=
  (List.range' k m).filter fun i => (txs.getD i default).caller == a

theorem senderIds_eq (txs : List Tx) (a : Nat) :
    senderIds txs a = idsFrom txs a 0 txs.length := by
  simp [senderIds, idsFrom, List.range_eq_range']

theorem idsFrom_zero (txs : List Tx) (a k : Nat) : idsFrom txs a k 0 = [] := by
  simp [idsFrom]

theorem idsFrom_succ (txs : List Tx) (a k m : Nat) :
    idsFrom txs a k (m + 1) =
      if (txs.getD k default).caller == a then k :: idsFrom txs a (k + 1) m
      else idsFrom txs a (k + 1) m := by
  simp only [idsFrom, List.range'_succ, List.filter_cons]

theorem idsFrom_ge (txs : List Tx) (a k m x : Nat) (h : x ∈ idsFrom txs a k m) : k ≤ x := by
  simp only [idsFrom, List.mem_filter, List.mem_range'_1] at h
  exact h.1.1

/-! ## Binary search -/

theorem partitionPoint_eq_zero (txid : Nat) (l : List Nat) (h : ∀ x ∈ l, txid < x) :
    partitionPoint txid l = 0 := by
  cases l with
  | nil => rfl
  | cons i rest =>
      have := h i (by simp)
      simp only [partitionPoint]
      rw [if_neg (by omega)]

/-- Dropping the prefix found by the binary search leaves exactly the ids after `txid`. -/
theorem drop_partitionPoint_idsFrom (txs : List Tx) (a txid : Nat) :
    ∀ m k, k ≤ txid + 1 → txid + 1 ≤ k + m →
      (idsFrom txs a k m).drop (partitionPoint txid (idsFrom txs a k m)) =
        idsFrom txs a (txid + 1) (k + m - (txid + 1)) := by
  intro m
  induction m with
  | zero =>
      intro k h1 h2
      have : k = txid + 1 := by omega
      subst this
      simp [idsFrom_zero, partitionPoint]
  | succ m ih =>
      intro k h1 h2
      by_cases hk : k = txid + 1
      · subst hk
        rw [partitionPoint_eq_zero]
        · simp
        · intro x hx
          have := idsFrom_ge _ _ _ _ _ hx
          omega
      · have hle : k ≤ txid := by omega
        have e : k + (m + 1) - (txid + 1) = k + 1 + m - (txid + 1) := by omega
        rw [idsFrom_succ, e]
        split
        · simp only [partitionPoint]
          rw [if_pos hle, Nat.add_comm 1, List.drop_succ_cons]
          exact ih (k + 1) (by omega) (by omega)
        · exact ih (k + 1) (by omega) (by omega)

/-! ## Suffix array -/

/-- Saturating cost of a list of ids, accumulated from the right. -/
def sufCost (txs : List Tx) (ids : List Nat) : Nat :=
  ids.foldr (fun i acc => satAdd acc ((txs.getD i default).maxCost)) 0

theorem costFrom_headD (txs : List Tx) (ids : List Nat) :
    (costFrom txs ids).headD 0 = sufCost txs ids := by
  induction ids with
  | nil => rfl
  | cons i rest ih => simp [costFrom, sufCost] at ih ⊢; rw [ih]

theorem costFrom_getD (txs : List Tx) (ids : List Nat) :
    ∀ j, (costFrom txs ids).getD j 0 = sufCost txs (ids.drop j) := by
  induction ids with
  | nil => intro j; simp [costFrom, sufCost]
  | cons i rest ih =>
      intro j
      cases j with
      | zero =>
          rw [List.drop_zero, ← costFrom_headD]
          cases costFrom txs (i :: rest) <;> rfl
      | succ j =>
          simp only [costFrom, List.drop_succ_cons]
          rw [← ih j]
          simp

theorem sufCost_idsFrom (txs : List Tx) (a : Nat) :
    ∀ m k, sufCost txs (idsFrom txs a k m) = reqFrom txs a k m := by
  intro m
  induction m with
  | zero => intro k; simp [idsFrom_zero, sufCost, reqFrom]
  | succ m ih =>
      intro k
      rw [idsFrom_succ]
      simp only [reqFrom]
      split
      · simp only [sufCost, List.foldr_cons]
        rw [← ih (k + 1)]
        rfl
      · exact ih (k + 1)

/-- `required_after` is the saturating cost of the ids left after the binary search. -/
theorem requiredAfter_eq_sufCost (txs : List Tx) (txid a : Nat) :
    requiredAfter txs txid a =
      sufCost txs ((senderIds txs a).drop (partitionPoint txid (senderIds txs a))) := by
  simp only [requiredAfter]
  split
  · rename_i h
    have h' : partitionPoint txid (senderIds txs a) = (senderIds txs a).length := by
      simpa using h
    rw [h', List.drop_length]
    rfl
  · exact costFrom_getD _ _ _

/-! ## Sums -/

theorem sumFrom_succ (txs : List Tx) (a k m : Nat) :
    sumFrom txs a k (m + 1) =
      (if (txs.getD k default).caller == a then (txs.getD k default).maxCost else 0)
        + sumFrom txs a (k + 1) m := by
  simp only [sumFrom]
  split <;> omega

theorem sumFrom_tail_le (txs : List Tx) (a k m : Nat) :
    sumFrom txs a (k + 1) m ≤ sumFrom txs a k (m + 1) := by
  rw [sumFrom_succ]; omega

end Grevm.Reserve
