/-
Direct hand-off inside `remove(d)`: the carried `nx` is always `d + 1` and already processed,
hence at most one hand-off per `remove` call.  Also `n` is constant.
-/
import Grevm.Lemmas.TxDepInv

namespace Grevm.TxDep

theorem step_n {s s' : State} {t : Tid} {pick : Nat} {r : Ret} (h : Step s t pick s' r) :
    s'.n = s.n := by
  cases h
  all_goals try (rename_i hrc; cases hrc)
  all_goals rfl

theorem n_reachable {n : Nat} {s : State} (h : Reachable n s) : s.n = n :=
  reachable_invariant (fun s => s.n = n) n rfl
    (fun _ _ _ _ hp hs => (step_n (step_sound hs)).trans hp) s h

/-- `(d, seen, nx)` of a thread inside the iteration of `remove(d)`. -/
def rmFull : Pc → Option (Nat × List Nat × Option Nat)
  | .rmIter d _ seen nx => some (d, seen, nx)
  | .rmMin d _ seen nx _ => some (d, seen, nx)
  | _ => none

/-- the hand-off value carried by a thread inside `remove` -/
def pcNx : Pc → Option Nat
  | .rmIter _ _ _ nx => nx
  | .rmMin _ _ _ nx _ => nx
  | _ => none

theorem entry_rmFull {n : Nat} {p : Pc} (h : IsEntry n p) : rmFull p = none := by
  cases p <;> simp_all [IsEntry, rmFull]

def NxInv (s : State) : Prop :=
  ∀ u d seen i, rmFull (s.pc u) = some (d, seen, some i) → i = d + 1 ∧ i ∈ seen

theorem nxInv_init (n : Nat) : NxInv (init n) := by
  intro u d seen i h; simp [init, rmFull] at h

theorem nxInv_step {s s' : State} {t : Tid} {pick : Nat} {r : Ret} (hinv : NxInv s)
    (h : Step s t pick s' r) : NxInv s' := by
  have et := hinv t
  cases h
  case call p hpc he =>
    intro u d seen i hu
    by_cases hut : u = t
    · subst hut; simp [setPc, upd, entry_rmFull he] at hu
    · simp only [setPc, upd, if_neg hut] at hu; exact hinv u d seen i hu
  all_goals try (rename_i hrc; cases hrc)
  all_goals
    have hpc := (by assumption : s.pc t = _)
    rw [hpc] at et
    intro u d' seen' i hu
    by_cases hut : u = t
    · subst hut
      simp only [setPc, upd, rmFull, if_true] at et hu
      grind
    · exact hinv u d' seen' i (by simpa [setPc, upd, hut] using hu)

theorem nxInv_reachable {n : Nat} {s : State} (h : Reachable n s) : NxInv s :=
  reachable_invariant NxInv n (nxInv_init n)
    (fun _ _ _ _ hp hs => nxInv_step hp (step_sound hs)) s h

end Grevm.TxDep
