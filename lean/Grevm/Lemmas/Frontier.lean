/- Invariants of the execution-frontier model (helper lemmas for C15). -/
import Grevm.Model.Cursor

namespace Grevm.Cursor.Frontier

/-- Per-thread condition, monotone in the `executed` flags and the frontier. -/
def ThreadOk (n : Nat) (ex : Nat → Bool) (fr : Nat) : Pc → Prop
  | .advScan a b _ => a ≤ b ∧ b ≤ n ∧ (∀ i, i < b → ex i = true) ∧ a ≤ fr
  | .advMax a b _ => a ≤ b ∧ b ≤ n ∧ (∀ i, i < b → ex i = true) ∧ a ≤ fr
  | .curCheck f => (∀ i, i < f → ex i = true) ∧ f ≤ n ∧ f ≤ fr
  | .pubLoad1 i => i < n
  | .pubStore i => i < n
  | .pubLoad2 i => i < n
  | _ => True

theorem ThreadOk.mono {n : Nat} {ex ex' : Nat → Bool} {fr fr' : Nat} {p : Pc}
    (h : ThreadOk n ex fr p) (hex : ∀ i, ex i = true → ex' i = true) (hfr : fr ≤ fr') :
    ThreadOk n ex' fr' p := by
  cases p <;> simp only [ThreadOk] at h ⊢
  all_goals first
    | exact h
    | (obtain ⟨h1, h2, h3, h4⟩ := h
       exact ⟨h1, h2, fun i hi => hex i (h3 i hi), by omega⟩)
    | (obtain ⟨h1, h2, h3⟩ := h
       exact ⟨fun i hi => hex i (h1 i hi), h2, by omega⟩)

/-- Some thread is committed to moving the frontier past its current value. -/
def Resp (s : State) (t : Nat) : Prop :=
  (∃ a b r, s.pc t = .advScan a b r) ∨ (∃ a b r, s.pc t = .advMax a b r) ∨
    s.pc t = .pubLoad2 s.frontier

structure Inv (s : State) : Prop where
  sound : ∀ i, i < s.frontier → s.executed i = true
  le : s.frontier ≤ s.n
  threads : ∀ t, ThreadOk s.n s.executed s.frontier (s.pc t)
  progress : s.frontier < s.n → s.executed s.frontier = true → ∃ t, Resp s t

theorem inv_init (n : Nat) : Inv (init n) := by
  refine ⟨by simp [init], by simp [init], by intro t; simp [init, ThreadOk], ?_⟩
  simp [init]

end Grevm.Cursor.Frontier

namespace Grevm.Cursor.Frontier

@[simp] theorem setPc_pc (s : State) (t u : Nat) (p : Pc) :
    (setPc s t p).pc u = if u = t then p else s.pc u := rfl
@[simp] theorem setPc_frontier (s : State) (t : Nat) (p : Pc) : (setPc s t p).frontier = s.frontier := rfl
@[simp] theorem setPc_executed (s : State) (t : Nat) (p : Pc) : (setPc s t p).executed = s.executed := rfl
@[simp] theorem setPc_n (s : State) (t : Nat) (p : Pc) : (setPc s t p).n = s.n := rfl

/-- Generic re-establishment of the invariant after thread `t` moved to `p`, the flags grew to
    `ex'` and the frontier grew to `fr'`. -/
theorem inv_update {s : State} (hi : Inv s) (t : Nat) (p : Pc) (ex' : Nat → Bool) (fr' : Nat)
    (hex : ∀ i, s.executed i = true → ex' i = true) (hfr : s.frontier ≤ fr') (hle : fr' ≤ s.n)
    (hsound : ∀ i, i < fr' → ex' i = true)
    (hp : ThreadOk s.n ex' fr' p)
    (hprog : fr' < s.n → ex' fr' = true →
      (∃ a b r, p = .advScan a b r) ∨ (∃ a b r, p = .advMax a b r) ∨ p = .pubLoad2 fr' ∨
      (∃ u, u ≠ t ∧ ((∃ a b r, s.pc u = .advScan a b r) ∨ (∃ a b r, s.pc u = .advMax a b r) ∨
        s.pc u = .pubLoad2 fr'))) :
    Inv (setPc { s with executed := ex', frontier := fr' } t p) := by
  refine ⟨hsound, hle, ?_, ?_⟩
  · intro u
    simp only [setPc_pc, setPc_n, setPc_executed, setPc_frontier]
    split
    · exact hp
    · exact (hi.threads u).mono hex hfr
  · intro h1 h2
    simp only [setPc_n, setPc_executed, setPc_frontier] at h1 h2
    rcases hprog h1 h2 with h | h | h | ⟨u, hu, h⟩
    · exact ⟨t, Or.inl (by simpa using h)⟩
    · exact ⟨t, Or.inr (Or.inl (by simpa using h))⟩
    · exact ⟨t, Or.inr (Or.inr (by simp [h]))⟩
    · refine ⟨u, ?_⟩
      simp only [Resp, setPc_pc, setPc_frontier, if_neg hu]
      exact h

/-- Old responsible threads other than `t` stay responsible while the frontier is unchanged. -/
theorem old_resp {s : State} (hi : Inv s) (t : Nat) (hnot : ¬ Resp s t)
    (h1 : s.frontier < s.n) (h2 : s.executed s.frontier = true) :
    ∃ u, u ≠ t ∧ ((∃ a b r, s.pc u = .advScan a b r) ∨ (∃ a b r, s.pc u = .advMax a b r) ∨
        s.pc u = .pubLoad2 s.frontier) := by
  obtain ⟨u, hu⟩ := hi.progress h1 h2
  refine ⟨u, ?_, hu⟩
  intro h; subst h; exact hnot hu

theorem inv_step {s s' : State} {a : Act} {e : Ev} (hi : Inv s) (h : step s a = some (s', e)) :
    Inv s' := by
  cases a with
  | callPublish t i =>
    simp only [step] at h
    split at h <;> try simp at h
    rename_i hpc
    obtain ⟨hlt, rfl, rfl⟩ := h
    have hnot : ¬ Resp s t := by simp [Resp, hpc]
    have := inv_update hi t (.pubLoad1 i) s.executed s.frontier (fun _ h => h) (Nat.le_refl _) hi.le
      hi.sound (by simpa [ThreadOk] using hlt)
      (fun h1 h2 => Or.inr (Or.inr (Or.inr (old_resp hi t hnot h1 h2))))
    simpa using this
  | callCurrent t =>
    simp only [step] at h
    split at h <;> try simp at h
    rename_i hpc
    obtain ⟨rfl, rfl⟩ := h
    have hnot : ¬ Resp s t := by simp [Resp, hpc]
    have := inv_update hi t .curLoad s.executed s.frontier (fun _ h => h) (Nat.le_refl _) hi.le
      hi.sound (by simp [ThreadOk])
      (fun h1 h2 => Or.inr (Or.inr (Or.inr (old_resp hi t hnot h1 h2))))
    simpa using this
  | stepT t =>
    simp only [step] at h
    have hth := hi.threads t
    split at h
    · simp at h
    · -- pubLoad1
      rename_i i hpc
      have hnot : ¬ Resp s t := by simp [Resp, hpc]
      rw [hpc] at hth
      simp only [ThreadOk] at hth
      split at h <;> simp at h <;> obtain ⟨rfl, rfl⟩ := h
      · have := inv_update hi t .idle s.executed s.frontier (fun _ h => h) (Nat.le_refl _) hi.le
          hi.sound (by simp [ThreadOk])
          (fun h1 h2 => Or.inr (Or.inr (Or.inr (old_resp hi t hnot h1 h2))))
        simpa using this
      · have := inv_update hi t (.pubStore i) s.executed s.frontier (fun _ h => h) (Nat.le_refl _)
          hi.le hi.sound (by simpa [ThreadOk] using hth)
          (fun h1 h2 => Or.inr (Or.inr (Or.inr (old_resp hi t hnot h1 h2))))
        simpa using this
    · -- pubStore
      rename_i i hpc
      have hnot : ¬ Resp s t := by simp [Resp, hpc]
      rw [hpc] at hth
      simp only [ThreadOk] at hth
      simp at h
      obtain ⟨rfl, rfl⟩ := h
      refine inv_update hi t (.pubLoad2 i) _ s.frontier ?_ (Nat.le_refl _) hi.le ?_ ?_ ?_
      · intro j hj; simp [hj]
      · intro j hj; simp [hi.sound j hj]
      · simpa [ThreadOk] using hth
      · intro h1 h2
        by_cases hif : s.frontier = i
        · right; right; left; rw [hif]
        · have : s.executed s.frontier = true := by simpa [hif] using h2
          exact Or.inr (Or.inr (Or.inr (old_resp hi t hnot h1 this)))
    · -- pubLoad2
      rename_i i hpc
      rw [hpc] at hth
      simp only [ThreadOk] at hth
      split at h <;> simp at h <;> obtain ⟨rfl, rfl⟩ := h
      · rename_i hif
        have := inv_update hi t (.advScan s.frontier s.frontier (.unit i)) s.executed s.frontier
          (fun _ h => h) (Nat.le_refl _) hi.le hi.sound
          (by simp only [ThreadOk]; exact ⟨Nat.le_refl _, hi.le, hi.sound, Nat.le_refl _⟩)
          (fun _ _ => Or.inl ⟨_, _, _, rfl⟩)
        simpa using this
      · rename_i hif
        have hnot : ¬ Resp s t := by
          simp only [Resp, hpc]; simp; intro h; exact hif h
        have := inv_update hi t .idle s.executed s.frontier (fun _ h => h) (Nat.le_refl _) hi.le
          hi.sound (by simp [ThreadOk])
          (fun h1 h2 => Or.inr (Or.inr (Or.inr (old_resp hi t hnot h1 h2))))
        simpa using this
    · -- curLoad
      rename_i hpc
      have hnot : ¬ Resp s t := by simp [Resp, hpc]
      simp at h
      obtain ⟨rfl, rfl⟩ := h
      have := inv_update hi t (.curCheck s.frontier) s.executed s.frontier (fun _ h => h)
        (Nat.le_refl _) hi.le hi.sound
        (by simp only [ThreadOk]; exact ⟨hi.sound, hi.le, Nat.le_refl _⟩)
        (fun h1 h2 => Or.inr (Or.inr (Or.inr (old_resp hi t hnot h1 h2))))
      simpa using this
    · -- curCheck
      rename_i f hpc
      have hnot : ¬ Resp s t := by simp [Resp, hpc]
      rw [hpc] at hth
      simp only [ThreadOk] at hth
      split at h <;> simp at h <;> obtain ⟨rfl, rfl⟩ := h
      · have := inv_update hi t (.advScan f f .reload) s.executed s.frontier (fun _ h => h)
          (Nat.le_refl _) hi.le hi.sound
          (by simp only [ThreadOk]; exact ⟨Nat.le_refl _, hth.2.1, hth.1, hth.2.2⟩)
          (fun _ _ => Or.inl ⟨_, _, _, rfl⟩)
        simpa using this
      · have := inv_update hi t .idle s.executed s.frontier (fun _ h => h) (Nat.le_refl _) hi.le
          hi.sound (by simp [ThreadOk])
          (fun h1 h2 => Or.inr (Or.inr (Or.inr (old_resp hi t hnot h1 h2))))
        simpa using this
    · -- curReload
      rename_i hpc
      have hnot : ¬ Resp s t := by simp [Resp, hpc]
      simp at h
      obtain ⟨rfl, rfl⟩ := h
      have := inv_update hi t .idle s.executed s.frontier (fun _ h => h) (Nat.le_refl _) hi.le
        hi.sound (by simp [ThreadOk])
        (fun h1 h2 => Or.inr (Or.inr (Or.inr (old_resp hi t hnot h1 h2))))
      simpa using this
    · -- advScan
      rename_i a b r hpc
      rw [hpc] at hth
      simp only [ThreadOk] at hth
      obtain ⟨hab, hbn, hall, hafr⟩ := hth
      split at h
      · rename_i hc
        simp at h
        obtain ⟨rfl, rfl⟩ := h
        have := inv_update hi t (.advScan a (b + 1) r) s.executed s.frontier (fun _ h => h)
          (Nat.le_refl _) hi.le hi.sound
          (by
            simp only [ThreadOk]
            refine ⟨by omega, by omega, ?_, hafr⟩
            intro i hi'
            by_cases hib : i < b
            · exact hall i hib
            · have : i = b := by omega
              subst this; exact hc.2)
          (fun _ _ => Or.inl ⟨_, _, _, rfl⟩)
        simpa using this
      · rename_i hc
        split at h
        · rename_i hba
          simp at h
          -- leaving `advance` without a fetch_max: the frontier index itself is not executed
          have hfalse : s.frontier < s.n → s.executed s.frontier = true → False := by
            intro h1 h2
            have hb : b = s.frontier := by
              by_cases hlt : b < s.frontier
              · exact absurd ⟨by omega, hi.sound b hlt⟩ hc
              · omega
            subst hb
            exact hc ⟨h1, h2⟩
          cases r with
          | unit i =>
            simp only [afterAdvance] at h
            simp at h
            obtain ⟨rfl, rfl⟩ := h
            have := inv_update hi t .idle s.executed s.frontier (fun _ h => h) (Nat.le_refl _)
              hi.le hi.sound (by simp [ThreadOk]) (fun h1 h2 => absurd h2 (fun h2 => hfalse h1 h2))
            simpa using this
          | reload =>
            simp only [afterAdvance] at h
            simp at h
            obtain ⟨rfl, rfl⟩ := h
            have := inv_update hi t .curReload s.executed s.frontier (fun _ h => h) (Nat.le_refl _)
              hi.le hi.sound (by simp [ThreadOk]) (fun h1 h2 => absurd h2 (fun h2 => hfalse h1 h2))
            simpa using this
        · simp at h
          obtain ⟨rfl, rfl⟩ := h
          have := inv_update hi t (.advMax a b r) s.executed s.frontier (fun _ h => h)
            (Nat.le_refl _) hi.le hi.sound
            (by simp only [ThreadOk]; exact ⟨hab, hbn, hall, hafr⟩)
            (fun _ _ => Or.inr (Or.inl ⟨_, _, _, rfl⟩))
          simpa using this
    · -- advMax
      rename_i a b r hpc
      rw [hpc] at hth
      simp only [ThreadOk] at hth
      obtain ⟨hab, hbn, hall, hafr⟩ := hth
      simp at h
      obtain ⟨rfl, rfl⟩ := h
      refine inv_update hi t (.advScan (max s.frontier b) (max s.frontier b) r) s.executed
        (max s.frontier b) (fun _ h => h) (Nat.le_max_left _ _) ?_ ?_ ?_
        (fun _ _ => Or.inl ⟨_, _, _, rfl⟩)
      · exact Nat.max_le.mpr ⟨hi.le, hbn⟩
      · intro i hlt
        by_cases h1 : i < s.frontier
        · exact hi.sound i h1
        · exact hall i (by omega)
      · simp only [ThreadOk]
        refine ⟨Nat.le_refl _, Nat.max_le.mpr ⟨hi.le, hbn⟩, ?_, Nat.le_refl _⟩
        intro i hlt
        by_cases h1 : i < s.frontier
        · exact hi.sound i h1
        · exact hall i (by omega)

theorem inv_run : ∀ (as : List Act) (s s' : State) (es : List Ev),
    Inv s → run s as = some (s', es) → Inv s' := by
  intro as
  induction as with
  | nil => intro s s' es hi h; simp [run] at h; obtain ⟨rfl, rfl⟩ := h; exact hi
  | cons a as ih =>
    intro s s' es hi h
    simp only [run] at h
    split at h
    · simp at h
    · rename_i s1 e hstep
      split at h
      · simp at h
      · rename_i s2 es2 hrun
        simp at h
        obtain ⟨rfl, rfl⟩ := h
        exact ih s1 s2 es2 (inv_step hi hstep) hrun

end Grevm.Cursor.Frontier
