/- Preservation of invariant group 2 by every transition. -/
import Grevm.Lemmas.SchedInv2

namespace Grevm.Sched

open Grevm.Block

theorem inv2_init : Inv2 init := by
  intro j
  refine ⟨?_, ?_, ⟨?_, ?_, ?_⟩⟩
  · simp [Shape, init]
  · intro l e he; simp [init] at he
  · intro m w h; simp [init] at h
  · intro r h; simp [init] at h
  · simp [HistPhase, init]

/-- Tactic for the untouched transactions `j ≠ i` of a step of transaction `i`. -/
macro "other_tx" h:ident j:ident hj:ident : tactic =>
  `(tactic| exact ($h $j).frame
      (by intro l; simp [setMv, setPhase, updF, $hj:ident])
      (by simp [setPhase, updF, $hj:ident])
      (by simp [setPhase, updF, $hj:ident])
      (by simp [setPhase, updF, $hj:ident])
      (by first | rfl | (funext m; simp [setPhase, $hj:ident]))
      (by intro _; left; simp [setPhase, updF, $hj:ident]))

theorem Dirty.of_eq {col col' : Loc → Option Entry} {locs : List Loc} (h : Dirty col locs)
    (he : ∀ l, col' l = col l) : Dirty col' locs := by
  have : col' = col := funext he
  rw [this]; exact h

theorem mem_append_singleton {α : Type} {a b : α} {l : List α} : a ∈ l ++ [b] ↔ a ∈ l ∨ a = b := by
  simp

theorem mem_eraseIdx_or {α : Type} {x r : α} {l : List α} {k : Nat} (h : x ∈ l) (hk : l[k]? = some r) :
    x ∈ l.eraseIdx k ∨ x = r := by
  induction l generalizing k with
  | nil => simp at h
  | cons a t ih =>
    cases k with
    | zero =>
      simp at hk; subst hk
      rcases List.mem_cons.mp h with h' | h'
      · exact Or.inr h'
      · exact Or.inl (by simpa using h')
    | succ k =>
      simp at hk
      rcases List.mem_cons.mp h with h' | h'
      · left; simp [h']
      · rcases ih h' hk with h'' | h''
        · left; simp [h'']
        · exact Or.inr h''

theorem inv2_step {P : Params} {s s' : State} (h1 : Inv1 P s) (h : Inv2 s) (hs : Step P s s') :
    Inv2 s' := by
  cases hs with
  | claimExec i hi hp hst =>
    intro j
    by_cases hj : j = i
    · subst hj
      have hj := h j
      have hsh := hj.shape
      unfold Shape at hsh
      rw [hp] at hsh
      refine ⟨?_, ?_, ⟨?_, ?_, ?_⟩⟩
      · unfold Shape
        simp only [updF_same]
        rcases hst with hst | hst
        · rw [hst] at hsh
          simp only [] at hsh
          refine ⟨?_, ?_⟩
          · intro l e he; simp [hsh.2 l] at he
          · intro l _; simp [oldLocs, hsh.1]
        · rw [hst] at hsh
          simp only [] at hsh
          obtain ⟨r, hr, hd⟩ := hsh
          have hold : ∀ s' : State, s'.result = s.result → oldLocs s' j = r.locs :=
            fun s' h => by simp [oldLocs, h, hr]
          have := hold { s with status := updF s.status j .executing, inc := updF s.inc j (s.inc j + 1), phase := updF s.phase j (.reading (P.txs j) [] false) } rfl
          rw [this]; exact hd
      · exact hj.entry
      · intro m w hm
        have := hj.hist.le_inc m w hm
        simp only [updF_same]; omega
      · intro r hr
        have := hj.hist.res r hr
        simp only [updF_same]
        exact ⟨by omega, this.2⟩
      · unfold HistPhase
        simp only [updF_same]
        cases hh : s.hist j (s.inc j + 1) with
        | none => rfl
        | some w => have := hj.hist.le_inc _ w hh; omega
    · other_tx h j hj
  | execReadMv i l k reads blocked j' e hp hr =>
    intro j
    by_cases hj : j = i
    · subst hj
      have hj := h j
      have hsh := hj.shape; unfold Shape at hsh; rw [hp] at hsh
      have hph := hj.hist.phase; unfold HistPhase at hph; rw [hp] at hph
      refine ⟨?_, hj.entry, ⟨hj.hist.le_inc, hj.hist.res, ?_⟩⟩
      · unfold Shape; simp only [setPhase, updF_same]; exact hsh
      · unfold HistPhase; simp only [setPhase, updF_same]; exact hph
    · other_tx h j hj
  | execReadMiss i l k reads blocked hp hr =>
    intro j
    by_cases hj : j = i
    · subst hj
      have hj := h j
      have hsh := hj.shape; unfold Shape at hsh; rw [hp] at hsh
      have hph := hj.hist.phase; unfold HistPhase at hph; rw [hp] at hph
      refine ⟨?_, hj.entry, ⟨hj.hist.le_inc, hj.hist.res, ?_⟩⟩
      · unfold Shape; simp only [setPhase, updF_same]; exact hsh
      · unfold HistPhase; simp only [setPhase, updF_same]; exact hph
    · other_tx h j hj
  | execFetch i l k reads blocked hp =>
    intro j
    by_cases hj : j = i
    · subst hj
      have hj := h j
      have hsh := hj.shape; unfold Shape at hsh; rw [hp] at hsh
      have hph := hj.hist.phase; unfold HistPhase at hph; rw [hp] at hph
      refine ⟨?_, hj.entry, ⟨hj.hist.le_inc, hj.hist.res, ?_⟩⟩
      · unfold Shape; simp only [setPhase, updF_same]; exact hsh
      · unfold HistPhase; simp only [setPhase, updF_same]; exact hph
    · other_tx h j hj
  | execFinishOk i w o reads blocked hp =>
    intro j
    by_cases hj : j = i
    · subst hj
      have hj := h j
      have hsh := hj.shape; unfold Shape at hsh; rw [hp] at hsh
      have hph := hj.hist.phase; unfold HistPhase at hph; rw [hp] at hph
      refine ⟨?_, ?_, ⟨?_, ?_, ?_⟩⟩
      · unfold Shape; simp only [updF_same]
        refine ⟨[], by simp, by simp, writeLocs_nodup w, by simp, ?_⟩
        intro l _
        refine ⟨fun e he => hsh.1 l e he, fun hn => ?_⟩
        have := hsh.2 l hn
        simpa [oldLocs] using this
      · intro l e he
        obtain ⟨w0, hw0, hl⟩ := hj.entry l e he
        refine ⟨w0, ?_, hl⟩
        have hne : e.inc ≠ s.inc j := by
          intro heq; rw [heq, hph] at hw0; cases hw0
        simp [hne, hw0]
      · intro m w' hm
        simp only [] at hm
        split at hm
        · rename_i hc; rw [hc.2]; exact Nat.le_refl _
        · exact hj.hist.le_inc m w' hm
      · intro r hr
        have := hj.hist.res r hr
        refine ⟨this.1, fun hok => ?_⟩
        have h2 := this.2 hok
        have hne : r.inc ≠ s.inc j := by
          intro heq; rw [heq, hph] at h2; cases h2
        simp [hne, h2]
      · unfold HistPhase; simp only [updF_same]; simp
    · other_tx h j hj
  | execFinishErr i e reads blocked hp =>
    intro j
    by_cases hj : j = i
    · subst hj
      have hj := h j
      have hsh := hj.shape; unfold Shape at hsh; rw [hp] at hsh
      refine ⟨?_, hj.entry, ⟨hj.hist.le_inc, hj.hist.res, ?_⟩⟩
      · unfold Shape; simp only [setPhase, updF_same]
        exact ⟨by simp [oldWrites], by simpa [oldLocs] using hsh⟩
      · unfold HistPhase; simp only [setPhase, updF_same]
    · other_tx h j hj
  | publishOne i run l todo newLoc v hp hl hv =>
    intro j
    by_cases hj : j = i
    · subst hj
      have hj := h j
      have hsh := hj.shape; unfold Shape at hsh; rw [hp] at hsh
      have hph := hj.hist.phase; unfold HistPhase at hph; rw [hp] at hph
      obtain ⟨done, hmem, hdisj, hnd, hnew, hold⟩ := hsh
      have hld : l ∉ done := hdisj l hl
      refine ⟨?_, ?_, ⟨hj.hist.le_inc, hj.hist.res, ?_⟩⟩
      · unfold Shape; simp only [updF_same]
        refine ⟨l :: done, ?_, ?_, hnd.erase l, ?_, ?_⟩
        · intro l'
          rw [hmem l', List.mem_cons, hnd.mem_erase_iff]
          constructor
          · rintro (h' | h')
            · exact Or.inl (Or.inr h')
            · by_cases hll : l' = l
              · exact Or.inl (Or.inl hll)
              · exact Or.inr ⟨hll, h'⟩
          · rintro ((h' | h') | h')
            · subst h'; exact Or.inr hl
            · exact Or.inl h'
            · exact Or.inr h'.2
        · intro l' hl' hc
          rw [hnd.mem_erase_iff] at hl'
          rcases List.mem_cons.mp hc with h' | h'
          · exact hl'.1 h'
          · exact hdisj l' hl'.2 h'
        · intro l' hl'
          by_cases hll : l' = l
          · subst hll
            exact ⟨_, setMv_same _ _ _ _, rfl, hv, rfl⟩
          · rw [setMv_ne_loc _ _ _ _ _ _ hll]
            rcases List.mem_cons.mp hl' with h' | h'
            · exact absurd h' hll
            · exact hnew l' h'
        · intro l' hl'
          have hl1 : l' ∉ done := fun hc => hl' (List.mem_cons_of_mem _ hc)
          have hl2 : l' ≠ l := fun hc => hl' (hc ▸ List.mem_cons_self)
          rw [setMv_ne_loc _ _ _ _ _ _ hl2]
          have := hold l' hl1
          simpa [oldLocs] using this
      · intro l' e' he'
        dsimp only at he' ⊢
        by_cases hll : l' = l
        · subst hll
          rw [setMv_same] at he'
          cases he'
          exact ⟨run.writes, hph, hv⟩
        · rw [setMv_ne_loc _ _ _ _ _ _ hll] at he'
          exact hj.entry l' e' he'
      · unfold HistPhase; simp only [updF_same]; exact hph
    · other_tx h j hj
  | endPublish i run newLoc hp =>
    intro j
    by_cases hj : j = i
    · subst hj
      have hj := h j
      have hsh := hj.shape; unfold Shape at hsh; rw [hp] at hsh
      have hph := hj.hist.phase; unfold HistPhase at hph; rw [hp] at hph
      obtain ⟨done, hmem, _, _, hnew, hold⟩ := hsh
      have hdone' : ∀ l, l ∈ writeLocs run.writes ↔ l ∈ done := by
        intro l; rw [hmem l]; simp
      refine ⟨?_, hj.entry, ⟨hj.hist.le_inc, hj.hist.res, ?_⟩⟩
      · unfold Shape; simp only [setPhase, updF_same]
        refine ⟨?_, ?_, ?_⟩
        · intro l hl; rw [hdone'] at hl; exact hnew l hl
        · intro l hl e he
          rw [hdone'] at hl
          have := (hold l hl).1 e he
          refine ⟨?_, this.2⟩
          rw [List.mem_filter]
          refine ⟨by simpa [oldLocs] using this.1, ?_⟩
          simpa [hdone'] using hl
        · intro l hl
          rw [List.mem_filter] at hl
          simpa using hl.2
      · unfold HistPhase; simp only [setPhase, updF_same]; exact hph
    · other_tx h j hj
  | removeOne i run l todo newLoc hp hl =>
    intro j
    by_cases hj : j = i
    · subst hj
      have hj := h j
      have hsh := hj.shape; unfold Shape at hsh; rw [hp] at hsh
      have hph := hj.hist.phase; unfold HistPhase at hph; rw [hp] at hph
      obtain ⟨hnew, hold, hdisj⟩ := hsh
      have hlw : l ∉ writeLocs run.writes := hdisj l hl
      refine ⟨?_, ?_, ⟨hj.hist.le_inc, hj.hist.res, ?_⟩⟩
      · unfold Shape; simp only [updF_same]
        refine ⟨?_, ?_, ?_⟩
        · intro l' hl'
          have hne : l' ≠ l := fun hc => hlw (hc ▸ hl')
          rw [setMv_ne_loc _ _ _ _ _ _ hne]; exact hnew l' hl'
        · intro l' hl' e he
          by_cases hne : l' = l
          · subst hne; rw [setMv_same] at he; cases he
          · rw [setMv_ne_loc _ _ _ _ _ _ hne] at he
            have := hold l' hl' e he
            exact ⟨(List.mem_erase_of_ne hne).mpr this.1, this.2⟩
        · intro l' hl'; exact hdisj l' (List.mem_of_mem_erase hl')
      · intro l' e' he'
        dsimp only at he' ⊢
        by_cases hne : l' = l
        · subst hne; rw [setMv_same] at he'; cases he'
        · rw [setMv_ne_loc _ _ _ _ _ _ hne] at he'; exact hj.entry l' e' he'
      · unfold HistPhase; simp only [updF_same]; exact hph
    · other_tx h j hj
  | recordBlocked i run newLoc hp hb =>
    intro j
    by_cases hj : j = i
    · subst hj
      have hj := h j
      have hsh := hj.shape; unfold Shape at hsh; rw [hp] at hsh
      have hph := hj.hist.phase; unfold HistPhase at hph; rw [hp] at hph
      obtain ⟨hnew, hold, _⟩ := hsh
      refine ⟨?_, hj.entry, ⟨hj.hist.le_inc, ?_, ?_⟩⟩
      · unfold Shape; simp only [setPhase, updF_same]
        refine ⟨_, rfl, (by intro hc; cases hc), fun _ => ⟨?_, ?_⟩⟩
        · intro l e he
          dsimp only at he
          by_cases hl : l ∈ writeLocs run.writes
          · obtain ⟨e', he', hn⟩ := hnew l hl
            rw [he] at he'; cases he'
            exact ⟨hl, by rw [hn.2.2, hb]⟩
          · have := (hold l hl e he).1; simp at this
        · intro l hn hl
          dsimp only at hn
          obtain ⟨e', he', _⟩ := hnew l hl
          rw [hn] at he'; cases he'
      · intro r hr
        simp only [setPhase, updF_same] at hr
        cases hr
        exact ⟨Nat.le_refl _, fun _ => hph⟩
      · unfold HistPhase; simp only [setPhase, updF_same]
    · other_tx h j hj
  | recordRewind i run newLoc handoff hp hb hn =>
    intro j
    by_cases hj : j = i
    · subst hj
      have hj := h j
      have hsh := hj.shape; unfold Shape at hsh; rw [hp] at hsh
      have hph := hj.hist.phase; unfold HistPhase at hph; rw [hp] at hph
      obtain ⟨hnew, hold, _⟩ := hsh
      refine ⟨?_, hj.entry, ⟨hj.hist.le_inc, ?_, ?_⟩⟩
      · unfold Shape; simp only [setPhase, updF_same]
        refine ⟨_, rfl, fun _ => ⟨⟨run.out, rfl⟩, ?_, ?_⟩, (by intro hc; cases hc)⟩
        · intro l e he
          dsimp only at he
          by_cases hl : l ∈ writeLocs run.writes
          · obtain ⟨e', he', hn'⟩ := hnew l hl
            rw [he] at he'; cases he'
            exact ⟨hl, hn'.1, hn'.2.1, by rw [hn'.2.2, hb]⟩
          · have := (hold l hl e he).1; simp at this
        · intro l hnone hl
          dsimp only at hnone
          obtain ⟨e', he', _⟩ := hnew l hl
          rw [hnone] at he'; cases he'
      · intro r hr
        simp only [setPhase, updF_same] at hr
        cases hr
        exact ⟨Nat.le_refl _, fun _ => hph⟩
      · unfold HistPhase; simp only [setPhase, updF_same]
    · other_tx h j hj
  | recordDirect i run hp hb =>
    intro j
    by_cases hj : j = i
    · subst hj
      have hj := h j
      have hsh := hj.shape; unfold Shape at hsh; rw [hp] at hsh
      have hph := hj.hist.phase; unfold HistPhase at hph; rw [hp] at hph
      obtain ⟨hnew, hold, _⟩ := hsh
      refine ⟨?_, hj.entry, ⟨hj.hist.le_inc, ?_, ?_⟩⟩
      · unfold Shape; simp only [updF_same]
        refine ⟨_, rfl, ⟨run.out, rfl⟩, ?_, ?_⟩
        · intro l e he
          dsimp only at he
          by_cases hl : l ∈ writeLocs run.writes
          · obtain ⟨e', he', hn'⟩ := hnew l hl
            rw [he] at he'; cases he'
            exact ⟨hl, hn'.1, hn'.2.1, by rw [hn'.2.2, hb]⟩
          · have := (hold l hl e he).1; simp at this
        · intro l hnone hl
          dsimp only at hnone
          obtain ⟨e', he', _⟩ := hnew l hl
          rw [hnone] at he'; cases he'
      · intro r hr
        simp only [updF_same] at hr
        cases hr
        exact ⟨Nat.le_refl _, fun _ => hph⟩
      · unfold HistPhase; simp only [updF_same]
    · other_tx h j hj
  | markErrSome i e ow l todo en hp hl hm =>
    intro j
    by_cases hj : j = i
    · subst hj
      have hj := h j
      have hsh := hj.shape; unfold Shape at hsh; rw [hp] at hsh
      refine ⟨?_, ?_, ⟨hj.hist.le_inc, hj.hist.res, ?_⟩⟩
      · unfold Shape; simp only [updF_same]
        refine ⟨by simpa [oldWrites] using hsh.1, ?_, ?_⟩
        · intro l' e' he'
          dsimp only at he'
          by_cases hne : l' = l
          · subst hne; rw [setMv_same] at he'; cases he'
            exact ⟨by simpa [oldLocs] using (hsh.2.1 l' en hm).1, rfl⟩
          · rw [setMv_ne_loc _ _ _ _ _ _ hne] at he'
            simpa [oldLocs] using hsh.2.1 l' e' he'
        · intro l' hn
          dsimp only at hn
          by_cases hne : l' = l
          · subst hne; rw [setMv_same] at hn; cases hn
          · rw [setMv_ne_loc _ _ _ _ _ _ hne] at hn
            simpa [oldLocs] using hsh.2.2 l' hn
      · intro l' e' he'
        dsimp only at he' ⊢
        by_cases hne : l' = l
        · subst hne; rw [setMv_same] at he'; cases he'
          exact hj.entry l' en hm
        · rw [setMv_ne_loc _ _ _ _ _ _ hne] at he'; exact hj.entry l' e' he'
      · unfold HistPhase; simp only [updF_same]
    · other_tx h j hj
  | markErrNone i e ow l todo hp hl hm =>
    intro j
    by_cases hj : j = i
    · subst hj
      have hj := h j
      have hsh := hj.shape; unfold Shape at hsh; rw [hp] at hsh
      refine ⟨?_, hj.entry, ⟨hj.hist.le_inc, hj.hist.res, ?_⟩⟩
      · unfold Shape; simp only [setPhase, updF_same]
        exact ⟨by simpa [oldWrites] using hsh.1, by simpa [oldLocs] using hsh.2⟩
      · unfold HistPhase; simp only [setPhase, updF_same]
    · other_tx h j hj
  | markValSome i l todo en hp hl hm =>
    intro j
    by_cases hj : j = i
    · subst hj
      have hj := h j
      have hsh := hj.shape; unfold Shape at hsh; rw [hp] at hsh
      obtain ⟨r, hr, hsome, hnone⟩ := hsh
      refine ⟨?_, ?_, ⟨hj.hist.le_inc, hj.hist.res, ?_⟩⟩
      · unfold Shape; simp only [updF_same]
        refine ⟨r, hr, ?_, ?_⟩
        · intro l' e' he'
          by_cases hne : l' = l
          · subst hne; rw [setMv_same] at he'; cases he'
            exact ⟨(hsome l' en hm).1, fun _ => rfl⟩
          · rw [setMv_ne_loc _ _ _ _ _ _ hne] at he'
            refine ⟨(hsome l' e' he').1, fun hnt => (hsome l' e' he').2 ?_⟩
            intro hc
            exact hnt ((List.mem_erase_of_ne hne).mpr hc)
        · intro l' hn
          by_cases hne : l' = l
          · subst hne; rw [setMv_same] at hn; cases hn
          · rw [setMv_ne_loc _ _ _ _ _ _ hne] at hn; exact hnone l' hn
      · intro l' e' he'
        dsimp only at he' ⊢
        by_cases hne : l' = l
        · subst hne; rw [setMv_same] at he'; cases he'
          exact hj.entry l' en hm
        · rw [setMv_ne_loc _ _ _ _ _ _ hne] at he'; exact hj.entry l' e' he'
      · unfold HistPhase; simp only [updF_same]
    · other_tx h j hj
  | markValNone i l todo hp hl hm =>
    intro j
    by_cases hj : j = i
    · subst hj
      have hj := h j
      have hsh := hj.shape; unfold Shape at hsh; rw [hp] at hsh
      obtain ⟨r, hr, hsome, hnone⟩ := hsh
      refine ⟨?_, hj.entry, ⟨hj.hist.le_inc, hj.hist.res, ?_⟩⟩
      · unfold Shape; simp only [setPhase, updF_same]
        refine ⟨r, hr, ?_, hnone⟩
        intro l' e' he'
        refine ⟨(hsome l' e' he').1, fun hnt => (hsome l' e' he').2 ?_⟩
        intro hc
        by_cases hne : l' = l
        · subst hne; rw [hm] at he'; cases he'
        · exact hnt ((List.mem_erase_of_ne hne).mpr hc)
      · unfold HistPhase; simp only [setPhase, updF_same]
    · other_tx h j hj
  | endErrMark i e ow hp =>
    intro j
    by_cases hj : j = i
    · subst hj
      have hj := h j
      have hsh := hj.shape; unfold Shape at hsh; rw [hp] at hsh
      refine ⟨?_, hj.entry, ⟨hj.hist.le_inc, ?_, ?_⟩⟩
      · unfold Shape; simp only [updF_same]
        refine ⟨_, rfl, (by intro hc; cases hc), fun _ => ?_⟩
        have : ({ inc := s.inc j, reads := [], writes := ow, out := Out.err e } : Result).locs =
            oldLocs s j := by
          rw [oldLocs_eq, ← hsh.1]; rfl
        rw [this]; exact hsh.2
      · intro r hr
        simp only [updF_same] at hr
        cases hr
        exact ⟨Nat.le_refl _, fun hok => by obtain ⟨o, ho⟩ := hok; cases ho⟩
      · unfold HistPhase; simp only [updF_same]
    · other_tx h j hj
  | tailTs i k st hp hk =>
    intro j
    by_cases hj : j = i
    · subst hj
      have hj := h j
      have hsh := hj.shape; unfold Shape at hsh; rw [hp] at hsh
      refine ⟨?_, hj.entry, ⟨hj.hist.le_inc, hj.hist.res, ?_⟩⟩
      · unfold Shape; simp only [updF_same]; exact hsh
      · unfold HistPhase; simp only [updF_same]
    · other_tx h j hj
  | tailLts i k ts st hp =>
    intro j
    by_cases hj : j = i
    · subst hj
      have hj := h j
      have hsh := hj.shape; unfold Shape at hsh; rw [hp] at hsh
      have hps := h1.st_phase j; rw [hp] at hps; simp only [PhaseStatus] at hps
      obtain ⟨r, hr, hex, hco⟩ := hsh
      refine ⟨?_, hj.entry, ⟨hj.hist.le_inc, hj.hist.res, ?_⟩⟩
      · unfold Shape; simp only [updF_same]
        rcases hps.2 with hst | hst
        · subst hst; exact ⟨r, hr, hex rfl⟩
        · subst hst; exact ⟨r, hr, hco rfl⟩
      · unfold HistPhase; simp only [updF_same]
    · other_tx h j hj
  | tailSkip i k st hp hk =>
    intro j
    by_cases hj : j = i
    · subst hj
      have hj := h j
      have hsh := hj.shape; unfold Shape at hsh; rw [hp] at hsh
      have hps := h1.st_phase j; rw [hp] at hps; simp only [PhaseStatus] at hps
      obtain ⟨r, hr, hex, hco⟩ := hsh
      refine ⟨?_, hj.entry, ⟨hj.hist.le_inc, hj.hist.res, ?_⟩⟩
      · unfold Shape; simp only [updF_same]
        rcases hps.2 with hst | hst
        · subst hst; exact ⟨r, hr, hex rfl⟩
        · subst hst; exact ⟨r, hr, hco rfl⟩
      · unfold HistPhase; simp only [updF_same]
    · other_tx h j hj
  | claimVal i hp hst =>
    intro j
    by_cases hj : j = i
    · subst hj
      have hj := h j
      have hsh := hj.shape; unfold Shape at hsh; rw [hp] at hsh
      refine ⟨?_, hj.entry, ⟨hj.hist.le_inc, hj.hist.res, ?_⟩⟩
      · unfold Shape; simp only [updF_same]
        rcases hst with hst | hst <;> rw [hst] at hsh <;> exact hsh
      · unfold HistPhase; simp only [updF_same]
    · other_tx h j hj
  | valTs i r hp hr =>
    intro j
    by_cases hj : j = i
    · subst hj
      have hj := h j
      have hsh := hj.shape; unfold Shape at hsh; rw [hp] at hsh
      obtain ⟨r', hr', hok, hcl⟩ := hsh
      rw [hr] at hr'; cases hr'
      refine ⟨?_, hj.entry, ⟨hj.hist.le_inc, hj.hist.res, ?_⟩⟩
      · unfold Shape; simp only [updF_same]; exact ⟨r, hr, hok, hcl, by simp⟩
      · unfold HistPhase; simp only [updF_same]
    · other_tx h j hj
  | valCheck i ts done r todo conflict k hp hk =>
    intro j
    by_cases hj : j = i
    · subst hj
      have hj := h j
      have hsh := hj.shape; unfold Shape at hsh; rw [hp] at hsh
      obtain ⟨r', hr', hok, hcl, hrd⟩ := hsh
      refine ⟨?_, hj.entry, ⟨hj.hist.le_inc, hj.hist.res, ?_⟩⟩
      · unfold Shape; simp only [setPhase, updF_same]
        refine ⟨r', hr', hok, hcl, ?_⟩
        intro x
        rw [hrd x, List.mem_cons]
        constructor
        · rintro (h' | h')
          · exact Or.inl (Or.inr h')
          · rcases mem_eraseIdx_or h' hk with h'' | h''
            · exact Or.inr h''
            · exact Or.inl (Or.inl h'')
        · rintro ((h' | h') | h')
          · subst h'; exact Or.inr (List.mem_of_getElem? hk)
          · exact Or.inl h'
          · exact Or.inr (List.mem_of_mem_eraseIdx h')
      · unfold HistPhase; simp only [setPhase, updF_same]
    · other_tx h j hj
  | endScanConflict i ts done hp =>
    intro j
    by_cases hj : j = i
    · subst hj
      have hj := h j
      have hsh := hj.shape; unfold Shape at hsh; rw [hp] at hsh
      obtain ⟨r', hr', hok, hcl, hrd⟩ := hsh
      refine ⟨?_, hj.entry, ⟨hj.hist.le_inc, hj.hist.res, ?_⟩⟩
      · unfold Shape; simp only [setPhase, updF_same]
        refine ⟨r', hr', ?_, hcl.2⟩
        intro l e he
        have := (hcl.1 l e he).1
        refine ⟨this, fun hnt => ?_⟩
        exfalso; apply hnt
        simpa [oldLocs, hr'] using this
      · unfold HistPhase; simp only [setPhase, updF_same]
    · other_tx h j hj
  | endScanOk i ts done hp =>
    intro j
    by_cases hj : j = i
    · subst hj
      have hj := h j
      have hsh := hj.shape; unfold Shape at hsh; rw [hp] at hsh
      obtain ⟨r', hr', hok, hcl, hrd⟩ := hsh
      refine ⟨?_, hj.entry, ⟨hj.hist.le_inc, hj.hist.res, ?_⟩⟩
      · unfold Shape; simp only [updF_same]; exact ⟨r', hr', hok, hcl⟩
      · unfold HistPhase; simp only [updF_same]
    · other_tx h j hj
  | endValMark i hp =>
    intro j
    by_cases hj : j = i
    · subst hj
      have hj := h j
      have hsh := hj.shape; unfold Shape at hsh; rw [hp] at hsh
      obtain ⟨r', hr', hsome, hnone⟩ := hsh
      refine ⟨?_, hj.entry, ⟨hj.hist.le_inc, hj.hist.res, ?_⟩⟩
      · unfold Shape; simp only [setPhase, updF_same]
        refine ⟨r', hr', (by intro hc; cases hc), fun _ => ⟨?_, hnone⟩⟩
        intro l e he
        exact ⟨(hsome l e he).1, (hsome l e he).2 (by simp)⟩
      · unfold HistPhase; simp only [setPhase, updF_same]
    · other_tx h j hj
  | finalize hi hp hst hg =>
    intro j
    refine (h j).frame (fun _ => rfl) rfl rfl rfl rfl ?_
    intro _
    by_cases hj : j = s.fin
    · subst hj; right; exact ⟨hst, by simp⟩
    · left; simp [updF, hj]
  | commit r hc hr =>
    intro j
    exact (h j).frame (fun _ => rfl) rfl rfl rfl rfl (fun _ => Or.inl rfl)

end Grevm.Sched
