/- Basic facts about programs, views and the in-order semantics. -/
import Grevm.Model.Block

namespace Grevm.Block

/-- `view` at `i` depends only on the writes of transactions below `i`. -/
theorem view_congr (W W' : TxId → List (Loc × Val)) (base : Loc → Val) (i : TxId)
    (h : ∀ j, j < i → W j = W' j) (l : Loc) : view W base i l = view W' base i l := by
  induction i with
  | zero => rfl
  | succ i ih =>
    simp only [view]
    rw [h i (Nat.lt_succ_self i)]
    split
    · rfl
    · exact ih (fun j hj => h j (Nat.lt_succ_of_lt hj))

theorem idealUpTo_stable (txs : TxId → Prog) (base : Loc → Val) (n j : Nat) (h : j < n) :
    idealUpTo txs base n j = ideal txs base j := by
  induction n with
  | zero => omega
  | succ n ih =>
    by_cases hj : j = n
    · subst hj; rfl
    · simp only [idealUpTo, if_neg hj]
      exact ih (by omega)

/-- The defining equation of the in-order semantics. -/
theorem ideal_eq (txs : TxId → Prog) (base : Loc → Val) (i : TxId) :
    ideal txs base i = exec (txs i) (view (idealWrites txs base) base i) := by
  simp only [ideal, idealUpTo, if_pos]
  congr 1
  funext l
  apply view_congr
  intro j hj
  simp only [idealWrites]
  rw [idealUpTo_stable txs base i j hj]

/-- A run produced by `exec` is consistent and reads exactly the values of the read function. -/
theorem exec_consistent (p : Prog) (rd : Loc → Val) :
    Consistent p (exec p rd).reads (exec p rd).out ∧ ∀ x ∈ (exec p rd).reads, x.2 = rd x.1 := by
  induction p with
  | done w o => simp [exec, Consistent]
  | fail e => simp [exec, Consistent]
  | read l k ih =>
    simp only [exec]
    refine ⟨⟨rfl, (ih (rd l)).1⟩, ?_⟩
    intro x hx
    rcases List.mem_cons.mp hx with rfl | hx
    · rfl
    · exact (ih (rd l)).2 x hx

/-- **run_congr (determinism).** A consistent recorded run whose every read value is the value of
    the read function `rd` IS the run of the program against `rd`. -/
theorem consistent_exec (p : Prog) (rd : Loc → Val) (reads : List (Loc × Val)) (out : Out)
    (hc : Consistent p reads out) (hv : ∀ x ∈ reads, x.2 = rd x.1) :
    exec p rd = { reads := reads, out := out } := by
  induction p generalizing reads with
  | done w o =>
    cases reads with
    | nil => simp [Consistent] at hc; simp [exec, hc]
    | cons _ _ => simp [Consistent] at hc
  | fail e =>
    cases reads with
    | nil => simp [Consistent] at hc; simp [exec, hc]
    | cons _ _ => simp [Consistent] at hc
  | read l k ih =>
    cases reads with
    | nil => simp [Consistent] at hc
    | cons x rest =>
      obtain ⟨l', v⟩ := x
      simp only [Consistent] at hc
      obtain ⟨rfl, hc'⟩ := hc
      have hv0 : v = rd l' := hv (l', v) List.mem_cons_self
      subst hv0
      have := ih (rd l') rest hc' (fun x hx => hv x (List.mem_cons_of_mem _ hx))
      simp [exec, this]

end Grevm.Block
