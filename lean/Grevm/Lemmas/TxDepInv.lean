/-
Invariants of the `TxDependency` model over all reachable states.
-/
import Grevm.Lemmas.TxDepStep

namespace Grevm.TxDep

/-- Reachable from `init n` through `run` (any threads, any interleaving). -/
def Reachable (n : Nat) (s : State) : Prop := ∃ acts rets, run (init n) acts = some (s, rets)

theorem run_invariant (P : State → Prop)
    (hstep : ∀ s a s' r, P s → step s a = some (s', r) → P s') :
    ∀ (acts : List Act) (s s' : State) (rs : List Ret), P s → run s acts = some (s', rs) → P s' := by
  intro acts
  induction acts with
  | nil => intro s s' rs hp h; simp [run] at h; obtain ⟨rfl, _⟩ := h; exact hp
  | cons a as ih =>
      intro s s' rs hp h
      simp only [run] at h
      split at h
      · simp at h
      · rename_i s1 r hs
        split at h
        · simp at h
        · rename_i s2 rs2 hr
          simp at h; obtain ⟨rfl, _⟩ := h
          exact ih s1 s2 rs2 (hstep s a s1 r hp hs) hr

theorem reachable_invariant (P : State → Prop) (n : Nat) (h0 : P (init n))
    (hstep : ∀ s a s' r, P s → step s a = some (s', r) → P s') :
    ∀ s, Reachable n s → P s := by
  intro s ⟨acts, rets, h⟩
  exact run_invariant P hstep acts (init n) s rets h0 h

/-! ### 1. lock ownership -/

/-- pcs at which a thread holds the mutex of record `i` -/
def HoldsDep : Pc → Nat → Prop
  | .rmMin _ _ _ _ tx, i => i = tx
  | .cmMin nx, i => i = nx
  | .keyRead x, i => i = x
  | .keyMin x, i => i = x
  | .addLockTx _ d, i => i = d
  | .addMin x d, i => i = d ∨ i = x
  | .addNoneMin x, i => i = x
  | _, _ => False

/-- pcs at which a thread holds the mutex of the reverse-edge set `affect[j]` -/
def HoldsAff : Pc → Nat → Prop
  | .rmIter d _ _ _, j => j = d
  | .rmMin d _ _ _ _, j => j = d
  | .addLockDep _ d, j => j = d
  | .addLockTx _ d, j => j = d
  | .addMin _ d, j => j = d
  | _, _ => False

def LockInv (s : State) : Prop :=
  (∀ i u, s.depLock i = some u ↔ HoldsDep (s.pc u) i) ∧
  (∀ j u, s.affLock j = some u ↔ HoldsAff (s.pc u) j)

theorem entry_not_holdsDep {n : Nat} {p : Pc} (h : IsEntry n p) (i : Nat) : ¬ HoldsDep p i := by
  cases p <;> simp_all [IsEntry, HoldsDep]

theorem entry_not_holdsAff {n : Nat} {p : Pc} (h : IsEntry n p) (i : Nat) : ¬ HoldsAff p i := by
  cases p <;> simp_all [IsEntry, HoldsAff]

theorem lockInv_init (n : Nat) : LockInv (init n) := by
  constructor <;> intro i u <;> simp [init, HoldsDep, HoldsAff]

theorem lockInv_step {s s' : State} {t : Tid} {pick : Nat} {r : Ret} (hinv : LockInv s)
    (h : Step s t pick s' r) : LockInv s' := by
  obtain ⟨hd, ha⟩ := hinv
  cases h
  case call p hpc he =>
    constructor
    · intro i u
      by_cases hu : u = t
      · subst hu
        have h2 := hd i u
        simp only [setPc, upd, if_true]
        simp [hpc, HoldsDep] at h2
        simp [h2, entry_not_holdsDep he]
      · simp only [setPc, upd, if_neg hu]; exact hd i u
    · intro i u
      by_cases hu : u = t
      · subst hu
        have h2 := ha i u
        simp only [setPc, upd, if_true]
        simp [hpc, HoldsAff] at h2
        simp [h2, entry_not_holdsAff he]
      · simp only [setPc, upd, if_neg hu]; exact ha i u
  all_goals try (rename_i hrc; cases hrc)
  all_goals
    have hpc := (by assumption : s.pc t = _)
    constructor
    · intro i u
      have h2 := hd i t
      rw [hpc] at h2
      by_cases hu : u = t
      · subst hu
        (simp only [setPc, upd, if_true, HoldsDep] at h2 ⊢) <;> grind
      · have h1 := hd i u
        simp only [setPc, upd, if_neg hu]
        (rw [← h1]) <;> (simp only [HoldsDep] at h2) <;> grind
    · intro i u
      have h2 := ha i t
      rw [hpc] at h2
      by_cases hu : u = t
      · subst hu
        (simp only [setPc, upd, if_true, HoldsAff] at h2 ⊢) <;> grind
      · have h1 := ha i u
        simp only [setPc, upd, if_neg hu]
        (rw [← h1]) <;> (simp only [HoldsAff] at h2) <;> grind

end Grevm.TxDep

namespace Grevm.TxDep

theorem lockInv_reachable {n : Nat} {s : State} (h : Reachable n s) : LockInv s :=
  reachable_invariant LockInv n (lockInv_init n)
    (fun _ _ _ _ hp hs => lockInv_step hp (step_sound hs)) s h

end Grevm.TxDep
