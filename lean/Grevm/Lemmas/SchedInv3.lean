/- Invariant group 3 of the pipeline model: provenance of every recorded read (its ghost value is
   what the recorded version wrote, or the value of the committed-state cache at some commit cursor
   not beyond the current one) and consistency of recorded runs with the transaction's program. -/
import Grevm.Lemmas.SchedInv2Step

namespace Grevm.Sched

open Grevm.Block

def ReadProv (P : Params) (s : State) (i : TxId) (r : ReadRec) : Prop :=
  match r.ver with
  | some (k, m) => k < i ∧ ∃ w, s.hist k m = some w ∧ lookup w r.loc = some r.val
  | none => ∃ c, c ≤ s.com ∧ r.val = cval P s c r.loc

def toPairs (rs : List ReadRec) : List (Loc × Val) := rs.map (fun r => (r.loc, r.val))

/-- Read lists held by the worker inside transaction `i`. -/
def phaseReads : Phase → List ReadRec
  | .reading _ reads _ => reads
  | .fetching _ _ reads _ => reads
  | .publishing run _ _ => run.reads
  | .removing run _ _ => run.reads
  | _ => []

def ConsPhase (P : Params) (s : State) (i : TxId) : Prop :=
  match s.phase i with
  | .reading p reads _ =>
      ∀ rest out, Consistent p rest out → Consistent (P.txs i) (toPairs reads.reverse ++ rest) out
  | .fetching l k reads _ =>
      ∀ rest out, Consistent (.read l k) rest out →
        Consistent (P.txs i) (toPairs reads.reverse ++ rest) out
  | .publishing run _ _ => Consistent (P.txs i) (toPairs run.reads) (.ok run.writes run.out)
  | .removing run _ _ => Consistent (P.txs i) (toPairs run.reads) (.ok run.writes run.out)
  | _ => True

structure TxInv3 (P : Params) (s : State) (i : TxId) : Prop where
  res_prov : ∀ r, s.result i = some r → ∀ x ∈ r.reads, ReadProv P s i x
  phase_prov : ∀ x ∈ phaseReads (s.phase i), ReadProv P s i x
  cons_phase : ConsPhase P s i
  cons_res : ∀ r, s.result i = some r → OkRes r → Consistent (P.txs i) (toPairs r.reads) r.out

def Inv3 (P : Params) (s : State) : Prop := ∀ i, TxInv3 P s i

theorem inv3_init (P : Params) : Inv3 P init := by
  intro i
  refine ⟨?_, ?_, ?_, ?_⟩
  · intro r h; simp [init] at h
  · intro x hx; simp [init, phaseReads] at hx
  · simp [ConsPhase, init]
  · intro r h; simp [init] at h

/-- Provenance is stable: the history only grows, the commit cursor only grows, and the results
    below the commit cursor (hence the committed cache at every cursor position reached so far) are
    never rewritten. -/
theorem ReadProv.mono {P : Params} {s s' : State} {i : TxId} {r : ReadRec} (h : ReadProv P s i r)
    (hm : ∀ k m w, s.hist k m = some w → s'.hist k m = some w) (hcom : s.com ≤ s'.com)
    (hfro : ∀ j, j < s.com → s'.result j = s.result j) : ReadProv P s' i r := by
  unfold ReadProv at h ⊢
  split
  · rename_i k m hv
    rw [hv] at h
    obtain ⟨hk, w, hw, hl⟩ := h
    exact ⟨hk, w, hm k m w hw, hl⟩
  · rename_i hv
    rw [hv] at h
    obtain ⟨c, hc, hval⟩ := h
    refine ⟨c, Nat.le_trans hc hcom, ?_⟩
    rw [hval]
    exact (cval_frozen (fun j hj => hfro j (by omega))).symm

/-- The ghost history only grows. -/
theorem step_hist_mono {P : Params} {s s' : State} (h2 : Inv2 s) (hs : Step P s s') :
    ∀ k m w, s.hist k m = some w → s'.hist k m = some w := by
  cases hs with
  | execFinishOk i w o reads blocked hp =>
    have hfresh : s.hist i (s.inc i) = none := by
      have := (h2 i).hist.phase; unfold HistPhase at this; rw [hp] at this; exact this
    intro k m w' hh
    show (if k = i ∧ m = s.inc i then some w else s.hist k m) = some w'
    split
    · rename_i hc; rw [hc.1, hc.2, hfresh] at hh; cases hh
    · exact hh
  | _ => exact fun _ _ _ hh => hh

/-- Provenance of a recorded read survives every step. -/
theorem ReadProv.step {P : Params} {s s' : State} (h1 : Inv1 P s) (h2 : Inv2 s) (hs : Step P s s')
    {i : TxId} {r : ReadRec} (h : ReadProv P s i r) : ReadProv P s' i r :=
  h.mono (step_hist_mono h2 hs) (step_com_mono hs)
    (fun j hj => (step_frozen h1 hs j (Nat.lt_of_lt_of_le hj h1.com_le.1)).1)

/-- Frame: the read lists and result of `j` are unchanged and provenance is preserved. -/
theorem TxInv3.frame {P : Params} {s s' : State} {j : TxId} (h : TxInv3 P s j)
    (hph : s'.phase j = s.phase j) (hres : s'.result j = s.result j)
    (hk : ∀ x, ReadProv P s j x → ReadProv P s' j x) : TxInv3 P s' j := by
  refine ⟨?_, ?_, ?_, ?_⟩
  · intro r hr x hx; rw [hres] at hr; exact hk x (h.res_prov r hr x hx)
  · intro x hx; rw [hph] at hx; exact hk x (h.phase_prov x hx)
  · have := h.cons_phase; unfold ConsPhase at this ⊢; rw [hph]; exact this
  · intro r hr; rw [hres] at hr; exact h.cons_res r hr

macro "other_tx3" h:ident keep:ident j:ident hj:ident : tactic =>
  `(tactic| exact ($h $j).frame (by simp [setPhase, updF, $hj:ident]) (by simp [setPhase, updF, $hj:ident])
      (fun x => $keep $j x))

theorem toPairs_append (a b : List ReadRec) : toPairs (a ++ b) = toPairs a ++ toPairs b := by
  simp [toPairs]

theorem inv3_step {P : Params} {s s' : State} (h1 : Inv1 P s) (h2 : Inv2 s) (h : Inv3 P s)
    (hs : Step P s s') : Inv3 P s' := by
  have keep : ∀ (j : TxId) (x : ReadRec), ReadProv P s j x → ReadProv P s' j x :=
    fun _ _ hx => hx.step h1 h2 hs
  have rkeep : ∀ j r, s.result j = some r → ∀ x ∈ r.reads, ReadProv P s' j x :=
    fun j r hr x hx => keep j x (TxInv3.res_prov (h j) r hr x hx)
  cases hs with
  | claimExec i hi hp hst =>
    intro j
    by_cases hj : j = i
    · subst hj
      refine ⟨rkeep j, ?_, ?_, (h j).cons_res⟩
      · intro x hx; simp [phaseReads] at hx
      · unfold ConsPhase; simp only [updF_same]
        intro rest out hc; simpa [toPairs] using hc
    · other_tx3 h keep j hj
  | execReadMv i l k reads blocked j' e hp hr =>
    intro j
    by_cases hj : j = i
    · subst hj
      have hcp := (h j).cons_phase; unfold ConsPhase at hcp; rw [hp] at hcp
      have hpp := (h j).phase_prov; rw [hp] at hpp
      obtain ⟨hlt, hmv, _⟩ := resolve_some hr
      refine ⟨rkeep j, ?_, ?_, (h j).cons_res⟩
      · intro x hx
        simp only [setPhase, updF_same, phaseReads] at hx
        rcases List.mem_cons.mp hx with rfl | hx
        · obtain ⟨w, hw, hl⟩ := (h2 j').entry l e hmv
          exact ⟨hlt, w, hw, hl⟩
        · exact keep j x (hpp x hx)
      · unfold ConsPhase; simp only [setPhase, updF_same]
        intro rest out hc
        have := hcp ((l, e.val) :: rest) out ⟨rfl, hc⟩
        simpa [toPairs, List.append_assoc] using this
    · other_tx3 h keep j hj
  | execReadMiss i l k reads blocked hp hr =>
    intro j
    by_cases hj : j = i
    · subst hj
      have hcp := (h j).cons_phase; unfold ConsPhase at hcp; rw [hp] at hcp
      have hpp := (h j).phase_prov; rw [hp] at hpp
      refine ⟨rkeep j, ?_, ?_, (h j).cons_res⟩
      · intro x hx
        simp only [setPhase, updF_same, phaseReads] at hx
        exact keep j x (hpp x hx)
      · unfold ConsPhase; simp only [setPhase, updF_same]
        exact hcp
    · other_tx3 h keep j hj
  | execFetch i l k reads blocked hp =>
    intro j
    by_cases hj : j = i
    · subst hj
      have hcp := (h j).cons_phase; unfold ConsPhase at hcp; rw [hp] at hcp
      have hpp := (h j).phase_prov; rw [hp] at hpp
      refine ⟨rkeep j, ?_, ?_, (h j).cons_res⟩
      · intro x hx
        simp only [setPhase, updF_same, phaseReads] at hx
        rcases List.mem_cons.mp hx with rfl | hx
        · refine ⟨s.com, Nat.le_refl _, ?_⟩
          show cval P s s.com l = cval P (setPhase s j _) s.com l
          exact Eq.symm (cval_frozen (fun _ _ => rfl))
        · exact keep j x (hpp x hx)
      · unfold ConsPhase; simp only [setPhase, updF_same]
        intro rest out hc
        have := hcp ((l, cval P s s.com l) :: rest) out ⟨rfl, hc⟩
        simpa [toPairs, List.append_assoc] using this
    · other_tx3 h keep j hj
  | execFinishOk i w o reads blocked hp =>
    intro j
    by_cases hj : j = i
    · subst hj
      have hcp := (h j).cons_phase; unfold ConsPhase at hcp; rw [hp] at hcp
      have hpp := (h j).phase_prov; rw [hp] at hpp
      refine ⟨rkeep j, ?_, ?_, (h j).cons_res⟩
      · intro x hx
        simp only [updF_same, phaseReads] at hx
        exact keep j x (hpp x (by simpa [phaseReads] using hx))
      · unfold ConsPhase; simp only [updF_same]
        have := hcp [] (.ok w o) (by simp [Consistent])
        simpa using this
    · exact (h j).frame (by simp [updF, hj]) rfl (fun x => keep j x)
  | execFinishErr i e reads blocked hp =>
    intro j
    by_cases hj : j = i
    · subst hj
      refine ⟨rkeep j, ?_, ?_, (h j).cons_res⟩
      · intro x hx; simp [setPhase, phaseReads] at hx
      · unfold ConsPhase; simp only [setPhase, updF_same]
    · other_tx3 h keep j hj
  | publishOne i run l todo newLoc v hp hl hv =>
    intro j
    by_cases hj : j = i
    · subst hj
      have hcp := (h j).cons_phase; unfold ConsPhase at hcp; rw [hp] at hcp
      have hpp := (h j).phase_prov; rw [hp] at hpp
      refine ⟨rkeep j, ?_, ?_, (h j).cons_res⟩
      · intro x hx; simp only [updF_same, phaseReads] at hx; exact keep j x (hpp x hx)
      · unfold ConsPhase; simp only [updF_same]; exact hcp
    · other_tx3 h keep j hj
  | endPublish i run newLoc hp =>
    intro j
    by_cases hj : j = i
    · subst hj
      have hcp := (h j).cons_phase; unfold ConsPhase at hcp; rw [hp] at hcp
      have hpp := (h j).phase_prov; rw [hp] at hpp
      refine ⟨rkeep j, ?_, ?_, (h j).cons_res⟩
      · intro x hx; simp only [setPhase, updF_same, phaseReads] at hx; exact keep j x (hpp x hx)
      · unfold ConsPhase; simp only [setPhase, updF_same]; exact hcp
    · other_tx3 h keep j hj
  | removeOne i run l todo newLoc hp hl =>
    intro j
    by_cases hj : j = i
    · subst hj
      have hcp := (h j).cons_phase; unfold ConsPhase at hcp; rw [hp] at hcp
      have hpp := (h j).phase_prov; rw [hp] at hpp
      refine ⟨rkeep j, ?_, ?_, (h j).cons_res⟩
      · intro x hx; simp only [updF_same, phaseReads] at hx; exact keep j x (hpp x hx)
      · unfold ConsPhase; simp only [updF_same]; exact hcp
    · other_tx3 h keep j hj
  | recordBlocked i run newLoc hp hb =>
    intro j
    by_cases hj : j = i
    · subst hj
      have hcp := (h j).cons_phase; unfold ConsPhase at hcp; rw [hp] at hcp
      have hpp := (h j).phase_prov; rw [hp] at hpp
      refine ⟨?_, ?_, ?_, ?_⟩
      · intro r hr x hx
        simp only [setPhase, updF_same] at hr; cases hr
        exact keep j x (hpp x hx)
      · intro x hx; simp [setPhase, phaseReads] at hx
      · unfold ConsPhase; simp only [setPhase, updF_same]
      · intro r hr _
        simp only [setPhase, updF_same] at hr; cases hr
        exact hcp
    · other_tx3 h keep j hj
  | recordRewind i run newLoc handoff hp hb hn =>
    intro j
    by_cases hj : j = i
    · subst hj
      have hcp := (h j).cons_phase; unfold ConsPhase at hcp; rw [hp] at hcp
      have hpp := (h j).phase_prov; rw [hp] at hpp
      refine ⟨?_, ?_, ?_, ?_⟩
      · intro r hr x hx
        simp only [setPhase, updF_same] at hr; cases hr
        exact keep j x (hpp x hx)
      · intro x hx; simp [setPhase, phaseReads] at hx
      · unfold ConsPhase; simp only [setPhase, updF_same]
      · intro r hr _
        simp only [setPhase, updF_same] at hr; cases hr
        exact hcp
    · other_tx3 h keep j hj
  | recordDirect i run hp hb =>
    intro j
    by_cases hj : j = i
    · subst hj
      have hcp := (h j).cons_phase; unfold ConsPhase at hcp; rw [hp] at hcp
      have hpp := (h j).phase_prov; rw [hp] at hpp
      refine ⟨?_, ?_, ?_, ?_⟩
      · intro r hr x hx
        simp only [updF_same] at hr; cases hr
        exact keep j x (hpp x hx)
      · intro x hx; simp [phaseReads] at hx
      · unfold ConsPhase; simp only [updF_same]
      · intro r hr _
        simp only [updF_same] at hr; cases hr
        exact hcp
    · other_tx3 h keep j hj
  | markErrSome i e ow l todo en hp hl hm =>
    intro j
    by_cases hj : j = i
    · subst hj
      refine ⟨rkeep j, ?_, ?_, (h j).cons_res⟩
      · intro x hx; simp [phaseReads] at hx
      · unfold ConsPhase; simp only [updF_same]
    · other_tx3 h keep j hj
  | markErrNone i e ow l todo hp hl hm =>
    intro j
    by_cases hj : j = i
    · subst hj
      refine ⟨rkeep j, ?_, ?_, (h j).cons_res⟩
      · intro x hx; simp [setPhase, phaseReads] at hx
      · unfold ConsPhase; simp only [setPhase, updF_same]
    · other_tx3 h keep j hj
  | markValSome i l todo en hp hl hm =>
    intro j
    by_cases hj : j = i
    · subst hj
      refine ⟨rkeep j, ?_, ?_, (h j).cons_res⟩
      · intro x hx; simp [phaseReads] at hx
      · unfold ConsPhase; simp only [updF_same]
    · other_tx3 h keep j hj
  | markValNone i l todo hp hl hm =>
    intro j
    by_cases hj : j = i
    · subst hj
      refine ⟨rkeep j, ?_, ?_, (h j).cons_res⟩
      · intro x hx; simp [setPhase, phaseReads] at hx
      · unfold ConsPhase; simp only [setPhase, updF_same]
    · other_tx3 h keep j hj
  | endErrMark i e ow hp =>
    intro j
    by_cases hj : j = i
    · subst hj
      refine ⟨?_, ?_, ?_, ?_⟩
      · intro r hr x hx
        simp only [updF_same] at hr; cases hr
        simp at hx
      · intro x hx; simp [phaseReads] at hx
      · unfold ConsPhase; simp only [updF_same]
      · intro r hr hok
        simp only [updF_same] at hr; cases hr
        obtain ⟨o, ho⟩ := hok; cases ho
    · other_tx3 h keep j hj
  | tailTs i k st hp hk =>
    intro j
    by_cases hj : j = i
    · subst hj
      refine ⟨rkeep j, ?_, ?_, (h j).cons_res⟩
      · intro x hx; simp [phaseReads] at hx
      · unfold ConsPhase; simp only [updF_same]
    · other_tx3 h keep j hj
  | tailLts i k ts st hp =>
    intro j
    by_cases hj : j = i
    · subst hj
      refine ⟨rkeep j, ?_, ?_, (h j).cons_res⟩
      · intro x hx; simp [phaseReads] at hx
      · unfold ConsPhase; simp only [updF_same]
    · other_tx3 h keep j hj
  | tailSkip i k st hp hk =>
    intro j
    by_cases hj : j = i
    · subst hj
      refine ⟨rkeep j, ?_, ?_, (h j).cons_res⟩
      · intro x hx; simp [phaseReads] at hx
      · unfold ConsPhase; simp only [updF_same]
    · other_tx3 h keep j hj
  | claimVal i hp hst =>
    intro j
    by_cases hj : j = i
    · subst hj
      refine ⟨rkeep j, ?_, ?_, (h j).cons_res⟩
      · intro x hx; simp [phaseReads] at hx
      · unfold ConsPhase; simp only [updF_same]
    · other_tx3 h keep j hj
  | valTs i r hp hr =>
    intro j
    by_cases hj : j = i
    · subst hj
      refine ⟨rkeep j, ?_, ?_, (h j).cons_res⟩
      · intro x hx; simp [phaseReads] at hx
      · unfold ConsPhase; simp only [updF_same]
    · other_tx3 h keep j hj
  | valCheck i ts done r todo conflict k hp hk =>
    intro j
    by_cases hj : j = i
    · subst hj
      refine ⟨rkeep j, ?_, ?_, (h j).cons_res⟩
      · intro x hx; simp [setPhase, phaseReads] at hx
      · unfold ConsPhase; simp only [setPhase, updF_same]
    · other_tx3 h keep j hj
  | endScanConflict i ts done hp =>
    intro j
    by_cases hj : j = i
    · subst hj
      refine ⟨rkeep j, ?_, ?_, (h j).cons_res⟩
      · intro x hx; simp [setPhase, phaseReads] at hx
      · unfold ConsPhase; simp only [setPhase, updF_same]
    · other_tx3 h keep j hj
  | endScanOk i ts done hp =>
    intro j
    by_cases hj : j = i
    · subst hj
      refine ⟨rkeep j, ?_, ?_, (h j).cons_res⟩
      · intro x hx; simp [phaseReads] at hx
      · unfold ConsPhase; simp only [updF_same]
    · other_tx3 h keep j hj
  | endValMark i hp =>
    intro j
    by_cases hj : j = i
    · subst hj
      refine ⟨rkeep j, ?_, ?_, (h j).cons_res⟩
      · intro x hx; simp [setPhase, phaseReads] at hx
      · unfold ConsPhase; simp only [setPhase, updF_same]
    · other_tx3 h keep j hj
  | finalize hi hp hst hg =>
    intro j; exact (h j).frame rfl rfl (fun x => keep j x)
  | commit r hc hr =>
    intro j; exact (h j).frame rfl rfl (fun x => keep j x)

end Grevm.Sched
