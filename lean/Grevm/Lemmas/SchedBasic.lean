/- Basic lemmas for the pipeline model: updates, resolution, per-transaction views. -/
import Grevm.Model.Sched
import Grevm.Lemmas.Block

namespace Grevm.Sched

open Grevm.Block

@[simp] theorem updF_same {α : Type} (f : Nat → α) (i : Nat) (v : α) : updF f i v i = v := by
  simp [updF]

theorem updF_ne {α : Type} (f : Nat → α) (i j : Nat) (v : α) (h : j ≠ i) : updF f i v j = f j := by
  simp [updF, h]

@[simp] theorem setMv_same (mv : Loc → TxId → Option Entry) (l : Loc) (i : TxId) (e : Option Entry) :
    setMv mv l i e l i = e := by simp [setMv]

theorem setMv_ne_tx (mv : Loc → TxId → Option Entry) (l l' : Loc) (i j : TxId) (e : Option Entry)
    (h : j ≠ i) : setMv mv l i e l' j = mv l' j := by
  simp [setMv, h]

theorem setMv_ne_loc (mv : Loc → TxId → Option Entry) (l l' : Loc) (i j : TxId) (e : Option Entry)
    (h : l' ≠ l) : setMv mv l i e l' j = mv l' j := by
  simp [setMv, h]

/-! ### resolve -/

theorem resolve_some {mv : Loc → TxId → Option Entry} {i : TxId} {l : Loc} {k : TxId} {e : Entry}
    (h : resolve mv i l = some (k, e)) :
    k < i ∧ mv l k = some e ∧ ∀ k', k < k' → k' < i → mv l k' = none := by
  induction i with
  | zero => simp [resolve] at h
  | succ i ih =>
    simp only [resolve] at h
    split at h
    · rename_i e' he'
      simp at h
      obtain ⟨rfl, rfl⟩ := h
      exact ⟨Nat.lt_succ_self _, he', fun k' h1 h2 => by omega⟩
    · rename_i hn
      obtain ⟨h1, h2, h3⟩ := ih h
      refine ⟨by omega, h2, ?_⟩
      intro k' hk hk'
      by_cases hki : k' = i
      · subst hki; exact hn
      · exact h3 k' hk (by omega)

theorem resolve_none {mv : Loc → TxId → Option Entry} {i : TxId} {l : Loc}
    (h : resolve mv i l = none) : ∀ k, k < i → mv l k = none := by
  induction i with
  | zero => intro k hk; omega
  | succ i ih =>
    simp only [resolve] at h
    split at h
    · simp at h
    · rename_i hn
      intro k hk
      by_cases hki : k = i
      · subst hki; exact hn
      · exact ih h k (by omega)

theorem resolve_intro {mv : Loc → TxId → Option Entry} {i : TxId} {l : Loc} {k : TxId} {e : Entry}
    (hk : k < i) (he : mv l k = some e) (hn : ∀ k', k < k' → k' < i → mv l k' = none) :
    resolve mv i l = some (k, e) := by
  induction i with
  | zero => omega
  | succ i ih =>
    simp only [resolve]
    by_cases hki : k = i
    · subst hki; simp [he]
    · have : mv l i = none := hn i (by omega) (by omega)
      simp only [this]
      exact ih (by omega) (fun k' h1 h2 => hn k' h1 (by omega))

theorem resolve_none_intro {mv : Loc → TxId → Option Entry} {i : TxId} {l : Loc}
    (hn : ∀ k, k < i → mv l k = none) : resolve mv i l = none := by
  induction i with
  | zero => rfl
  | succ i ih =>
    simp only [resolve]
    rw [hn i (Nat.lt_succ_self _)]
    exact ih (fun k hk => hn k (by omega))

/-- Resolution below `i` only looks at entries of transactions below `i`. -/
theorem resolve_congr {mv mv' : Loc → TxId → Option Entry} {i : TxId} {l : Loc}
    (h : ∀ k, k < i → mv l k = mv' l k) : resolve mv i l = resolve mv' i l := by
  induction i with
  | zero => rfl
  | succ i ih =>
    simp only [resolve]
    rw [h i (Nat.lt_succ_self _)]
    split
    · rfl
    · exact ih (fun k hk => h k (by omega))

/-- An update of transaction `j ≥ i`'s entry is invisible to readers `≤ j`. -/
theorem resolve_setMv_ge (mv : Loc → TxId → Option Entry) (l l' : Loc) (i j : TxId)
    (e : Option Entry) (h : i ≤ j) : resolve (setMv mv l' j e) i l = resolve mv i l := by
  apply resolve_congr
  intro k hk
  exact setMv_ne_tx mv l' l j k e (by omega)

theorem resolve_setMv_loc (mv : Loc → TxId → Option Entry) (l l' : Loc) (i j : TxId)
    (e : Option Entry) (h : l ≠ l') : resolve (setMv mv l' j e) i l = resolve mv i l := by
  apply resolve_congr
  intro k _
  exact setMv_ne_loc mv l' l j k e h

/-! ### cval: the committed-state cache -/

/-- `cval … c` only looks at the results of transactions below `c`. -/
theorem cval_frozen {P : Params} {s s' : State} {c : Nat} {l : Loc}
    (h : ∀ j, j < c → s'.result j = s.result j) : cval P s' c l = cval P s c l := by
  induction c with
  | zero => rfl
  | succ c ih =>
    have ih' := ih (fun j hj => h j (by omega))
    simp only [cval]
    rw [h c (Nat.lt_succ_self c), ih']

theorem cval_congr {P : Params} {s s' : State} (h : s'.result = s.result) (c : Nat) (l : Loc) :
    cval P s' c l = cval P s c l :=
  cval_frozen (fun j _ => by rw [h])

/-- If no successful result below `c` writes `l`, the committed cache still holds the block-start
    value. -/
theorem cval_base {P : Params} {s : State} {c : Nat} {l : Loc}
    (h : ∀ j, j < c → ∀ r, s.result j = some r → ∀ w o, r.out = .ok w o → lookup w l = none) :
    cval P s c l = P.base l := by
  induction c with
  | zero => rfl
  | succ c ih =>
    have ih' := ih (fun j hj => h j (by omega))
    have hc := h c (Nat.lt_succ_self c)
    simp only [cval]
    split
    · rename_i r hr
      split
      · rename_i w o ho
        rw [hc r hr w o ho]
        exact ih'
      · exact ih'
    · exact ih'

/-! ### lookup / writeLocs -/

theorem mem_writeLocs_iff_mem {w : List (Loc × Val)} {l : Loc} :
    l ∈ writeLocs w ↔ ∃ v, (l, v) ∈ w := by
  induction w with
  | nil => simp [writeLocs]
  | cons p rest ih =>
    simp only [writeLocs]
    split
    · rename_i hmem
      rw [ih]
      constructor
      · rintro ⟨v, hv⟩; exact ⟨v, List.mem_cons_of_mem _ hv⟩
      · rintro ⟨v, hv⟩
        rcases List.mem_cons.mp hv with h | h
        · have : l = p.1 := by rw [← h]
          subst this
          exact ih.mp hmem
        · exact ⟨v, h⟩
    · rw [List.mem_cons, ih]
      constructor
      · rintro (h | ⟨v, hv⟩)
        · exact ⟨p.2, by subst h; exact List.mem_cons_self⟩
        · exact ⟨v, List.mem_cons_of_mem _ hv⟩
      · rintro ⟨v, hv⟩
        rcases List.mem_cons.mp hv with h | h
        · left; rw [← h]
        · right; exact ⟨v, h⟩

theorem lookup_some_iff_mem {w : List (Loc × Val)} {l : Loc} :
    (∃ v, lookup w l = some v) ↔ ∃ v, (l, v) ∈ w := by
  unfold lookup
  constructor
  · rintro ⟨v, hv⟩
    cases hf : w.find? (fun q => q.1 == l) with
    | none => simp [hf] at hv
    | some q =>
      have hq := List.find?_some hf
      have hmem := List.mem_of_find?_eq_some hf
      simp at hq
      exact ⟨q.2, by rw [← hq]; exact hmem⟩
  · rintro ⟨v, hv⟩
    cases hf : w.find? (fun q => q.1 == l) with
    | none =>
      have := List.find?_eq_none.mp hf (l, v) hv
      simp at this
    | some q => exact ⟨q.2, by simp⟩

theorem mem_writeLocs {w : List (Loc × Val)} {l : Loc} :
    l ∈ writeLocs w ↔ ∃ v, lookup w l = some v := by
  rw [mem_writeLocs_iff_mem, lookup_some_iff_mem]

theorem lookup_none_iff {w : List (Loc × Val)} {l : Loc} : lookup w l = none ↔ l ∉ writeLocs w := by
  rw [mem_writeLocs]
  cases h : lookup w l <;> simp

theorem writeLocs_nodup (w : List (Loc × Val)) : (writeLocs w).Nodup := by
  induction w with
  | nil => simp [writeLocs]
  | cons p rest ih =>
    simp only [writeLocs]
    split
    · exact ih
    · rename_i h; exact List.nodup_cons.mpr ⟨h, ih⟩

end Grevm.Sched
