/-
Relational characterisation of `Grevm.TxDep.step`: one constructor per branch of the executable
model, so that invariant proofs are a `cases` on the step relation.
-/
import Grevm.Model.TxDep

namespace Grevm.TxDep

/-- Pcs a thread may enter from `idle` through an API call (with the guards of `step`). -/
def IsEntry (n : Nat) : Pc → Prop
  | .nextLoad => True
  | .rmLockAff d _ => d < n
  | .pubCommit v => 0 < v ∧ v ≤ n
  | .keyLock x => x < n
  | .addLockAff x d => d < x ∧ x < n
  | .addNoneLock x => x < n
  | _ => False

/-- The value `key_tx` writes into `dependency[x]`. -/
def keyDep (s : State) (x : Nat) : Option Nat := if x > s.committed then some x else s.dependency x

/-- End of one `remove(d)` iteration: finish (clear `affect[d]`, release) or continue. -/
inductive RmCont (s1 : State) (t : Tid) (d : Nat) (pop : Bool) (seen : List Nat) (nx : Option Nat) :
    State → Ret → Prop
  | fin (hall : ∀ x ∈ s1.affect d, x ∈ seen) :
      RmCont s1 t d pop seen nx
        (setPc { s1 with affect := upd s1.affect d [], affLock := upd s1.affLock d none } t .idle)
        (some nx)
  | cont (hex : ¬ ∀ x ∈ s1.affect d, x ∈ seen) :
      RmCont s1 t d pop seen nx (setPc s1 t (.rmIter d pop seen nx)) none

theorem rmContinue_sound (s1 : State) (t : Tid) (d : Nat) (pop : Bool) (seen : List Nat)
    (nx : Option Nat) :
    RmCont s1 t d pop seen nx (rmContinue s1 t d pop seen nx).1 (rmContinue s1 t d pop seen nx).2 := by
  unfold rmContinue
  split
  · rename_i h
    exact .fin (by simpa using h)
  · rename_i h
    exact .cont (by simpa using h)

/-- `Step s t pick s' r`: thread `t` takes one step (with iteration choice `pick`). -/
inductive Step (s : State) (t : Tid) (pick : Nat) : State → Ret → Prop
  | call (p : Pc) (hpc : s.pc t = .idle) (he : IsEntry s.n p) : Step s t pick (setPc s t p) none
  | nextLoadEnd (hpc : s.pc t = .nextLoad) (hi : s.index ≥ s.n) :
      Step s t pick (setPc s t .idle) (some none)
  | nextLoadGo (hpc : s.pc t = .nextLoad) (hi : s.index < s.n) :
      Step s t pick (setPc s t .nextAdd) none
  | nextAddEnd (hpc : s.pc t = .nextAdd) (hi : s.index ≥ s.n) :
      Step s t pick (setPc { s with index := s.index + 1 } t .idle) (some none)
  | nextAddGo (hpc : s.pc t = .nextAdd) (hi : s.index < s.n) :
      Step s t pick (setPc { s with index := s.index + 1 } t (.nextLock s.index)) none
  | nextLockClaim (idx : Nat) (hpc : s.pc t = .nextLock idx) (hl : s.depLock idx = none)
      (hon : s.onboard idx = true) (hdep : s.dependency idx = none) :
      Step s t pick (setPc { s with onboard := upd s.onboard idx false } t .idle) (some (some idx))
  | nextLockMiss (idx : Nat) (hpc : s.pc t = .nextLock idx) (hl : s.depLock idx = none)
      (hno : ¬ (s.onboard idx = true ∧ s.dependency idx = none)) :
      Step s t pick (setPc s t .idle) (some none)
  | rmLockAffEmpty (d : Nat) (pop : Bool) (hpc : s.pc t = .rmLockAff d pop)
      (hl : s.affLock d = none) (he : s.affect d = []) :
      Step s t pick (setPc s t .idle) (some none)
  | rmLockAffGo (d : Nat) (pop : Bool) (hpc : s.pc t = .rmLockAff d pop)
      (hl : s.affLock d = none) (he : s.affect d ≠ []) :
      Step s t pick (setPc { s with affLock := upd s.affLock d (some t) } t (.rmIter d pop [] none))
        none
  | rmIterHandoff (d : Nat) (pop : Bool) (seen : List Nat) (nx : Option Nat) (s' : State) (r : Ret)
      (hpc : s.pc t = .rmIter d pop seen nx) (hin : pick ∈ s.affect d) (hns : pick ∉ seen)
      (hl : s.depLock pick = none) (hdep : s.dependency pick = some d)
      (hon : s.onboard pick = true) (hpop : pop = true) (htx : pick = d + 1)
      (hidx : s.index > pick)
      (hrc : RmCont { s with dependency := upd s.dependency pick none,
                             onboard := upd s.onboard pick false } t d pop (pick :: seen)
                (some pick) s' r) :
      Step s t pick s' r
  | rmIterOffer (d : Nat) (pop : Bool) (seen : List Nat) (nx : Option Nat)
      (hpc : s.pc t = .rmIter d pop seen nx) (hin : pick ∈ s.affect d) (hns : pick ∉ seen)
      (hl : s.depLock pick = none) (hdep : s.dependency pick = some d)
      (hon : s.onboard pick = true) (hno : ¬ (pop = true ∧ pick = d + 1 ∧ s.index > pick)) :
      Step s t pick
        (setPc { s with dependency := upd s.dependency pick none,
                        depLock := upd s.depLock pick (some t) } t
          (.rmMin d pop (pick :: seen) nx pick)) none
  | rmIterClear (d : Nat) (pop : Bool) (seen : List Nat) (nx : Option Nat) (s' : State) (r : Ret)
      (hpc : s.pc t = .rmIter d pop seen nx) (hin : pick ∈ s.affect d) (hns : pick ∉ seen)
      (hl : s.depLock pick = none) (hdep : s.dependency pick = some d)
      (hon : s.onboard pick = false)
      (hrc : RmCont { s with dependency := upd s.dependency pick none } t d pop (pick :: seen)
                nx s' r) :
      Step s t pick s' r
  | rmIterStale (d : Nat) (pop : Bool) (seen : List Nat) (nx : Option Nat) (s' : State) (r : Ret)
      (hpc : s.pc t = .rmIter d pop seen nx) (hin : pick ∈ s.affect d) (hns : pick ∉ seen)
      (hl : s.depLock pick = none) (hdep : s.dependency pick ≠ some d)
      (hrc : RmCont s t d pop (pick :: seen) nx s' r) :
      Step s t pick s' r
  | rmMin (d : Nat) (pop : Bool) (seen : List Nat) (nx : Option Nat) (tx : Nat) (s' : State)
      (r : Ret) (hpc : s.pc t = .rmMin d pop seen nx tx)
      (hrc : RmCont { s with index := min s.index tx, depLock := upd s.depLock tx none } t d pop
                seen nx s' r) :
      Step s t pick s' r
  | pubCommitGo (v : Nat) (hpc : s.pc t = .pubCommit v) (hv : v < s.n) :
      Step s t pick (setPc { s with committed := v } t (.cmLock v)) none
  | pubCommitEnd (v : Nat) (hpc : s.pc t = .pubCommit v) (hv : ¬ v < s.n) :
      Step s t pick (setPc { s with committed := v } t .idle) (some none)
  | cmLockGo (nx : Nat) (hpc : s.pc t = .cmLock nx) (hl : s.depLock nx = none)
      (hon : s.onboard nx = true) :
      Step s t pick
        (setPc { s with dependency := upd s.dependency nx none,
                        depLock := upd s.depLock nx (some t) } t (.cmMin nx)) none
  | cmLockSkip (nx : Nat) (hpc : s.pc t = .cmLock nx) (hl : s.depLock nx = none)
      (hon : s.onboard nx = false) :
      Step s t pick (setPc s t .idle) (some none)
  | cmMin (nx : Nat) (hpc : s.pc t = .cmMin nx) :
      Step s t pick
        (setPc { s with index := min s.index nx, depLock := upd s.depLock nx none } t .idle)
        (some none)
  | keyLock (x : Nat) (hpc : s.pc t = .keyLock x) (hl : s.depLock x = none) :
      Step s t pick (setPc { s with depLock := upd s.depLock x (some t) } t (.keyRead x)) none
  | keyReadMin (x : Nat) (hpc : s.pc t = .keyRead x) (hd : keyDep s x = none) :
      Step s t pick
        (setPc { s with dependency := upd s.dependency x (keyDep s x),
                        onboard := upd s.onboard x true } t (.keyMin x)) none
  | keyReadEnd (x : Nat) (hpc : s.pc t = .keyRead x) (hd : keyDep s x ≠ none) :
      Step s t pick
        (setPc { s with dependency := upd s.dependency x (keyDep s x),
                        onboard := upd s.onboard x true,
                        depLock := upd s.depLock x none } t .idle) (some none)
  | keyMin (x : Nat) (hpc : s.pc t = .keyMin x) :
      Step s t pick
        (setPc { s with index := min s.index x, depLock := upd s.depLock x none } t .idle)
        (some none)
  | addLockAff (x d : Nat) (hpc : s.pc t = .addLockAff x d) (hl : s.affLock d = none) :
      Step s t pick (setPc { s with affLock := upd s.affLock d (some t) } t (.addLockDep x d)) none
  | addLockDep (x d : Nat) (hpc : s.pc t = .addLockDep x d) (hl : s.depLock d = none) :
      Step s t pick (setPc { s with depLock := upd s.depLock d (some t) } t (.addLockTx x d)) none
  | addLockTxMin (x d : Nat) (hpc : s.pc t = .addLockTx x d) (hl : s.depLock x = none)
      (hd : s.dependency d = none) :
      Step s t pick
        (setPc { s with
            dependency := upd s.dependency x (some d),
            onboard := upd (upd s.onboard x true) d true,
            affect := upd s.affect d (if (s.affect d).contains x then s.affect d
                                      else x :: s.affect d),
            depLock := upd s.depLock x (some t) } t (.addMin x d)) none
  | addLockTxEnd (x d : Nat) (hpc : s.pc t = .addLockTx x d) (hl : s.depLock x = none)
      (hd : s.dependency d ≠ none) :
      Step s t pick
        (setPc { s with
            dependency := upd s.dependency x (some d),
            onboard := upd (upd s.onboard x true) d true,
            affect := upd s.affect d (if (s.affect d).contains x then s.affect d
                                      else x :: s.affect d),
            depLock := upd s.depLock d none,
            affLock := upd s.affLock d none } t .idle) (some none)
  | addMin (x d : Nat) (hpc : s.pc t = .addMin x d) :
      Step s t pick
        (setPc { s with index := min s.index d,
                        depLock := upd (upd s.depLock x none) d none,
                        affLock := upd s.affLock d none } t .idle) (some none)
  | addNoneLockGo (x : Nat) (hpc : s.pc t = .addNoneLock x) (hl : s.depLock x = none)
      (hon : s.onboard x = false) :
      Step s t pick
        (setPc { s with onboard := upd s.onboard x true,
                        dependency := upd s.dependency x none,
                        depLock := upd s.depLock x (some t) } t (.addNoneMin x)) none
  | addNoneLockSkip (x : Nat) (hpc : s.pc t = .addNoneLock x) (hl : s.depLock x = none)
      (hon : s.onboard x = true) :
      Step s t pick (setPc s t .idle) (some none)
  | addNoneMin (x : Nat) (hpc : s.pc t = .addNoneMin x) :
      Step s t pick
        (setPc { s with index := min s.index x, depLock := upd s.depLock x none } t .idle)
        (some none)

def Act.tid : Act → Tid
  | .call t _ => t
  | .stepT t _ => t

def Act.pick : Act → Nat
  | .call _ _ => 0
  | .stepT _ p => p

end Grevm.TxDep

namespace Grevm.TxDep

theorem step_sound_call {s s' : State} {t : Tid} {c : Call} {r : Ret} {pick : Nat}
    (h : step s (.call t c) = some (s', r)) : Step s t pick s' r := by
  simp only [step] at h
  split at h
  · rename_i hpc
    cases c with
    | next =>
        simp at h; obtain ⟨rfl, rfl⟩ := h
        exact .call _ hpc (by simp [IsEntry])
    | remove d pop =>
        simp at h; obtain ⟨hd, rfl, rfl⟩ := h
        exact .call _ hpc (by simpa [IsEntry] using hd)
    | commit x =>
        simp at h; obtain ⟨hd, rfl, rfl⟩ := h
        exact .call _ hpc (by simp [IsEntry]; omega)
    | keyTx x =>
        simp at h; obtain ⟨hd, rfl, rfl⟩ := h
        exact .call _ hpc (by simpa [IsEntry] using hd)
    | add x d =>
        cases d with
        | none =>
            simp at h; obtain ⟨hd, rfl, rfl⟩ := h
            exact .call _ hpc (by simpa [IsEntry] using hd)
        | some d =>
            simp at h; obtain ⟨hd, rfl, rfl⟩ := h
            exact .call _ hpc (by simpa [IsEntry] using hd)
  · simp at h

end Grevm.TxDep

namespace Grevm.TxDep

theorem step_sound_stepT {s s' : State} {t : Tid} {r : Ret} {pick : Nat}
    (h : step s (.stepT t pick) = some (s', r)) : Step s t pick s' r := by
  simp only [step] at h
  split at h
  · simp at h
  · -- nextLoad
    rename_i hpc
    split at h
    · rename_i hi; simp at h; obtain ⟨rfl, rfl⟩ := h; exact .nextLoadEnd hpc hi
    · rename_i hi; simp at h; obtain ⟨rfl, rfl⟩ := h; exact .nextLoadGo hpc (by omega)
  · -- nextAdd
    rename_i hpc
    split at h
    · rename_i hi; simp at h; obtain ⟨rfl, rfl⟩ := h; exact .nextAddEnd hpc hi
    · rename_i hi; simp at h; obtain ⟨rfl, rfl⟩ := h; exact .nextAddGo hpc (by omega)
  · -- nextLock
    rename_i idx hpc
    split at h
    · simp at h
    · rename_i hl
      split at h
      · rename_i hc; simp at h; obtain ⟨rfl, rfl⟩ := h; exact .nextLockClaim idx hpc hl hc.1 hc.2
      · rename_i hc; simp at h; obtain ⟨rfl, rfl⟩ := h; exact .nextLockMiss idx hpc hl hc
  · -- rmLockAff
    rename_i d pop hpc
    split at h
    · simp at h
    · rename_i hl
      split at h
      · rename_i hc; simp at h; obtain ⟨rfl, rfl⟩ := h
        exact .rmLockAffEmpty d pop hpc hl (by simpa using hc)
      · rename_i hc; simp at h; obtain ⟨rfl, rfl⟩ := h
        exact .rmLockAffGo d pop hpc hl (by simpa using hc)
  · -- rmIter
    rename_i d pop seen nx hpc
    split at h
    · rename_i hc
      have hin : pick ∈ s.affect d := by simpa using hc.1
      have hns : pick ∉ seen := by simpa using hc.2
      split at h
      · simp at h
      · rename_i hl
        split at h
        · rename_i hdep
          split at h
          · rename_i hon
            split at h
            · rename_i hh
              simp only [Option.some.injEq] at h
              have := rmContinue_sound
                ({ s with dependency := upd s.dependency pick none, onboard := upd s.onboard pick false })
                t d pop (pick :: seen) (some pick)
              rw [h] at this
              exact .rmIterHandoff d pop seen nx s' r hpc hin hns hl hdep hon hh.1 hh.2.1 hh.2.2 this
            · rename_i hh
              simp at h; obtain ⟨rfl, rfl⟩ := h
              exact .rmIterOffer d pop seen nx hpc hin hns hl hdep hon hh
          · rename_i hon
            simp only [Option.some.injEq] at h
            have := rmContinue_sound { s with dependency := upd s.dependency pick none }
                t d pop (pick :: seen) nx
            rw [h] at this
            exact .rmIterClear d pop seen nx s' r hpc hin hns hl hdep (by simpa using hon) this
        · rename_i hdep
          simp only [Option.some.injEq] at h
          have := rmContinue_sound s t d pop (pick :: seen) nx
          rw [h] at this
          exact .rmIterStale d pop seen nx s' r hpc hin hns hl hdep this
    · simp at h
  · -- rmMin
    rename_i d pop seen nx tx hpc
    simp only [Option.some.injEq] at h
    have := rmContinue_sound { s with index := min s.index tx, depLock := upd s.depLock tx none }
        t d pop seen nx
    rw [h] at this
    exact .rmMin d pop seen nx tx s' r hpc this
  · -- pubCommit
    rename_i v hpc
    split at h
    · rename_i hv; simp at h; obtain ⟨rfl, rfl⟩ := h; exact .pubCommitGo v hpc hv
    · rename_i hv; simp at h; obtain ⟨rfl, rfl⟩ := h; exact .pubCommitEnd v hpc hv
  · -- cmLock
    rename_i nx hpc
    split at h
    · simp at h
    · rename_i hl
      split at h
      · rename_i hon; simp at h; obtain ⟨rfl, rfl⟩ := h; exact .cmLockGo nx hpc hl hon
      · rename_i hon; simp at h; obtain ⟨rfl, rfl⟩ := h
        exact .cmLockSkip nx hpc hl (by simpa using hon)
  · -- cmMin
    rename_i nx hpc
    simp at h; obtain ⟨rfl, rfl⟩ := h; exact .cmMin nx hpc
  · -- keyLock
    rename_i x hpc
    split at h
    · simp at h
    · rename_i hl; simp at h; obtain ⟨rfl, rfl⟩ := h; exact .keyLock x hpc hl
  · -- keyRead
    rename_i x hpc
    have hk : (if x > s.committed then some x else s.dependency x) = keyDep s x := rfl
    simp only [hk] at h
    split at h
    · rename_i hd; simp only [Option.some.injEq, Prod.mk.injEq] at h; obtain ⟨rfl, rfl⟩ := h
      exact .keyReadMin x hpc hd
    · rename_i hd; simp only [Option.some.injEq, Prod.mk.injEq] at h; obtain ⟨rfl, rfl⟩ := h
      exact .keyReadEnd x hpc hd
  · -- keyMin
    rename_i x hpc
    simp at h; obtain ⟨rfl, rfl⟩ := h; exact .keyMin x hpc
  · -- addLockAff
    rename_i x d hpc
    split at h
    · simp at h
    · rename_i hl; simp at h; obtain ⟨rfl, rfl⟩ := h; exact .addLockAff x d hpc hl
  · -- addLockDep
    rename_i x d hpc
    split at h
    · simp at h
    · rename_i hl; simp at h; obtain ⟨rfl, rfl⟩ := h; exact .addLockDep x d hpc hl
  · -- addLockTx
    rename_i x d hpc
    split at h
    · simp at h
    · rename_i hl
      split at h
      · rename_i hd; simp only [Option.some.injEq, Prod.mk.injEq] at h; obtain ⟨rfl, rfl⟩ := h
        exact .addLockTxMin x d hpc hl hd
      · rename_i hd; simp only [Option.some.injEq, Prod.mk.injEq] at h; obtain ⟨rfl, rfl⟩ := h
        exact .addLockTxEnd x d hpc hl hd
  · -- addMin
    rename_i x d hpc
    simp at h; obtain ⟨rfl, rfl⟩ := h; exact .addMin x d hpc
  · -- addNoneLock
    rename_i x hpc
    split at h
    · simp at h
    · rename_i hl
      split at h
      · rename_i hon; simp at h; obtain ⟨rfl, rfl⟩ := h; exact .addNoneLockGo x hpc hl hon
      · rename_i hon; simp at h; obtain ⟨rfl, rfl⟩ := h
        exact .addNoneLockSkip x hpc hl (by simpa using hon)
  · -- addNoneMin
    rename_i x hpc
    simp at h; obtain ⟨rfl, rfl⟩ := h; exact .addNoneMin x hpc

theorem step_sound {s s' : State} {a : Act} {r : Ret} (h : step s a = some (s', r)) :
    Step s a.tid a.pick s' r := by
  cases a with
  | call t c => exact step_sound_call h
  | stepT t pick => exact step_sound_stepT h

end Grevm.TxDep
