/- Invariant group 1 of the pipeline model: logical clock, status/phase coherence, frozen prefix. -/
import Grevm.Lemmas.SchedStep

namespace Grevm.Sched

open Grevm.Block

/-- Which statuses the `tx_states` entry can hold while a worker is in a given phase. -/
def PhaseStatus : Phase → Status → Prop
  | .idle, st => st ≠ .executing ∧ st ≠ .validating
  | .reading _ _ _, st => st = .executing
  | .fetching _ _ _ _, st => st = .executing
  | .publishing _ _ _, st => st = .executing
  | .removing _ _ _, st => st = .executing
  | .errMark _ _ _, st => st = .executing
  | .valPreTs, st => st = .validating
  | .valScan _ _ _ _, st => st = .validating
  | .valMark _, st => st = .validating
  | .tailPreTs _ st', st => (st = .executing ∨ st = .validating) ∧ (st' = .executed ∨ st' = .conflict)
  | .tailLts _ _ st', st => (st = .executing ∨ st = .validating) ∧ (st' = .executed ∨ st' = .conflict)

def TailTarget (i : TxId) : Phase → Prop
  | .tailPreTs k _ => k = i ∨ k = i + 1
  | .tailLts k _ _ => k = i ∨ k = i + 1
  | _ => True

def PhaseClock (clock : Nat) (uts : Nat) : Phase → Prop
  | .tailLts _ ts _ => ts < clock
  | .valScan ts _ _ _ => ts < clock ∧ uts < ts
  | _ => True

structure Inv1 (P : Params) (s : State) : Prop where
  clk_lts : ∀ k, s.lts k < s.clock
  clk_uts : ∀ k, s.uts k < s.clock
  clk_phase : ∀ i, PhaseClock s.clock (s.uts i) (s.phase i)
  st_phase : ∀ i, PhaseStatus (s.phase i) (s.status i)
  tail_target : ∀ i, TailTarget i (s.phase i)
  fin_status : ∀ j, s.status j = .finality ↔ j < s.fin
  lower_ge : ∀ k, k < s.fin → s.lts k ≤ s.lower
  com_le : s.com ≤ s.fin ∧ s.outcomes.length = s.com
  fin_le : s.fin ≤ P.n
  active_lt : ∀ i, s.status i ≠ .initial → i < P.n

theorem inv1_init (P : Params) : Inv1 P init := by
  refine ⟨by simp [init], by simp [init], ?_, ?_, ?_, ?_, by simp [init], by simp [init], by simp [init],
    by intro i h; simp [init] at h⟩
  · intro i; simp [init, PhaseClock]
  · intro i; simp [init, PhaseStatus]
  · intro i; simp [init, TailTarget]
  · intro j; simp [init]

/-- A finalized transaction has no worker inside. -/
theorem Inv1.fin_idle {P : Params} {s : State} (h : Inv1 P s) {j : TxId} (hj : j < s.fin) :
    s.phase j = .idle := by
  have hst := (h.fin_status j).mpr hj
  have := h.st_phase j
  cases hp : s.phase j <;> simp [hp, PhaseStatus, hst] at this ⊢

theorem PhaseClock.mono {c c' u : Nat} {p : Phase} (h : PhaseClock c u p) (hc : c ≤ c') :
    PhaseClock c' u p := by
  cases p <;> simp only [PhaseClock] at h ⊢
  · omega
  · omega

/-- Local re-establishment: thread `i` moves to phase `p` with status `st`; clock, lts, uts, fin,
    lower, com unchanged. -/
theorem Inv1.move {P : Params} {s : State} (h : Inv1 P s) (i : TxId) (p : Phase) (st : Status)
    (hps : PhaseStatus p st) (htt : TailTarget i p) (hpc : PhaseClock s.clock (s.uts i) p)
    (hfin : st = .finality ↔ s.status i = .finality) (hact : st ≠ .initial → i < P.n)
    (s' : State)
    (e1 : s'.clock = s.clock) (e2 : s'.lts = s.lts) (e3 : s'.uts = s.uts) (e4 : s'.fin = s.fin)
    (e5 : s'.lower = s.lower) (e6 : s'.com = s.com) (e7 : s'.outcomes = s.outcomes)
    (e8 : s'.phase = updF s.phase i p) (e9 : s'.status = updF s.status i st) : Inv1 P s' := by
  refine ⟨by rw [e1, e2]; exact h.clk_lts, by rw [e1, e3]; exact h.clk_uts, ?_, ?_, ?_, ?_,
    by rw [e2, e4, e5]; exact h.lower_ge, by rw [e4, e6, e7]; exact h.com_le, by rw [e4]; exact h.fin_le,
    ?_⟩
  · intro j
    rw [e1, e3, e8]
    by_cases hj : j = i
    · subst hj; simpa using hpc
    · rw [updF_ne _ _ _ _ hj]; exact h.clk_phase j
  · intro j
    rw [e8, e9]
    by_cases hj : j = i
    · subst hj; simpa using hps
    · rw [updF_ne _ _ _ _ hj, updF_ne _ _ _ _ hj]; exact h.st_phase j
  · intro j
    rw [e8]
    by_cases hj : j = i
    · subst hj; simpa using htt
    · rw [updF_ne _ _ _ _ hj]; exact h.tail_target j
  · intro j
    rw [e9, e4]
    by_cases hj : j = i
    · subst hj; simp only [updF_same]; rw [hfin]; exact h.fin_status j
    · rw [updF_ne _ _ _ _ hj]; exact h.fin_status j
  · intro j
    rw [e9]
    by_cases hj : j = i
    · subst hj; simp only [updF_same]; exact hact
    · rw [updF_ne _ _ _ _ hj]; exact h.active_lt j

theorem updF_self {α : Type} (f : Nat → α) (i : Nat) : updF f i (f i) = f := by
  funext j; simp only [updF]; split
  · rename_i h; rw [h]
  · rfl

theorem inv1_step {P : Params} {s s' : State} (h : Inv1 P s) (hs : Step P s s') : Inv1 P s' := by
  have hst := h.st_phase
  cases hs with
  | claimExec i hi hp hs =>
    refine h.move i _ .executing (by simp [PhaseStatus]) (by simp [TailTarget]) (by simp [PhaseClock])
      ?_ (fun _ => hi) _ rfl rfl rfl rfl rfl rfl rfl rfl rfl
    rcases hs with hs | hs <;> simp [hs]
  | execReadMv i l k reads blocked j e hp hr =>
    have := hst i; rw [hp] at this; simp only [PhaseStatus] at this
    refine h.move i _ (s.status i) (by simp [PhaseStatus, this]) (by simp [TailTarget])
      (by simp [PhaseClock]) Iff.rfl (h.active_lt i) _ rfl rfl rfl rfl rfl rfl rfl rfl ?_
    simp [setPhase, updF_self]
  | execReadMiss i l k reads blocked hp hr =>
    have := hst i; rw [hp] at this; simp only [PhaseStatus] at this
    refine h.move i _ (s.status i) (by simp [PhaseStatus, this]) (by simp [TailTarget])
      (by simp [PhaseClock]) Iff.rfl (h.active_lt i) _ rfl rfl rfl rfl rfl rfl rfl rfl ?_
    simp [setPhase, updF_self]
  | execFetch i l k reads blocked hp =>
    have := hst i; rw [hp] at this; simp only [PhaseStatus] at this
    refine h.move i _ (s.status i) (by simp [PhaseStatus, this]) (by simp [TailTarget])
      (by simp [PhaseClock]) Iff.rfl (h.active_lt i) _ rfl rfl rfl rfl rfl rfl rfl rfl ?_
    simp [setPhase, updF_self]
  | execFinishOk i w o reads blocked hp =>
    have := hst i; rw [hp] at this; simp only [PhaseStatus] at this
    refine h.move i _ (s.status i) (by simp [PhaseStatus, this]) (by simp [TailTarget])
      (by simp [PhaseClock]) Iff.rfl (h.active_lt i) _ rfl rfl rfl rfl rfl rfl rfl rfl ?_
    simp [updF_self]
  | execFinishErr i e reads blocked hp =>
    have := hst i; rw [hp] at this; simp only [PhaseStatus] at this
    refine h.move i _ (s.status i) (by simp [PhaseStatus, this]) (by simp [TailTarget])
      (by simp [PhaseClock]) Iff.rfl (h.active_lt i) _ rfl rfl rfl rfl rfl rfl rfl rfl ?_
    simp [setPhase, updF_self]
  | publishOne i run l todo newLoc v hp hl hv =>
    have := hst i; rw [hp] at this; simp only [PhaseStatus] at this
    refine h.move i _ (s.status i) (by simp [PhaseStatus, this]) (by simp [TailTarget])
      (by simp [PhaseClock]) Iff.rfl (h.active_lt i) _ rfl rfl rfl rfl rfl rfl rfl rfl ?_
    simp [updF_self]
  | endPublish i run newLoc hp =>
    have := hst i; rw [hp] at this; simp only [PhaseStatus] at this
    refine h.move i _ (s.status i) (by simp [PhaseStatus, this]) (by simp [TailTarget])
      (by simp [PhaseClock]) Iff.rfl (h.active_lt i) _ rfl rfl rfl rfl rfl rfl rfl rfl ?_
    simp [setPhase, updF_self]
  | removeOne i run l todo newLoc hp hl =>
    have := hst i; rw [hp] at this; simp only [PhaseStatus] at this
    refine h.move i _ (s.status i) (by simp [PhaseStatus, this]) (by simp [TailTarget])
      (by simp [PhaseClock]) Iff.rfl (h.active_lt i) _ rfl rfl rfl rfl rfl rfl rfl rfl ?_
    simp [updF_self]
  | recordBlocked i run newLoc hp hb =>
    have := hst i; rw [hp] at this; simp only [PhaseStatus] at this
    refine h.move i _ (s.status i) (by simp [PhaseStatus, this]) (by simp [TailTarget])
      (by simp [PhaseClock]) Iff.rfl (h.active_lt i) _ rfl rfl rfl rfl rfl rfl rfl rfl ?_
    simp [setPhase, updF_self]
  | recordRewind i run newLoc handoff hp hb hn =>
    have := hst i; rw [hp] at this; simp only [PhaseStatus] at this
    refine h.move i _ (s.status i) (by simp [PhaseStatus, this]) (by simp [TailTarget])
      (by simp [PhaseClock]) Iff.rfl (h.active_lt i) _ rfl rfl rfl rfl rfl rfl rfl rfl ?_
    simp [setPhase, updF_self]
  | recordDirect i run hp hb =>
    have := hst i; rw [hp] at this; simp only [PhaseStatus] at this
    refine h.move i _ .validating (by simp [PhaseStatus]) (by simp [TailTarget])
      (by simp [PhaseClock]) (by simp [this]) (fun _ => h.active_lt i (by rw [this]; simp)) _
      rfl rfl rfl rfl rfl rfl rfl rfl rfl
  | markErrSome i e ow l todo en hp hl hm =>
    have := hst i; rw [hp] at this; simp only [PhaseStatus] at this
    refine h.move i _ (s.status i) (by simp [PhaseStatus, this]) (by simp [TailTarget])
      (by simp [PhaseClock]) Iff.rfl (h.active_lt i) _ rfl rfl rfl rfl rfl rfl rfl rfl ?_
    simp [updF_self]
  | markErrNone i e ow l todo hp hl hm =>
    have := hst i; rw [hp] at this; simp only [PhaseStatus] at this
    refine h.move i _ (s.status i) (by simp [PhaseStatus, this]) (by simp [TailTarget])
      (by simp [PhaseClock]) Iff.rfl (h.active_lt i) _ rfl rfl rfl rfl rfl rfl rfl rfl ?_
    simp [setPhase, updF_self]
  | markValSome i l todo en hp hl hm =>
    have := hst i; rw [hp] at this; simp only [PhaseStatus] at this
    refine h.move i _ (s.status i) (by simp [PhaseStatus, this]) (by simp [TailTarget])
      (by simp [PhaseClock]) Iff.rfl (h.active_lt i) _ rfl rfl rfl rfl rfl rfl rfl rfl ?_
    simp [updF_self]
  | markValNone i l todo hp hl hm =>
    have := hst i; rw [hp] at this; simp only [PhaseStatus] at this
    refine h.move i _ (s.status i) (by simp [PhaseStatus, this]) (by simp [TailTarget])
      (by simp [PhaseClock]) Iff.rfl (h.active_lt i) _ rfl rfl rfl rfl rfl rfl rfl rfl ?_
    simp [setPhase, updF_self]
  | endErrMark i e ow hp =>
    have := hst i; rw [hp] at this; simp only [PhaseStatus] at this
    refine h.move i _ (s.status i) (by simp [PhaseStatus, this]) (by simp [TailTarget])
      (by simp [PhaseClock]) Iff.rfl (h.active_lt i) _ rfl rfl rfl rfl rfl rfl rfl rfl ?_
    simp [updF_self]
  | tailSkip i k st hp hk =>
    have hsi := hst i; rw [hp] at hsi; simp only [PhaseStatus] at hsi
    refine h.move i .idle st ?_ (by simp [TailTarget]) (by simp [PhaseClock]) ?_
      (fun _ => h.active_lt i (by rcases hsi.1 with h' | h' <;> rw [h'] <;> simp)) _
      rfl rfl rfl rfl rfl rfl rfl rfl rfl
    · rcases hsi.2 with h' | h' <;> simp [PhaseStatus, h']
    · constructor
      · intro h'; rcases hsi.2 with h2 | h2 <;> rw [h2] at h' <;> cases h'
      · intro h'; rcases hsi.1 with h2 | h2 <;> rw [h2] at h' <;> cases h'
  | tailTs i k st hp hk =>
    have hsi := hst i; rw [hp] at hsi; simp only [PhaseStatus] at hsi
    have htt := h.tail_target i; rw [hp] at htt; simp only [TailTarget] at htt
    refine ⟨fun k' => Nat.lt_succ_of_lt (h.clk_lts k'), fun k' => Nat.lt_succ_of_lt (h.clk_uts k'),
      ?_, ?_, ?_, h.fin_status, h.lower_ge, h.com_le, h.fin_le, h.active_lt⟩
    · intro j
      show PhaseClock (s.clock + 1) (s.uts j) (updF s.phase i (.tailLts k s.clock st) j)
      by_cases hj : j = i
      · subst hj; simp [PhaseClock]
      · rw [updF_ne _ _ _ _ hj]; exact (h.clk_phase j).mono (Nat.le_succ _)
    · intro j
      show PhaseStatus (updF s.phase i (.tailLts k s.clock st) j) (s.status j)
      by_cases hj : j = i
      · subst hj; simpa [PhaseStatus] using hsi
      · rw [updF_ne _ _ _ _ hj]; exact h.st_phase j
    · intro j
      show TailTarget j (updF s.phase i (.tailLts k s.clock st) j)
      by_cases hj : j = i
      · subst hj; simpa [TailTarget] using htt
      · rw [updF_ne _ _ _ _ hj]; exact h.tail_target j
  | tailLts i k ts st hp =>
    have hsi := hst i; rw [hp] at hsi; simp only [PhaseStatus] at hsi
    have htt := h.tail_target i; rw [hp] at htt; simp only [TailTarget] at htt
    have hck := h.clk_phase i; rw [hp] at hck; simp only [PhaseClock] at hck
    have hnotfin : ¬ i < s.fin := by
      intro hlt
      have := (h.fin_status i).mpr hlt
      rcases hsi.1 with h1 | h1 <;> rw [h1] at this <;> cases this
    refine ⟨?_, h.clk_uts, ?_, ?_, ?_, ?_, ?_, h.com_le, h.fin_le, ?_⟩
    rotate_right
    · intro j
      show updF s.status i st j ≠ .initial → j < P.n
      by_cases hj : j = i
      · subst hj; intro _
        exact h.active_lt j (by rcases hsi.1 with h' | h' <;> rw [h'] <;> simp)
      · rw [updF_ne _ _ _ _ hj]; exact h.active_lt j
    · intro k'
      show updF s.lts k (max (s.lts k) ts) k' < s.clock
      by_cases hk : k' = k
      · subst hk; simp only [updF_same]; have := h.clk_lts k'; omega
      · rw [updF_ne _ _ _ _ hk]; exact h.clk_lts k'
    · intro j
      show PhaseClock s.clock (s.uts j) (updF s.phase i .idle j)
      by_cases hj : j = i
      · subst hj; simp [PhaseClock]
      · rw [updF_ne _ _ _ _ hj]; exact h.clk_phase j
    · intro j
      show PhaseStatus (updF s.phase i .idle j) (updF s.status i st j)
      by_cases hj : j = i
      · subst hj; simp only [updF_same, PhaseStatus]
        rcases hsi.2 with h1 | h1 <;> simp [h1]
      · rw [updF_ne _ _ _ _ hj, updF_ne _ _ _ _ hj]; exact h.st_phase j
    · intro j
      show TailTarget j (updF s.phase i .idle j)
      by_cases hj : j = i
      · subst hj; simp [TailTarget]
      · rw [updF_ne _ _ _ _ hj]; exact h.tail_target j
    · intro j
      show updF s.status i st j = .finality ↔ j < s.fin
      by_cases hj : j = i
      · subst hj; simp only [updF_same]
        constructor
        · intro h1; rcases hsi.2 with h2 | h2 <;> rw [h2] at h1 <;> cases h1
        · intro h1; exact absurd h1 hnotfin
      · rw [updF_ne _ _ _ _ hj]; exact h.fin_status j
    · intro k' hk'
      have hk' : k' < s.fin := hk'
      show updF s.lts k (max (s.lts k) ts) k' ≤ s.lower
      by_cases hk : k' = k
      · subst hk
        exfalso
        rcases htt with h1 | h1
        · subst h1; exact hnotfin hk'
        · subst h1; exact hnotfin (by omega)
      · rw [updF_ne _ _ _ _ hk]; exact h.lower_ge k' hk'
  | claimVal i hp hs =>
    refine h.move i _ .validating (by simp [PhaseStatus]) (by simp [TailTarget]) (by simp [PhaseClock])
      ?_ (fun _ => h.active_lt i (by rcases hs with hs | hs <;> simp [hs])) _
      rfl rfl rfl rfl rfl rfl rfl rfl rfl
    rcases hs with hs | hs <;> simp [hs]
  | valTs i r hp hr =>
    have hsi := hst i; rw [hp] at hsi; simp only [PhaseStatus] at hsi
    refine ⟨fun k' => Nat.lt_succ_of_lt (h.clk_lts k'), fun k' => Nat.lt_succ_of_lt (h.clk_uts k'),
      ?_, ?_, ?_, h.fin_status, h.lower_ge, h.com_le, h.fin_le, h.active_lt⟩
    · intro j
      show PhaseClock (s.clock + 1) (s.uts j) (updF s.phase i (.valScan s.clock [] r.reads false) j)
      by_cases hj : j = i
      · subst hj; simp only [updF_same, PhaseClock]; exact ⟨Nat.lt_succ_self _, h.clk_uts j⟩
      · rw [updF_ne _ _ _ _ hj]; exact (h.clk_phase j).mono (Nat.le_succ _)
    · intro j
      show PhaseStatus (updF s.phase i (.valScan s.clock [] r.reads false) j) (s.status j)
      by_cases hj : j = i
      · subst hj; simpa [PhaseStatus] using hsi
      · rw [updF_ne _ _ _ _ hj]; exact h.st_phase j
    · intro j
      show TailTarget j (updF s.phase i (.valScan s.clock [] r.reads false) j)
      by_cases hj : j = i
      · subst hj; simp [TailTarget]
      · rw [updF_ne _ _ _ _ hj]; exact h.tail_target j
  | valCheck i ts done r todo conflict k hp hk =>
    have := hst i; rw [hp] at this; simp only [PhaseStatus] at this
    have hck := h.clk_phase i; rw [hp] at hck; simp only [PhaseClock] at hck
    refine h.move i _ (s.status i) (by simp [PhaseStatus, this]) (by simp [TailTarget])
      (by simpa [PhaseClock] using hck) Iff.rfl (h.active_lt i) _ rfl rfl rfl rfl rfl rfl rfl rfl ?_
    simp [setPhase, updF_self]
  | endScanConflict i ts done hp =>
    have := hst i; rw [hp] at this; simp only [PhaseStatus] at this
    refine h.move i _ (s.status i) (by simp [PhaseStatus, this]) (by simp [TailTarget])
      (by simp [PhaseClock]) Iff.rfl (h.active_lt i) _ rfl rfl rfl rfl rfl rfl rfl rfl ?_
    simp [setPhase, updF_self]
  | endScanOk i ts done hp =>
    have hsi := hst i; rw [hp] at hsi; simp only [PhaseStatus] at hsi
    have hck := h.clk_phase i; rw [hp] at hck; simp only [PhaseClock] at hck
    refine ⟨h.clk_lts, ?_, ?_, ?_, ?_, ?_, h.lower_ge, h.com_le, h.fin_le, ?_⟩
    rotate_right
    · intro j
      show updF s.status i .unconfirmed j ≠ .initial → j < P.n
      by_cases hj : j = i
      · subst hj; intro _; exact h.active_lt j (by rw [hsi]; simp)
      · rw [updF_ne _ _ _ _ hj]; exact h.active_lt j
    · intro k'
      show updF s.uts i (max (s.uts i) ts) k' < s.clock
      by_cases hk : k' = i
      · subst hk; simp only [updF_same]; have := h.clk_uts k'; omega
      · rw [updF_ne _ _ _ _ hk]; exact h.clk_uts k'
    · intro j
      show PhaseClock s.clock (updF s.uts i (max (s.uts i) ts) j) (updF s.phase i .idle j)
      by_cases hj : j = i
      · subst hj; simp [PhaseClock]
      · rw [updF_ne _ _ _ _ hj, updF_ne _ _ _ _ hj]; exact h.clk_phase j
    · intro j
      show PhaseStatus (updF s.phase i .idle j) (updF s.status i .unconfirmed j)
      by_cases hj : j = i
      · subst hj; simp [PhaseStatus]
      · rw [updF_ne _ _ _ _ hj, updF_ne _ _ _ _ hj]; exact h.st_phase j
    · intro j
      show TailTarget j (updF s.phase i .idle j)
      by_cases hj : j = i
      · subst hj; simp [TailTarget]
      · rw [updF_ne _ _ _ _ hj]; exact h.tail_target j
    · intro j
      show updF s.status i .unconfirmed j = .finality ↔ j < s.fin
      by_cases hj : j = i
      · subst hj; simp only [updF_same]
        constructor
        · intro h1; cases h1
        · intro h1
          have := (h.fin_status j).mpr h1
          rw [hsi] at this; cases this
      · rw [updF_ne _ _ _ _ hj]; exact h.fin_status j
  | endValMark i hp =>
    have := hst i; rw [hp] at this; simp only [PhaseStatus] at this
    refine h.move i _ (s.status i) (by simp [PhaseStatus, this]) (by simp [TailTarget])
      (by simp [PhaseClock]) Iff.rfl (h.active_lt i) _ rfl rfl rfl rfl rfl rfl rfl rfl ?_
    simp [setPhase, updF_self]
  | finalize hi hp hs hg =>
    refine ⟨h.clk_lts, h.clk_uts, h.clk_phase, ?_, h.tail_target, ?_, ?_, ?_, hi, ?_⟩
    rotate_right
    · intro j
      show updF s.status s.fin .finality j ≠ .initial → j < P.n
      by_cases hj : j = s.fin
      · subst hj; intro _; exact hi
      · rw [updF_ne _ _ _ _ hj]; exact h.active_lt j
    · intro j
      show PhaseStatus (s.phase j) (updF s.status s.fin .finality j)
      by_cases hj : j = s.fin
      · subst hj; simp only [updF_same]; rw [hp]; simp [PhaseStatus]
      · rw [updF_ne _ _ _ _ hj]; exact h.st_phase j
    · intro j
      show updF s.status s.fin .finality j = .finality ↔ j < s.fin + 1
      by_cases hj : j = s.fin
      · subst hj; simp
      · rw [updF_ne _ _ _ _ hj, h.fin_status j]; omega
    · intro k hk
      have hk : k < s.fin + 1 := hk
      show s.lts k ≤ max s.lower (s.lts s.fin)
      by_cases hkf : k = s.fin
      · subst hkf; exact Nat.le_max_right _ _
      · have := h.lower_ge k (by omega); omega
    · show s.com ≤ s.fin + 1 ∧ s.outcomes.length = s.com
      exact ⟨by have := h.com_le.1; omega, h.com_le.2⟩
  | commit r hc hr =>
    refine ⟨h.clk_lts, h.clk_uts, h.clk_phase, h.st_phase, h.tail_target, h.fin_status, h.lower_ge,
      ?_, h.fin_le, h.active_lt⟩
    show s.com + 1 ≤ s.fin ∧ (s.outcomes ++ [r.out]).length = s.com + 1
    exact ⟨hc, by simp [h.com_le.2]⟩

theorem inv1_reach {P : Params} {s : State} (h : Reach P s) : Inv1 P s := by
  induction h with
  | init => exact inv1_init P
  | step _ hs ih => exact inv1_step ih hs

/-- No step touches a finalized transaction. -/
theorem step_frozen {P : Params} {s s' : State} (h1 : Inv1 P s) (hs : Step P s s') (j : TxId)
    (hj : j < s.fin) : s'.result j = s.result j ∧ s'.status j = s.status j ∧ j < s'.fin := by
  have hidle := h1.fin_idle hj
  have hfin := (h1.fin_status j).mpr hj
  have key : ∀ i, s.phase i ≠ .idle → j ≠ i := by
    intro i hne hc; subst hc; exact hne hidle
  cases hs with
  | claimExec i hi hp hst =>
    have : j ≠ i := by
      intro hc; subst hc
      rcases hst with h' | h' <;> rw [h'] at hfin <;> cases hfin
    exact ⟨rfl, by simp [updF, this], hj⟩
  | execReadMv i l k reads blocked j' e hp hr => exact ⟨rfl, rfl, hj⟩
  | execReadMiss i l k reads blocked hp hr => exact ⟨rfl, rfl, hj⟩
  | execFetch i l k reads blocked hp => exact ⟨rfl, rfl, hj⟩
  | execFinishOk i w o reads blocked hp => exact ⟨rfl, rfl, hj⟩
  | execFinishErr i e reads blocked hp => exact ⟨rfl, rfl, hj⟩
  | publishOne i run l todo newLoc v hp hl hv => exact ⟨rfl, rfl, hj⟩
  | endPublish i run newLoc hp => exact ⟨rfl, rfl, hj⟩
  | removeOne i run l todo newLoc hp hl => exact ⟨rfl, rfl, hj⟩
  | recordBlocked i run newLoc hp hb =>
    have := key i (by rw [hp]; simp)
    exact ⟨by simp [setPhase, updF, this], rfl, hj⟩
  | recordRewind i run newLoc handoff hp hb hn =>
    have := key i (by rw [hp]; simp)
    exact ⟨by simp [setPhase, updF, this], rfl, hj⟩
  | recordDirect i run hp hb =>
    have := key i (by rw [hp]; simp)
    exact ⟨by simp [updF, this], by simp [updF, this], hj⟩
  | markErrSome i e ow l todo en hp hl hm => exact ⟨rfl, rfl, hj⟩
  | markErrNone i e ow l todo hp hl hm => exact ⟨rfl, rfl, hj⟩
  | markValSome i l todo en hp hl hm => exact ⟨rfl, rfl, hj⟩
  | markValNone i l todo hp hl hm => exact ⟨rfl, rfl, hj⟩
  | endErrMark i e ow hp =>
    have := key i (by rw [hp]; simp)
    exact ⟨by simp [updF, this], rfl, hj⟩
  | tailTs i k st hp hk => exact ⟨rfl, rfl, hj⟩
  | tailSkip i k st hp hk =>
    have := key i (by rw [hp]; simp)
    exact ⟨rfl, by simp [updF, this], hj⟩
  | tailLts i k ts st hp =>
    have := key i (by rw [hp]; simp)
    exact ⟨rfl, by simp [updF, this], hj⟩
  | claimVal i hp hst =>
    have : j ≠ i := by
      intro hc; subst hc
      rcases hst with h' | h' <;> rw [h'] at hfin <;> cases hfin
    exact ⟨rfl, by simp [updF, this], hj⟩
  | valTs i r hp hr => exact ⟨rfl, rfl, hj⟩
  | valCheck i ts done r todo conflict k hp hk => exact ⟨rfl, rfl, hj⟩
  | endScanConflict i ts done hp => exact ⟨rfl, rfl, hj⟩
  | endScanOk i ts done hp =>
    have := key i (by rw [hp]; simp)
    exact ⟨rfl, by simp [updF, this], hj⟩
  | endValMark i hp => exact ⟨rfl, rfl, hj⟩
  | finalize hi hp hst hg =>
    have : j ≠ s.fin := by omega
    exact ⟨rfl, by simp [updF, this], by show j < s.fin + 1; omega⟩
  | commit r hc hr => exact ⟨rfl, rfl, hj⟩

/-- The commit cursor never moves backwards. -/
theorem step_com_mono {P : Params} {s s' : State} (hs : Step P s s') : s.com ≤ s'.com := by
  cases hs with
  | commit r hc hr => exact Nat.le_succ _
  | _ => exact Nat.le_refl _

end Grevm.Sched
