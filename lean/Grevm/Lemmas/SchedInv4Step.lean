/- Preservation of I1' (invariant group 4) by every transition. -/
import Grevm.Lemmas.SchedInv4

namespace Grevm.Sched

open Grevm.Block

/-- The common case: MV memory, lts and the readers' data are untouched. -/
theorem inv4_quiet {P : Params} {s s' : State} (a : TxId) (h1 : Inv1 P s) (h : Inv4 s)
    (hmv : s'.mv = s.mv) (hlts : s'.lts = s.lts)
    (hother : ∀ i, i ≠ a → s'.phase i = s.phase i ∧ s'.status i = s.status i ∧
      s'.result i = s.result i ∧ s'.uts i = s.uts i)
    (hop : OwesPres s s' a) (hself : TxInv4 s' a) : Inv4 s' :=
  inv4_of a h1 h hother (fun _ => hop) (fun k => by rw [hlts]; exact Nat.le_refl _)
    (fun _ _ _ _ hall => Or.inl (allok_same hmv hall)) hself

theorem nodup_mid {α : Type} {done todo : List α} {l : α} (h : (done ++ l :: todo).Nodup) :
    l ∉ done := by
  intro hc
  rw [List.nodup_append] at h
  exact h.2.2 l hc l List.mem_cons_self rfl

theorem inv4_step {P : Params} {s s' : State} (h1 : Inv1 P s) (h2 : Inv2 s) (h : Inv4 s)
    (hs : Step P s s') : Inv4 s' := by
  cases hs with
  | claimExec i hi hp hst =>
    refine inv4_quiet i h1 h rfl rfl (fun j hj => by simp [updF, hj]) ⟨?_, ?_⟩ ⟨?_, ?_⟩
    · intro ho; rw [hp] at ho; exact absurd ho (by simp [Owes])
    · intro k ts st hc; rw [hp] at hc; cases hc
    · intro hc; simp at hc
    · intro ts d t hc; simp at hc
  | execReadMv i l k reads blocked j e hp hr =>
    refine inv4_quiet i h1 h rfl rfl (fun j hj => by simp [setPhase, updF, hj]) ⟨?_, ?_⟩ ⟨?_, ?_⟩
    · intro ho; rw [hp] at ho; exact absurd ho (by simp [Owes])
    · intro k ts st hc; rw [hp] at hc; cases hc
    · intro hc; simp [setPhase] at hc
    · intro ts d t hc; simp [setPhase] at hc
  | execReadMiss i l k reads blocked hp hr =>
    refine inv4_quiet i h1 h rfl rfl (fun j hj => by simp [setPhase, updF, hj]) ⟨?_, ?_⟩ ⟨?_, ?_⟩
    · intro ho; rw [hp] at ho; exact absurd ho (by simp [Owes])
    · intro k ts st hc; rw [hp] at hc; cases hc
    · intro hc; simp [setPhase] at hc
    · intro ts d t hc; simp [setPhase] at hc
  | execFetch i l k reads blocked hp =>
    refine inv4_quiet i h1 h rfl rfl (fun j hj => by simp [setPhase, updF, hj]) ⟨?_, ?_⟩ ⟨?_, ?_⟩
    · intro ho; rw [hp] at ho; exact absurd ho (by simp [Owes])
    · intro k ts st hc; rw [hp] at hc; cases hc
    · intro hc; simp [setPhase] at hc
    · intro ts d t hc; simp [setPhase] at hc
  | execFinishOk i w o reads blocked hp =>
    refine inv4_quiet i h1 h rfl rfl (fun j hj => by simp [updF, hj]) ⟨?_, ?_⟩ ⟨?_, ?_⟩
    · intro ho; rw [hp] at ho; exact absurd ho (by simp [Owes])
    · intro k ts st hc; rw [hp] at hc; cases hc
    · intro hc; simp at hc
    · intro ts d t hc; simp at hc
  | execFinishErr i e reads blocked hp =>
    refine inv4_quiet i h1 h rfl rfl (fun j hj => by simp [setPhase, updF, hj]) ⟨?_, ?_⟩ ⟨?_, ?_⟩
    · intro ho; rw [hp] at ho; exact absurd ho (by simp [Owes])
    · intro k ts st hc; rw [hp] at hc; cases hc
    · intro hc; simp [setPhase] at hc
    · intro ts d t hc; simp [setPhase] at hc
  | publishOne i run l todo newLoc v hp hl hv =>
    have hsh := (h2 i).shape; unfold Shape at hsh; rw [hp] at hsh
    obtain ⟨done, _, hdisj, _, hnew, hold⟩ := hsh
    have hnd : l ∉ done := hdisj l hl
    refine inv4_of i h1 h (fun j hj => by simp [updF, hj]) (fun _ => ⟨?_, ?_⟩) (fun _ => Nat.le_refl _) ?_ ⟨?_, ?_⟩
    · intro ho; rw [hp] at ho
      left; simp only [updF_same, Owes] at ho ⊢
      rcases ho with ho | ho
      · exact Or.inl ho
      · right; simp [ho]
    · intro k ts st hc; rw [hp] at hc; cases hc
    · intro r reads t hri hall
      by_cases hri' : r ≤ i
      · left; intro x hx
        show readOk (setMv s.mv l i _) r x = true
        rw [readOk_setMv _ _ _ _ _ _ (Or.inl hri')]; exact hall x hx
      · by_cases hO : run.blocked = true ∨ (newLoc || !decide (l ∈ oldLocs s i)) = true
        · right; right; left
          exact ⟨i, by omega, by simpa [Owes] using hO⟩
        · left
          have hmem : l ∈ oldLocs s i := by
            have : ¬ ((newLoc || !decide (l ∈ oldLocs s i)) = true) := fun hc => hO (Or.inr hc)
            simp at this; exact this.2
          obtain ⟨eold, heold⟩ : ∃ e, s.mv l i = some e := by
            cases hc : s.mv l i with
            | none => exact absurd hmem ((hold l hnd).2 hc)
            | some e => exact ⟨e, rfl⟩
          have hest := ((hold l hnd).1 eold heold).2
          intro x hx
          exact readOk_replace_estimate s.mv l i eold _ heold hest r x (hall x hx)
    · intro hc; simp at hc
    · intro ts d t hc; simp at hc
  | endPublish i run newLoc hp =>
    refine inv4_quiet i h1 h rfl rfl (fun j hj => by simp [setPhase, updF, hj]) ⟨?_, ?_⟩ ⟨?_, ?_⟩
    · intro ho; rw [hp] at ho; left; simpa [setPhase, Owes] using ho
    · intro k ts st hc; rw [hp] at hc; cases hc
    · intro hc; simp [setPhase] at hc
    · intro ts d t hc; simp [setPhase] at hc
  | removeOne i run l todo newLoc hp hl =>
    have hsh := (h2 i).shape; unfold Shape at hsh; rw [hp] at hsh
    obtain ⟨hnew, hold, hdisj⟩ := hsh
    have hlw : l ∉ writeLocs run.writes := hdisj l hl
    refine inv4_of i h1 h (fun j hj => by simp [updF, hj]) (fun _ => ⟨?_, ?_⟩) (fun _ => Nat.le_refl _) ?_ ⟨?_, ?_⟩
    · intro ho; rw [hp] at ho; left; simpa [Owes] using ho
    · intro k ts st hc; rw [hp] at hc; cases hc
    · intro r reads t hri hall
      left
      cases hc : s.mv l i with
      | none =>
        intro x hx
        have : setMv s.mv l i none = s.mv := by
          funext l' j'; simp only [setMv]; split
          · rename_i hcc; rw [hcc.1, hcc.2, hc]
          · rfl
        show readOk (setMv s.mv l i none) r x = true
        rw [this]; exact hall x hx
      | some eold =>
        have hest := (hold l hlw eold hc).2
        intro x hx
        exact readOk_replace_estimate s.mv l i eold none hc hest r x (hall x hx)
    · intro hc; simp at hc
    · intro ts d t hc; simp at hc
  | recordBlocked i run newLoc hp hb =>
    refine inv4_quiet i h1 h rfl rfl (fun j hj => by simp [setPhase, updF, hj]) ⟨?_, ?_⟩ ⟨?_, ?_⟩
    · intro _; left; simp [setPhase, Owes]
    · intro k ts st hc; rw [hp] at hc; cases hc
    · intro hc; simp [setPhase] at hc
    · intro ts d t hc; simp [setPhase] at hc
  | recordRewind i run newLoc handoff hp hb hn =>
    refine inv4_quiet i h1 h rfl rfl (fun j hj => by simp [setPhase, updF, hj]) ⟨?_, ?_⟩ ⟨?_, ?_⟩
    · intro _; left; simp [setPhase, Owes]
    · intro k ts st hc; rw [hp] at hc; cases hc
    · intro hc; simp [setPhase] at hc
    · intro ts d t hc; simp [setPhase] at hc
  | recordDirect i run hp hb =>
    refine inv4_quiet i h1 h rfl rfl (fun j hj => by simp [updF, hj]) ⟨?_, ?_⟩ ⟨?_, ?_⟩
    · intro ho; rw [hp] at ho; simp [Owes, hb] at ho
    · intro k ts st hc; rw [hp] at hc; cases hc
    · intro hc; simp at hc
    · intro ts d t hc; simp at hc
  | markErrSome i e ow l todo en hp hl hm =>
    refine inv4_of i h1 h (fun j hj => by simp [updF, hj]) (fun _ => ⟨?_, ?_⟩) (fun _ => Nat.le_refl _) ?_ ⟨?_, ?_⟩
    · intro _; left; simp [Owes]
    · intro k ts st hc; rw [hp] at hc; cases hc
    · intro r reads t hri hall
      by_cases hri' : r ≤ i
      · left; intro x hx
        show readOk (setMv s.mv l i _) r x = true
        rw [readOk_setMv _ _ _ _ _ _ (Or.inl hri')]; exact hall x hx
      · right; right; left; exact ⟨i, by omega, by simp [Owes]⟩
    · intro hc; simp at hc
    · intro ts d t hc; simp at hc
  | markErrNone i e ow l todo hp hl hm =>
    refine inv4_quiet i h1 h rfl rfl (fun j hj => by simp [setPhase, updF, hj]) ⟨?_, ?_⟩ ⟨?_, ?_⟩
    · intro _; left; simp [setPhase, Owes]
    · intro k ts st hc; rw [hp] at hc; cases hc
    · intro hc; simp [setPhase] at hc
    · intro ts d t hc; simp [setPhase] at hc
  | markValSome i l todo en hp hl hm =>
    refine inv4_of i h1 h (fun j hj => by simp [updF, hj]) (fun _ => ⟨?_, ?_⟩) (fun _ => Nat.le_refl _) ?_ ⟨?_, ?_⟩
    · intro _; left; simp [Owes]
    · intro k ts st hc; rw [hp] at hc; cases hc
    · intro r reads t hri hall
      by_cases hri' : r ≤ i
      · left; intro x hx
        show readOk (setMv s.mv l i _) r x = true
        rw [readOk_setMv _ _ _ _ _ _ (Or.inl hri')]; exact hall x hx
      · right; right; left; exact ⟨i, by omega, by simp [Owes]⟩
    · intro hc; simp at hc
    · intro ts d t hc; simp at hc
  | markValNone i l todo hp hl hm =>
    refine inv4_quiet i h1 h rfl rfl (fun j hj => by simp [setPhase, updF, hj]) ⟨?_, ?_⟩ ⟨?_, ?_⟩
    · intro _; left; simp [setPhase, Owes]
    · intro k ts st hc; rw [hp] at hc; cases hc
    · intro hc; simp [setPhase] at hc
    · intro ts d t hc; simp [setPhase] at hc
  | endErrMark i e ow hp =>
    refine inv4_quiet i h1 h rfl rfl (fun j hj => by simp [updF, hj]) ⟨?_, ?_⟩ ⟨?_, ?_⟩
    · intro _; left; simp [Owes]
    · intro k ts st hc; rw [hp] at hc; cases hc
    · intro hc; simp at hc
    · intro ts d t hc; simp at hc
  | tailSkip i k st hp hk =>
    have htt := h1.tail_target i; rw [hp] at htt; simp only [TailTarget] at htt
    have hps := h1.st_phase i; rw [hp] at hps; simp only [PhaseStatus] at hps
    have hin : i < P.n := h1.active_lt i (by rcases hps.1 with h' | h' <;> rw [h'] <;> simp)
    refine inv4_of i h1 h (fun j hj => by simp [updF, hj]) ?_ (fun _ => Nat.le_refl _)
      (fun _ _ _ _ hall => Or.inl (allok_same rfl hall)) ⟨?_, ?_⟩
    · rintro ⟨r, har, hrn⟩
      exfalso
      rcases htt with h' | h' <;> omega
    · intro _ hst
      simp only [updF_same] at hst
      rcases hps.2 with h' | h' <;> rw [h'] at hst <;> cases hst
    · intro ts' d t hc; simp at hc
  | tailTs i k st hp hk =>
    refine inv4_quiet i h1 h rfl rfl (fun j hj => by simp [updF, hj]) ⟨?_, ?_⟩ ⟨?_, ?_⟩
    · intro _; right; exact ⟨k, st, by simp⟩
    · intro k' ts st' hc; rw [hp] at hc; cases hc
    · intro hc; simp at hc
    · intro ts d t hc; simp at hc
  | tailLts i k ts st hp =>
    have htt := h1.tail_target i; rw [hp] at htt; simp only [TailTarget] at htt
    have hps := h1.st_phase i; rw [hp] at hps; simp only [PhaseStatus] at hps
    refine inv4_of i h1 h (fun j hj => by simp [updF, hj]) (fun _ => ⟨?_, ?_⟩) ?_
      (fun _ _ _ _ hall => Or.inl (allok_same rfl hall)) ⟨?_, ?_⟩
    · intro ho; rw [hp] at ho; exact absurd ho (by simp [Owes])
    · intro k' ts' st' hc
      rw [hp] at hc; cases hc
      right
      refine ⟨?_, htt⟩
      show ts ≤ updF s.lts k (max (s.lts k) ts) k
      simp only [updF_same]; omega
    · intro k'
      show s.lts k' ≤ updF s.lts k (max (s.lts k) ts) k'
      by_cases hk : k' = k
      · subst hk; simp only [updF_same]; omega
      · rw [updF_ne _ _ _ _ hk]; exact Nat.le_refl _
    · intro _ hst
      simp only [updF_same] at hst
      rcases hps.2 with h' | h' <;> rw [h'] at hst <;> cases hst
    · intro ts' d t hc; simp at hc
  | claimVal i hp hst =>
    refine inv4_quiet i h1 h rfl rfl (fun j hj => by simp [updF, hj]) ⟨?_, ?_⟩ ⟨?_, ?_⟩
    · intro ho; rw [hp] at ho; exact absurd ho (by simp [Owes])
    · intro k ts st hc; rw [hp] at hc; cases hc
    · intro hc; simp at hc
    · intro ts d t hc; simp at hc
  | valTs i r hp hr =>
    refine inv4_quiet i h1 h rfl rfl (fun j hj => by simp [updF, hj]) ⟨?_, ?_⟩ ⟨?_, ?_⟩
    · intro ho; rw [hp] at ho; exact absurd ho (by simp [Owes])
    · intro k ts st hc; rw [hp] at hc; cases hc
    · intro hc; simp at hc
    · intro ts d t hc
      simp only [updF_same] at hc
      injection hc with h1' h2' h3' h4'
      subst h2'
      left; intro x hx; simp at hx
  | valCheck i ts done r todo conflict k hp hk =>
    refine inv4_quiet i h1 h rfl rfl (fun j hj => by simp [setPhase, updF, hj]) ⟨?_, ?_⟩ ⟨?_, ?_⟩
    · intro ho; rw [hp] at ho; exact absurd ho (by simp [Owes])
    · intro k ts' st hc; rw [hp] at hc; cases hc
    · intro hc; simp [setPhase] at hc
    · intro ts' d t hc
      simp only [setPhase, updF_same] at hc
      injection hc with e1 e2 e3 e4
      subst e1 e2 e3
      have hcf : conflict = false ∧ readOk s.mv i r = true := by
        cases conflict <;> cases hro : readOk s.mv i r <;> simp_all
      obtain ⟨rfl, hro⟩ := hcf
      rcases (h i).scan ts done todo hp with hall | hj
      · left
        intro x hx
        rcases List.mem_cons.mp hx with rfl | hx
        · exact hro
        · exact hall x hx
      · right
        rcases hj with ⟨k, hk, hlt⟩ | ⟨j, hj, ho⟩ | ⟨j, k, ts'', st, hj, hpj, hlt⟩
        · exact Or.inl ⟨k, hk, hlt⟩
        · refine Or.inr (Or.inl ⟨j, hj, ?_⟩)
          simp only [setPhase]; rw [updF_ne _ _ _ _ (by omega)]; exact ho
        · refine Or.inr (Or.inr ⟨j, k, ts'', st, hj, ?_, hlt⟩)
          simp only [setPhase]; rw [updF_ne _ _ _ _ (by omega)]; exact hpj
  | endScanConflict i ts done hp =>
    refine inv4_quiet i h1 h rfl rfl (fun j hj => by simp [setPhase, updF, hj]) ⟨?_, ?_⟩ ⟨?_, ?_⟩
    · intro ho; rw [hp] at ho; exact absurd ho (by simp [Owes])
    · intro k ts' st hc; rw [hp] at hc; cases hc
    · intro hc; simp [setPhase] at hc
    · intro ts' d t hc; simp [setPhase] at hc
  | endScanOk i ts done hp =>
    have hsh := (h2 i).shape; unfold Shape at hsh; rw [hp] at hsh
    obtain ⟨r', hr', _, _, hrd⟩ := hsh
    have hck := h1.clk_phase i; rw [hp] at hck; simp only [PhaseClock] at hck
    refine inv4_of i h1 h (fun j hj => by simp [updF, hj]) (fun _ => ⟨?_, ?_⟩) (fun _ => Nat.le_refl _)
      (fun _ _ _ _ hall => Or.inl (allok_same rfl hall)) ⟨?_, ?_⟩
    · intro ho; rw [hp] at ho; exact absurd ho (by simp [Owes])
    · intro k ts' st hc; rw [hp] at hc; cases hc
    · intro _ _ r hr
      simp only [] at hr
      rw [hr'] at hr; cases hr
      have huts : updF s.uts i (max (s.uts i) ts) i = ts := by
        simp only [updF_same]; omega
      show AllOk _ i r'.reads ∨ Justified _ i (updF s.uts i (max (s.uts i) ts) i)
      rw [huts]
      rcases (h i).scan ts done [] hp with hall | hj
      · left
        intro x hx
        have := (hrd x).mp hx
        simp at this
        exact hall x this
      · right
        rcases hj with ⟨k, hk, hlt⟩ | ⟨j, hj, ho⟩ | ⟨j, k, ts'', st, hj, hpj, hlt⟩
        · exact Or.inl ⟨k, hk, hlt⟩
        · refine Or.inr (Or.inl ⟨j, hj, ?_⟩)
          show Owes (updF s.phase i .idle j)
          rw [updF_ne _ _ _ _ (by omega)]; exact ho
        · refine Or.inr (Or.inr ⟨j, k, ts'', st, hj, ?_, hlt⟩)
          show updF s.phase i .idle j = _
          rw [updF_ne _ _ _ _ (by omega)]; exact hpj
    · intro ts' d t hc; simp at hc
  | endValMark i hp =>
    refine inv4_quiet i h1 h rfl rfl (fun j hj => by simp [setPhase, updF, hj]) ⟨?_, ?_⟩ ⟨?_, ?_⟩
    · intro _; left; simp [setPhase, Owes]
    · intro k ts st hc; rw [hp] at hc; cases hc
    · intro hc; simp [setPhase] at hc
    · intro ts d t hc; simp [setPhase] at hc
  | finalize hi hp hst hg =>
    refine inv4_quiet s.fin h1 h rfl rfl (fun j hj => by simp [updF, hj]) ⟨?_, ?_⟩ ⟨?_, ?_⟩
    · intro ho; exact Or.inl ho
    · intro k ts st hc; exact Or.inl hc
    · intro _ hc; simp at hc
    · intro ts d t hc
      have : s.phase s.fin = .valScan ts d t false := hc
      rw [hp] at this; cases this
  | commit r hc hr =>
    refine inv4_quiet s.com h1 h rfl rfl (fun j _ => ⟨rfl, rfl, rfl, rfl⟩) ⟨?_, ?_⟩ ⟨?_, ?_⟩
    · intro ho; exact Or.inl ho
    · intro k ts st hc'; exact Or.inl hc'
    · intro hp hst r' hr'
      rcases (h s.com).unconf hp hst r' hr' with hall | hj
      · exact Or.inl hall
      · exact Or.inr hj
    · intro ts d t hp'
      exact (h s.com).scan ts d t hp'

end Grevm.Sched
