/- Invariant group 4 of the pipeline model — the crux (I1'): for every transaction that is
   Unconfirmed (or whose validation scan is in progress without a conflict so far), either every
   recorded read still resolves to the same, non-estimate version, or a rewind covering the
   transaction is published with a newer timestamp, or is owed by a worker that has not yet
   fetched its timestamp, or has fetched a newer one and is about to publish it. -/
import Grevm.Lemmas.SchedInv3

namespace Grevm.Sched

open Grevm.Block

/-- The worker in this phase is committed to a validation rewind whose timestamp it has not
    fetched yet. -/
def Owes : Phase → Prop
  | .publishing run _ newLoc => run.blocked = true ∨ newLoc = true
  | .removing run _ newLoc => run.blocked = true ∨ newLoc = true
  | .errMark _ _ _ => True
  | .valMark _ => True
  | .tailPreTs _ _ => True
  | _ => False

def Justified (s : State) (i t : Nat) : Prop :=
  (∃ k, k ≤ i ∧ t < s.lts k) ∨ (∃ j, j < i ∧ Owes (s.phase j)) ∨
  (∃ j k ts st, j < i ∧ s.phase j = .tailLts k ts st ∧ t < ts)

def AllOk (s : State) (i : TxId) (reads : List ReadRec) : Prop :=
  ∀ r ∈ reads, readOk s.mv i r = true

structure TxInv4 (s : State) (i : TxId) : Prop where
  unconf : s.phase i = .idle → s.status i = .unconfirmed → ∀ r, s.result i = some r →
    AllOk s i r.reads ∨ Justified s i (s.uts i)
  scan : ∀ ts done todo, s.phase i = .valScan ts done todo false →
    AllOk s i done ∨ Justified s i ts

def Inv4 (s : State) : Prop := ∀ i, TxInv4 s i

theorem inv4_init : Inv4 init := by
  intro i
  refine ⟨?_, ?_⟩
  · intro _ h; simp [init] at h
  · intro ts d t h; simp [init] at h

/-- How the stepping transaction `a` may move without losing a rewind it owes. -/
def OwesPres (s s' : State) (a : TxId) : Prop :=
  (Owes (s.phase a) → Owes (s'.phase a) ∨ ∃ k st, s'.phase a = .tailLts k s.clock st) ∧
  (∀ k ts st, s.phase a = .tailLts k ts st →
    s'.phase a = .tailLts k ts st ∨ (ts ≤ s'.lts k ∧ (k = a ∨ k = a + 1)))

theorem just_pres {s s' : State} {a : TxId} {i t : Nat} (hop : a < i → OwesPres s s' a)
    (hph : ∀ j, j ≠ a → s'.phase j = s.phase j) (hlts : ∀ k, s.lts k ≤ s'.lts k)
    (hia : i ≠ a) (ht : t < s.clock) (h : Justified s i t) : Justified s' i t := by
  rcases h with ⟨k, hk, hlt⟩ | ⟨j, hj, ho⟩ | ⟨j, k, ts, st, hj, hp, hlt⟩
  · exact Or.inl ⟨k, hk, Nat.lt_of_lt_of_le hlt (hlts k)⟩
  · by_cases hja : j = a
    · subst hja
      rcases (hop hj).1 ho with ho' | ⟨k, st, hp'⟩
      · exact Or.inr (Or.inl ⟨j, hj, ho'⟩)
      · exact Or.inr (Or.inr ⟨j, k, s.clock, st, hj, hp', ht⟩)
    · exact Or.inr (Or.inl ⟨j, hj, by rw [hph j hja]; exact ho⟩)
  · by_cases hja : j = a
    · subst hja
      rcases (hop hj).2 k ts st hp with hp' | ⟨hle, hk⟩
      · exact Or.inr (Or.inr ⟨j, k, ts, st, hj, hp', hlt⟩)
      · refine Or.inl ⟨k, ?_, Nat.lt_of_lt_of_le hlt hle⟩
        rcases hk with hk | hk <;> omega
    · exact Or.inr (Or.inr ⟨j, k, ts, st, hj, by rw [hph j hja]; exact hp, hlt⟩)

/-- Generic re-establishment of I1' after a step of transaction `a`. -/
theorem inv4_of {P : Params} {s s' : State} (a : TxId) (h1 : Inv1 P s) (h : Inv4 s)
    (hother : ∀ i, i ≠ a → s'.phase i = s.phase i ∧ s'.status i = s.status i ∧
      s'.result i = s.result i ∧ s'.uts i = s.uts i)
    (hop : (∃ i, a < i ∧ i < P.n) → OwesPres s s' a) (hlts : ∀ k, s.lts k ≤ s'.lts k)
    (hok : ∀ i reads t, i ≠ a → AllOk s i reads → AllOk s' i reads ∨ Justified s' i t)
    (hself : TxInv4 s' a) : Inv4 s' := by
  intro i
  by_cases hia : i = a
  · subst hia; exact hself
  · obtain ⟨e1, e2, e3, e4⟩ := hother i hia
    have hph : ∀ j, j ≠ a → s'.phase j = s.phase j := fun j hj => (hother j hj).1
    refine ⟨?_, ?_⟩
    · intro hp hst r hr
      rw [e1] at hp; rw [e2] at hst; rw [e3] at hr; rw [e4]
      have hin : i < P.n := h1.active_lt i (by rw [hst]; simp)
      rcases (h i).unconf hp hst r hr with hall | hj
      · exact hok i r.reads (s.uts i) hia hall
      · exact Or.inr (just_pres (fun hai => hop ⟨i, hai, hin⟩) hph hlts hia (h1.clk_uts i) hj)
    · intro ts done todo hp
      rw [e1] at hp
      have hck := h1.clk_phase i; rw [hp] at hck
      have hin : i < P.n := h1.active_lt i (by
        have := h1.st_phase i; rw [hp] at this; simp only [PhaseStatus] at this; rw [this]; simp)
      rcases (h i).scan ts done todo hp with hall | hj
      · exact hok i done ts hia hall
      · exact Or.inr (just_pres (fun hai => hop ⟨i, hai, hin⟩) hph hlts hia hck.1 hj)

/-- A step that does not touch MV memory keeps every `AllOk`. -/
theorem allok_same {s s' : State} (hmv : s'.mv = s.mv) {i : TxId} {reads : List ReadRec}
    (h : AllOk s i reads) : AllOk s' i reads := by
  intro r hr; rw [hmv]; exact h r hr

/-- A change of column `a` is invisible to readers `i ≤ a` and to reads of other locations. -/
theorem readOk_setMv (mv : Loc → TxId → Option Entry) (l : Loc) (a : TxId) (e : Option Entry)
    (i : TxId) (r : ReadRec) (h : i ≤ a ∨ r.loc ≠ l) :
    readOk (setMv mv l a e) i r = readOk mv i r := by
  unfold readOk
  rcases h with h | h
  · rw [resolve_setMv_ge mv r.loc l i a e h]
  · rw [resolve_setMv_loc mv r.loc l i a e h]

/-- Replacing or removing an ESTIMATE entry of `a` at `l` cannot turn a passing read check of a
    later reader into a failing one: a read that passes does not resolve to an estimate. -/
theorem readOk_replace_estimate (mv : Loc → TxId → Option Entry) (l : Loc) (a : TxId)
    (eold : Entry) (enew : Option Entry) (hold : mv l a = some eold) (hest : eold.est = true)
    (i : TxId) (r : ReadRec) (hok : readOk mv i r = true) : readOk (setMv mv l a enew) i r = true := by
  by_cases hcase : i ≤ a ∨ r.loc ≠ l
  · rw [readOk_setMv mv l a enew i r hcase]; exact hok
  · have hai : a < i := by omega
    have hloc : r.loc = l := by
      by_cases hl : r.loc = l
      · exact hl
      · exact absurd (Or.inr hl) hcase
    unfold readOk at hok ⊢
    cases hres : resolve mv i r.loc with
    | none =>
      have := resolve_none hres a hai
      rw [hloc, hold] at this; cases this
    | some p =>
      obtain ⟨k, e⟩ := p
      obtain ⟨hk, hmk, hnone⟩ := resolve_some hres
      rw [hres] at hok
      have hka : k ≠ a := by
        intro hc; subst hc
        rw [hloc, hold] at hmk; cases hmk
        simp [hest] at hok
      have hgt : a < k := by
        by_cases hlt : k < a
        · have := hnone a hlt hai
          rw [hloc, hold] at this; cases this
        · omega
      have : resolve (setMv mv l a enew) i r.loc = some (k, e) := by
        apply resolve_intro hk
        · rw [setMv_ne_tx _ _ _ _ _ _ hka]; exact hmk
        · intro k' h1 h2
          rw [setMv_ne_tx _ _ _ _ _ _ (by omega)]; exact hnone k' h1 h2
      rw [this]; exact hok

end Grevm.Sched
