/- Invariant group 2 of the pipeline model: the shape of every transaction's column of MV memory
   in every phase ("Conflict ⇒ all entries are estimates", "Executed/Unconfirmed ⇒ entries are exactly
   the result's writes"), entry identity (an entry's value is the value its incarnation wrote) and
   the ghost incarnation history. -/
import Grevm.Lemmas.SchedInv1

namespace Grevm.Sched

open Grevm.Block

def OkRes (r : Result) : Prop := ∃ o, r.out = .ok r.writes o

def NewEntry (inc : Nat) (w : List (Loc × Val)) (est : Bool) (l : Loc) (e : Entry) : Prop :=
  e.inc = inc ∧ lookup w l = some e.val ∧ e.est = est

/-- The column holds exactly the writes of `r`, none of them an estimate. -/
def Clean (col : Loc → Option Entry) (r : Result) : Prop :=
  (∀ l e, col l = some e → l ∈ r.locs ∧ NewEntry r.inc r.writes false l e) ∧
  (∀ l, col l = none → l ∉ r.locs)

/-- The column holds entries exactly at `locs`, all of them estimates. -/
def Dirty (col : Loc → Option Entry) (locs : List Loc) : Prop :=
  (∀ l e, col l = some e → l ∈ locs ∧ e.est = true) ∧ (∀ l, col l = none → l ∉ locs)

def Shape (s : State) (j : TxId) : Prop :=
  match s.phase j with
  | .idle =>
      match s.status j with
      | .initial => s.result j = none ∧ ∀ l, s.mv l j = none
      | .conflict => ∃ r, s.result j = some r ∧ Dirty (fun l => s.mv l j) r.locs
      | _ => ∃ r, s.result j = some r ∧ OkRes r ∧ Clean (fun l => s.mv l j) r
  | .reading _ _ _ => Dirty (fun l => s.mv l j) (oldLocs s j)
  | .fetching _ _ _ _ => Dirty (fun l => s.mv l j) (oldLocs s j)
  | .publishing run todo _ => ∃ done : List Loc,
      (∀ l, l ∈ writeLocs run.writes ↔ l ∈ done ∨ l ∈ todo) ∧ (∀ l, l ∈ todo → l ∉ done) ∧
      todo.Nodup ∧
      (∀ l, l ∈ done → ∃ e, s.mv l j = some e ∧ NewEntry (s.inc j) run.writes run.blocked l e) ∧
      (∀ l, l ∉ done → (∀ e, s.mv l j = some e → l ∈ oldLocs s j ∧ e.est = true) ∧
                        (s.mv l j = none → l ∉ oldLocs s j))
  | .removing run todo _ =>
      (∀ l, l ∈ writeLocs run.writes →
        ∃ e, s.mv l j = some e ∧ NewEntry (s.inc j) run.writes run.blocked l e) ∧
      (∀ l, l ∉ writeLocs run.writes → ∀ e, s.mv l j = some e → l ∈ todo ∧ e.est = true) ∧
      (∀ l, l ∈ todo → l ∉ writeLocs run.writes)
  | .errMark _ ow _ => ow = oldWrites s j ∧ Dirty (fun l => s.mv l j) (oldLocs s j)
  | .valPreTs => ∃ r, s.result j = some r ∧ OkRes r ∧ Clean (fun l => s.mv l j) r
  | .valScan _ done todo _ =>
      ∃ r, s.result j = some r ∧ OkRes r ∧ Clean (fun l => s.mv l j) r ∧
        ∀ x, x ∈ r.reads ↔ x ∈ done ∨ x ∈ todo
  | .valMark todo => ∃ r, s.result j = some r ∧
      (∀ l e, s.mv l j = some e → l ∈ r.locs ∧ (l ∉ todo → e.est = true)) ∧
      (∀ l, s.mv l j = none → l ∉ r.locs)
  | .tailPreTs _ st => ∃ r, s.result j = some r ∧
      (st = .executed → OkRes r ∧ Clean (fun l => s.mv l j) r) ∧
      (st = .conflict → Dirty (fun l => s.mv l j) r.locs)
  | .tailLts _ _ st => ∃ r, s.result j = some r ∧
      (st = .executed → OkRes r ∧ Clean (fun l => s.mv l j) r) ∧
      (st = .conflict → Dirty (fun l => s.mv l j) r.locs)

/-- Entry identity: the value of an entry is what its incarnation wrote to that location. -/
def EntryId (s : State) (j : TxId) : Prop :=
  ∀ l e, s.mv l j = some e → ∃ w, s.hist j e.inc = some w ∧ lookup w l = some e.val

def HistPhase (s : State) (j : TxId) : Prop :=
  match s.phase j with
  | .reading _ _ _ => s.hist j (s.inc j) = none
  | .fetching _ _ _ _ => s.hist j (s.inc j) = none
  | .publishing run _ _ => s.hist j (s.inc j) = some run.writes
  | .removing run _ _ => s.hist j (s.inc j) = some run.writes
  | _ => True

structure HistOk (s : State) (j : TxId) : Prop where
  le_inc : ∀ m w, s.hist j m = some w → m ≤ s.inc j
  res : ∀ r, s.result j = some r → r.inc ≤ s.inc j ∧ (OkRes r → s.hist j r.inc = some r.writes)
  phase : HistPhase s j

structure TxInv2 (s : State) (j : TxId) : Prop where
  shape : Shape s j
  entry : EntryId s j
  hist : HistOk s j

def Inv2 (s : State) : Prop := ∀ j, TxInv2 s j

theorem oldLocs_eq (s : State) (j : TxId) : oldLocs s j = writeLocs (oldWrites s j) := by
  simp only [oldLocs, oldWrites]
  split
  · rfl
  · simp [writeLocs]

/-- Frame: a transaction whose own column and fields are untouched keeps its invariant. -/
theorem TxInv2.frame {s s' : State} {j : TxId} (h : TxInv2 s j)
    (hmv : ∀ l, s'.mv l j = s.mv l j) (hph : s'.phase j = s.phase j)
    (hres : s'.result j = s.result j) (hinc : s'.inc j = s.inc j) (hh : s'.hist j = s.hist j)
    (hst : s.phase j = .idle → (s'.status j = s.status j ∨
      (s.status j = .unconfirmed ∧ s'.status j = .finality))) :
    TxInv2 s' j := by
  have hcol : (fun l => s'.mv l j) = (fun l => s.mv l j) := funext hmv
  have hold : oldLocs s' j = oldLocs s j := by simp [oldLocs, hres]
  have holdw : oldWrites s' j = oldWrites s j := by simp [oldWrites, hres]
  refine ⟨?_, ?_, ?_⟩
  · have hs := h.shape
    unfold Shape at hs ⊢
    rw [hph]
    cases hp : s.phase j with
    | idle =>
      rw [hp] at hs
      simp only [] at hs ⊢
      rcases hst hp with heq | ⟨h1, h2⟩
      · rw [heq, hres, hcol]
        simpa [hmv] using hs
      · rw [h1] at hs; rw [h2]
        simp only [] at hs ⊢
        rw [hres, hcol]; exact hs
    | reading a b c => rw [hp] at hs; simp only [] at hs ⊢; rw [hcol, hold]; exact hs
    | fetching a b c d => rw [hp] at hs; simp only [] at hs ⊢; rw [hcol, hold]; exact hs
    | publishing run todo nl =>
      rw [hp] at hs; simp only [] at hs ⊢
      simp only [hmv, hinc, hold]; exact hs
    | removing run todo nl =>
      rw [hp] at hs; simp only [] at hs ⊢
      simp only [hmv, hinc]; exact hs
    | errMark e ow todo => rw [hp] at hs; simp only [] at hs ⊢; rw [hcol, hold, holdw]; exact hs
    | valPreTs => rw [hp] at hs; simp only [] at hs ⊢; rw [hres, hcol]; exact hs
    | valScan ts d t c => rw [hp] at hs; simp only [] at hs ⊢; rw [hres, hcol]; exact hs
    | valMark todo => rw [hp] at hs; simp only [] at hs ⊢; simp only [hmv, hres]; exact hs
    | tailPreTs k st => rw [hp] at hs; simp only [] at hs ⊢; rw [hres, hcol]; exact hs
    | tailLts k ts st => rw [hp] at hs; simp only [] at hs ⊢; rw [hres, hcol]; exact hs
  · intro l e he
    rw [hmv] at he
    rw [hh]
    exact h.entry l e he
  · refine ⟨?_, ?_, ?_⟩
    · intro m w hm; rw [hh] at hm; rw [hinc]; exact h.hist.le_inc m w hm
    · intro r hr; rw [hres] at hr; rw [hinc, hh]; exact h.hist.res r hr
    · have := h.hist.phase
      unfold HistPhase at this ⊢
      rw [hph, hinc, hh]; exact this

end Grevm.Sched
