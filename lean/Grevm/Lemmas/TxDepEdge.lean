/-
edge_covered: every forward edge `dependency[x] = some d` (d ≠ x) has its reverse edge
`x ∈ affect[d]`, in every reachable state.
-/
import Grevm.Lemmas.TxDepInv

namespace Grevm.TxDep

/-- `(d, seen)` of a thread inside the iteration of `remove(d)`. -/
def rmOf : Pc → Option (Nat × List Nat)
  | .rmIter d _ seen _ => some (d, seen)
  | .rmMin d _ seen _ _ => some (d, seen)
  | _ => none

theorem rmOf_holdsAff {p : Pc} {d : Nat} {seen : List Nat} (h : rmOf p = some (d, seen)) :
    HoldsAff p d := by
  cases p <;> simp_all [rmOf, HoldsAff]

theorem entry_rmOf {n : Nat} {p : Pc} (h : IsEntry n p) : rmOf p = none := by
  cases p <;> simp_all [IsEntry, rmOf]

theorem mem_insertIfNew {x y : Nat} {l : List Nat} :
    y ∈ (if l.contains x then l else x :: l) ↔ y = x ∨ y ∈ l := by
  split
  · rename_i h
    have : x ∈ l := by simpa using h
    constructor
    · exact Or.inr
    · rintro (rfl | h') <;> assumption
  · simp

/-- forward edges are covered by reverse edges -/
def EdgeCov (s : State) : Prop :=
  ∀ x d, s.dependency x = some d → d ≠ x → x ∈ s.affect d

/-- elements already processed by a running `remove(d)` no longer name `d` -/
def SeenClear (s : State) : Prop :=
  ∀ u d seen, rmOf (s.pc u) = some (d, seen) → ∀ x ∈ seen, s.dependency x = some d → x = d

def EdgeInv (s : State) : Prop := LockInv s ∧ EdgeCov s ∧ SeenClear s

theorem edgeInv_init (n : Nat) : EdgeInv (init n) := by
  refine ⟨lockInv_init n, ?_, ?_⟩
  · intro x d h; simp [init] at h
  · intro u d seen h; simp [init, rmOf] at h

theorem edgeInv_step {s s' : State} {t : Tid} {pick : Nat} {r : Ret} (hinv : EdgeInv s)
    (h : Step s t pick s' r) : EdgeInv s' := by
  obtain ⟨hl, e1, e2⟩ := hinv
  refine ⟨lockInv_step hl h, ?_, ?_⟩
  · -- EdgeCov
    have e2t := e2 t
    cases h
    case call p hpc he => exact e1
    all_goals try (rename_i hrc; cases hrc)
    all_goals
      have hpc := (by assumption : s.pc t = _)
      rw [hpc] at e2t
      intro x d'
      have e1x := e1 x d'
      simp only [setPc, upd, rmOf] at e2t ⊢
      first
        | exact e1x
        | grind [keyDep]
  · -- SeenClear
    obtain ⟨hd, ha⟩ := hl
    have e2t := e2 t
    cases h
    case call p hpc he =>
      intro u d seen hu
      by_cases hut : u = t
      · subst hut; simp [setPc, upd, entry_rmOf he] at hu
      · simp only [setPc, upd, if_neg hut] at hu ⊢; exact e2 u d seen hu
    all_goals try (rename_i hrc; cases hrc)
    all_goals
      have hpc := (by assumption : s.pc t = _)
      rw [hpc] at e2t
      intro u d' seen' hu x hx
      by_cases hut : u = t
      · subst hut
        have e2x := e2t d'
        have e1x := e1 x d'
        simp only [setPc, upd, rmOf, if_true] at e2t hu hx ⊢
        first
          | grind [keyDep]
      · have e2x := e2 u d' seen' (by simpa [setPc, upd, hut] using hu) x hx
        have hau := (ha d' u).2 (rmOf_holdsAff (by simpa [setPc, upd, hut] using hu))
        have hat := fun j => ha j t
        rw [hpc] at hat
        simp only [setPc, upd, HoldsAff] at hat ⊢
        first
          | exact e2x
          | grind [keyDep]

end Grevm.TxDep

namespace Grevm.TxDep

theorem edgeInv_reachable {n : Nat} {s : State} (h : Reachable n s) : EdgeInv s :=
  reachable_invariant EdgeInv n (edgeInv_init n)
    (fun _ _ _ _ hp hs => edgeInv_step hp (step_sound hs)) s h

end Grevm.TxDep
