/-
Sessions for the two small protocols:
* `kernel wait` — the totally ordered hook-event trace of real threads on the real `WaitSlot`
  (one waiter, several producers) replayed through `WaitSlot.step`;
* `once <k>` — the observable results of `k` entry-point calls on one scheduler, checked against
  `RunOnce.step`.
-/
import Grevm.Model.WaitSlot
import Grevm.Model.RunOnce
import Grevm.Model.Guard
import Grevm.Model.Facade
import Grevm.Model.Commit
import Grevm.Driver.Kernel

namespace Grevm.Driver.Small

open Grevm Grevm.Driver

structure WaitSt where
  s : WaitSlot.State := WaitSlot.init
  waiter : Option Nat := none
  /-- the waiter evaluated `blocked()` at a check point and the model moved on: remember what the
      model decided so that the observed value can be compared -/
  expectCond : Option Bool := none

def wStep (st : WaitSt) (what : String) : Except String WaitSt :=
  match WaitSlot.step st.s .wStep with
  | some s' => .ok { st with s := s' }
  | none => .error s!"waiter step `{what}` not enabled in the model (wpc {repr st.s.wpc}, token {st.s.token})"

def waitEvent (st : WaitSt) (ev : Ev) : Except String WaitSt :=
  match ev.site with
  | "start" | "end" | "h_call" | "h_ret" => .ok st
  | "register" =>
      if st.s.wpc != .start then .error "register: waiter already registered in the model"
      else do
        let st ← wStep st "register"
        pure { st with waiter := some ev.tid }
  | "wait_check1" =>
      if st.s.wpc != .check1 then .error s!"wait_check1 but model waiter is at {repr st.s.wpc}"
      else do
        let blocked := !st.s.ready
        let st ← wStep st "check1"
        pure { st with expectCond := some blocked }
  | "wait_check2" =>
      if st.s.wpc != .check2 then .error s!"wait_check2 but model waiter is at {repr st.s.wpc}"
      else do
        let blocked := !st.s.ready
        let st ← wStep st "check2"
        pure { st with expectCond := some blocked }
  | "w_cond" =>
      match st.expectCond, ev.a with
      | some b, some v =>
          if (v != 0) == b then .ok { st with expectCond := none }
          else .error s!"blocked() returned {v} but the model's condition gives {b}"
      | _, _ => .error "w_cond without a pending check"
  | "wait_park" =>
      if st.s.wpc != .park then .error s!"wait_park but model waiter is at {repr st.s.wpc}" else .ok st
  | "park_token" =>
      if !st.s.token then .error "park returned at once but the model has no token" else wStep st "park(token)"
  | "wake" =>
      if !st.s.token then .error "waiter woken but the model has no token" else wStep st "park(wake)"
  | "w_done" =>
      if st.s.wpc != .done then .error s!"waiter left its loop but the model waiter is at {repr st.s.wpc}" else .ok st
  | "p_set" =>
      match ev.a with
      | some v =>
          match WaitSlot.step st.s (.nPublish ev.tid (v != 0)) with
          | some s' => .ok { st with s := s' }
          | none => .error "producer publishes while its previous notify is unfinished"
      | none => .error "p_set without value"
  | "notify" =>
      -- a notify without a preceding publish is a publish of the current value
      let s0 := if st.s.npc ev.tid == .idle then
          (WaitSlot.step st.s (.nPublish ev.tid st.s.ready)).getD st.s else st.s
      match WaitSlot.step s0 (.nStep ev.tid) with
      | some s' => .ok { st with s := s' }
      | none => .error "notify not enabled"
  | "unpark" =>
      if st.s.npc ev.tid != .unparking then .error "unpark although the model read no registered waiter"
      else match WaitSlot.step st.s (.nStep ev.tid) with
        | some s' => .ok { st with s := s' }
        | none => .error "unpark not enabled"
  | other => .error s!"unexpected site {other}"

def replayWait (lines : List String) : String := Id.run do
  let mut st : WaitSt := {}
  let mut idx := 0
  for line in lines do
    let ws := words line
    match ws with
    | "ev" :: _ =>
        match parseEv ws with
        | none => return s!"diverge {idx} unparsable: {line}"
        | some ev =>
            -- a producer that saw the waiter registered must unpark before anything else it does
            match waitEvent st ev with
            | .ok st' => st := st'
            | .error msg => return s!"diverge {idx} {msg} :: {line.trimAscii.toString}"
    | ["final", done, token] =>
        let mDone := if st.s.wpc == .done then "1" else "0"
        if done != mDone then
          return s!"diverge {idx} final: waiter done impl {done} model {mDone}"
        let mTok := if st.s.token then "1" else "0"
        if token != mTok && token != "-" then
          return s!"diverge {idx} final: token impl {token} model {mTok}"
        if (List.range 8).any fun j => st.s.npc j != .idle then
          return s!"diverge {idx} final: a producer is mid-notify in the model"
    | _ => pure ()
    idx := idx + 1
  return s!"ok {idx}"

/-- `once <k>`; lines `r <t> once|ran` in completion order, then `applied <m>`. The model run is
    `call` for everybody, the winner's CAS, the losers' CASes, the winner's body. -/
def replayOnce (k : Nat) (lines : List String) : String := Id.run do
  let mut res : Array (Nat × Bool) := #[]     -- (thread, ran?)
  let mut applied : Option Nat := none
  for line in lines do
    match words line with
    | ["r", t, "ran"] => res := res.push (t.toNat?.getD 0, true)
    | ["r", t, "once"] => res := res.push (t.toNat?.getD 0, false)
    | ["applied", m] => applied := m.toNat?
    | _ => pure ()
  if res.size != k then return s!"diverge 0 expected {k} results, got {res.size}"
  let winners := res.toList.filter (·.2)
  match winners with
  | [(w, _)] =>
      let losers := (res.toList.filter (!·.2)).map (·.1)
      let acts : List RunOnce.Act :=
        (res.toList.map fun p => RunOnce.Act.call p.1) ++ [.cas w] ++ losers.map .cas ++ [.body w]
      match RunOnce.run RunOnce.init acts with
      | none => return "diverge 0 the observed results are not a run of the model"
      | some s =>
          if s.wins != 1 then return s!"diverge 0 model wins {s.wins}"
          if losers.any fun t => s.pc t != .returnedErr then return "diverge 0 a loser did not return the once-error in the model"
          if s.pc w != .returnedOk then return "diverge 0 winner did not finish in the model"
          match applied with
          | some m => if m != s.applied then return s!"diverge 0 block applied {m} times, model {s.applied}"
          | none => pure ()
          return s!"ok {k}"
  | [] => return "diverge 0 no call was elected: every call returned the once-error"
  | ws => return s!"diverge 0 {ws.length} calls were elected (model: exactly one CAS can succeed)"

/-- `guard-table`: the full decision table of `Guard.effective`, one row per input combination:
    `<enabled><prague><static><create2><petersburg><delegated>=<outcome code>`. -/
def guardTable : String := Id.run do
  let bs := [false, true]
  let b2s (b : Bool) : String := if b then "1" else "0"
  let mut out : Array String := #[]
  for e in bs do for p in bs do for s in bs do for c in bs do for pb in bs do for d in bs do
    out := out.push s!"{b2s e}{b2s p}{b2s s}{b2s c}{b2s pb}{b2s d}={(Guard.effective e p s c pb d).code}"
  return " ".intercalate out.toList

/-- `facade`: one line per precompile invocation: `<static 0/1> <op><result><cold><addr> …` with
    op in {0 balance, 1 sload, 2 set_balance, 3 sstore}, result in {0 ok, 1 halt, 2 fatal}, cold in
    {0 warm, 1 cold, 2 not reported} and a one-digit address index, e.g. `1 3120 2120`.  Replayed
    through `Facade.runOps` (no database failures): the kind of every result must be the model's,
    and an account the model says is already loaded in the journal (an earlier successful access
    of the same invocation) must not be reported cold. -/
def replayFacade (lines : List String) : String := Id.run do
  let mut idx := 0
  for line in lines do
    match words line with
    | st :: calls =>
        let mut s : Facade.FState :=
          { j := { bal := fun _ => 1, stor := fun _ _ => 1, loaded := [] }, isStatic := st == "1", fault := none }
        for c in calls do
          match c.toList with
          | [o, r, cold, a] =>
              let addr := a.toNat - '0'.toNat
              let op : Option Facade.Op := match o with
                | '0' => some (.balance addr) | '1' => some (.sload addr 0)
                | '2' => some (.setBalance addr 2) | '3' => some (.sstore addr 0 2) | _ => none
              match op with
              | none => return s!"diverge {idx} unparsable call {c} :: {line.trimAscii.toString}"
              | some op =>
                  let wasLoaded := s.j.loaded.contains addr
                  let (s', res) := Facade.call (fun _ => false) s op
                  let kind := match res with
                    | .ok _ => '0' | .err (.halt _) => '1' | .err (.fatal _) => '2'
                  if kind != r then
                    return s!"diverge {idx} static={st}: call {c} returned kind {r}, model {kind} :: {line.trimAscii.toString}"
                  if wasLoaded && cold == '1' then
                    return s!"diverge {idx} call {c}: the account was already accessed in this invocation (loaded in the journal per the model) but is reported cold — the earlier access did not go through the journal :: {line.trimAscii.toString}"
                  s := s'
          | _ => return s!"diverge {idx} unparsable call {c} :: {line.trimAscii.toString}"
    | [] => pure ()
    idx := idx + 1
  return s!"ok {idx}"

/-- `adapter` session: one line `<static 0/1> <mode>` per case: the implementation performs one
    `sstore` and answers a facade error by mode 0 own fatal, 1 own halt, 2 propagating it, 3 ignoring
    it. Answer: what the adapter reports per the model — `ok`, `halt` or `fatal`. -/
def replayAdapter (lines : List String) : String := Id.run do
  let mut out : Array String := #[]
  for l in lines do
    match (words l).filterMap String.toNat? with
    | [st, mode] =>
        let s0 : Facade.FState :=
          { j := { bal := fun _ => 1, stor := fun _ _ => 1, loaded := [] }, isStatic := st != 0, fault := none }
        let (s1, rs) := Facade.runOps (fun _ => false) s0 [.sstore 1 0 2]
        let failed := rs.any fun r => match r with | .err _ => true | .ok _ => false
        let impl : Facade.Outcome :=
          if !failed then .ok 0
          else match mode with
            | 0 => .fatal 7
            | 1 => .halt 9
            | 2 => (match rs.head? with
                | some (.err (.halt w)) => .halt w
                | some (.err (.fatal w)) => .fatal w
                | _ => .ok 0)
            | _ => .ok 0
        out := out.push (match Facade.adapter s1 impl with
          | .ok _ => "ok" | .halt _ => "halt" | .fatal _ => "fatal")
    | _ => out := out.push "bad-op"
  return ";".intercalate out.toList

/-- `gate` session: one line `<disable 0/1> <txNonce> <stateNonce>` per case; answers
    `<committed|fallback> <reason or ->` from `Commit.nonceGate` / `Commit.nonceInvalid`. -/
def replayGate (lines : List String) : String := Id.run do
  let mut out : Array String := #[]
  for l in lines do
    match (words l).filterMap String.toNat? with
    | [d, t, s] =>
        let g := match Commit.nonceGate (d != 0) t s with
          | .committed => "committed" | .fallback => "fallback"
        let r := match Commit.nonceInvalid (d != 0) t s with
          | some x => toString x | none => "-"
        out := out.push s!"{g} {r}"
    | _ => out := out.push "bad-op"
  return ";".intercalate out.toList

end Grevm.Driver.Small
