/-
Trace-conformance replay for the kernels: the harness runs real threads on the real
`SchedulerContext` / `TxDependency` under the deterministic controller and sends the totally
ordered list of hook events; this driver replays it through the proven step functions of
`Model/Cursor.lean` and `Model/TxDep.lean` and reports the first divergence.
Only the sequencing of component calls inside one API call (the "glue") lives here.
-/
import Grevm.Model.Cursor
import Grevm.Model.TxDep

namespace Grevm.Driver

open Grevm

def words (line : String) : List String :=
  (line.trimAscii.toString.splitOn " ").filter (· ≠ "")

/-- `-` encodes `none` / `usize::MAX`. -/
def argNat (s : String) : Option Nat := if s == "-" then none else s.toNat?

structure Ev where
  tid : Nat
  site : String
  a : Option Nat
  b : Option Nat
  c : Option Nat
  d : Option Nat

def parseEv (ws : List String) : Option Ev :=
  match ws with
  | ["ev", t, site, a, b, c, d] =>
      match t.toNat? with
      | some t => some { tid := t, site := site, a := argNat a, b := argNat b, c := argNat c, d := argNat d }
      | none => none
  | _ => none

/-! ## SchedulerContext -/

/-- What an API call of thread `t` is doing, in terms of component calls. -/
inductive CtxGlue where
  | idle
  | executed (i : Nat)
  | nextValFrontier (e : Nat)
  | nextValClaim (e : Nat)
  | rewindTs (i : Nat)
  | rewindLts (i : Nat) (ts : Nat)
  | rewindCur (i : Nat)
  | timestamp
  | unconfirmed (i ts : Nat)
  | frontier
  /-- call finished with this return value; waiting for `h_ret` -/
  | ret (v : Option Nat)
  deriving Repr, Inhabited

structure CtxState where
  n : Nat
  cur : Cursor.State
  fr : Cursor.Frontier.State
  clock : Nat
  lts : Nat → Nat
  uts : Nat → Nat
  glue : Nat → CtxGlue

def CtxState.init (n : Nat) : CtxState :=
  { n := n, cur := Cursor.init 0, fr := Cursor.Frontier.init n, clock := 1,
    lts := fun _ => 0, uts := fun _ => 0, glue := fun _ => .idle }

def setGlue (s : CtxState) (t : Nat) (g : CtxGlue) : CtxState :=
  { s with glue := fun u => if u = t then g else s.glue u }

def frStep (s : CtxState) (t : Nat) : Except String (CtxState × Cursor.Frontier.Ev) :=
  match Cursor.Frontier.step s.fr (.stepT t) with
  | some (fr', e) => .ok ({ s with fr := fr' }, e)
  | none => .error "frontier step not enabled"

def curStep (s : CtxState) (a : Cursor.Act) : Except String (CtxState × Cursor.Ev) :=
  match Cursor.step s.cur a with
  | some (c', e) => .ok ({ s with cur := c' }, e)
  | none => .error "cursor step not enabled"

/-- After a frontier-model event of thread `t`, advance the glue. -/
def afterFrontierEv (s : CtxState) (t : Nat) (e : Cursor.Frontier.Ev) : Except String CtxState :=
  match e, s.glue t with
  | .tau, _ => .ok s
  | .published _ _, .executed _ => .ok (setGlue s t (.ret (some 0)))
  | .current _ f, .nextValFrontier ex =>
      let limit := min ex f
      match Cursor.step s.cur (.callClaim t limit) with
      | some (c', _) => .ok (setGlue { s with cur := c' } t (.nextValClaim ex))
      | none => .error "callClaim not enabled"
  | .current _ f, .frontier => .ok (setGlue s t (.ret (some f)))
  | _, _ => .error "frontier event does not fit the call in progress"

def afterCursorEv (s : CtxState) (t : Nat) (e : Cursor.Ev) : Except String CtxState :=
  match e, s.glue t with
  | .tau, _ => .ok s
  | .claimed _ k _, .nextValClaim _ => .ok (setGlue s t (.ret (some k)))
  | .claimNone _ _, .nextValClaim _ => .ok (setGlue s t (.ret none))
  | .rewound _ _ _, .rewindCur _ => .ok (setGlue s t (.ret (some 0)))
  | _, _ => .error "cursor event does not fit the call in progress"

def frPcMatches (p : Cursor.Frontier.Pc) (site : String) (a b : Option Nat) : Bool :=
  match p, site with
  | .pubLoad1 i, "frontier_load1" => a == some i
  | .pubStore i, "frontier_set_executed" => a == some i
  | .pubLoad2 i, "frontier_load2" => a == some i
  | .curLoad, "frontier_cur_load" => true
  | .curCheck f, "frontier_cur_check" => a == some f
  | .curReload, "frontier_cur_reload" => true
  | .advScan _ e _, "frontier_scan" => a == some e
  | .advMax st e _, "frontier_fetch_max" => a == some st && b == some e
  | _, _ => false

def ctxEvent (s : CtxState) (ev : Ev) : Except String CtxState := do
  let t := ev.tid
  match ev.site with
  | "start" | "end" | "lock_busy" => pure s
  | "h_call" =>
      match s.glue t with
      | .idle =>
        match ev.a, ev.b, ev.c with
        | some 1, some i, _ =>
            match Cursor.Frontier.step s.fr (.callPublish t i) with
            | some (fr', _) => pure (setGlue { s with fr := fr' } t (.executed i))
            | none => throw "callPublish not enabled"
        | some 2, some e, _ =>
            match Cursor.Frontier.step s.fr (.callCurrent t) with
            | some (fr', _) => pure (setGlue { s with fr := fr' } t (.nextValFrontier e))
            | none => throw "callCurrent not enabled"
        | some 3, some i, _ =>
            if i ≥ s.n then pure (setGlue s t (.ret (some 0))) else pure (setGlue s t (.rewindTs i))
        | some 4, _, _ => pure (setGlue s t .timestamp)
        | some 5, some i, some ts => pure (setGlue s t (.unconfirmed i ts))
        | some 6, _, _ =>
            match Cursor.Frontier.step s.fr (.callCurrent t) with
            | some (fr', _) => pure (setGlue { s with fr := fr' } t .frontier)
            | none => throw "callCurrent not enabled"
        | _, _, _ => throw "unknown call"
      | _ => throw "h_call while a call is in progress"
  | "h_ret" =>
      match s.glue t with
      | .ret v =>
          -- unit calls report 0
          if ev.b == v then pure (setGlue s t .idle)
          else throw s!"return value differs: impl {repr ev.b} model {repr v}"
      | g => throw s!"h_ret but model call not finished: {repr g}"
  | "rewind_ts" =>
      match s.glue t with
      | .rewindTs i =>
          if ev.a == some i then pure (setGlue { s with clock := s.clock + 1 } t (.rewindLts i s.clock))
          else throw "rewind_ts index differs"
      | _ => throw "rewind_ts out of place"
  | "rewind_lts" =>
      match s.glue t with
      | .rewindLts i ts =>
          if ev.a == some i && ev.b == some ts then
            let s1 := { s with lts := fun k => if k = i then max (s.lts i) ts else s.lts k }
            match Cursor.step s1.cur (.callRewind t i) with
            | some (c', _) => pure (setGlue { s1 with cur := c' } t (.rewindCur i))
            | none => throw "callRewind not enabled"
          else throw s!"rewind_lts differs: impl {repr ev.a} {repr ev.b} model {i} {ts}"
      | _ => throw "rewind_lts out of place"
  | "vcur_rewind" =>
      match s.cur.pc t with
      | .rewind v =>
          if ev.a == some v then
            let (s1, e) ← curStep s (.fetchMin t)
            afterCursorEv s1 t e
          else throw "vcur_rewind value differs"
      | _ => throw "vcur_rewind out of place"
  | "vcur_load" =>
      match s.cur.pc t with
      | .claimLoad limit =>
          if ev.a == some limit then
            let (s1, e) ← curStep s (.load t)
            afterCursorEv s1 t e
          else throw s!"vcur_load limit differs: impl {repr ev.a} model {limit}"
      | _ => throw "vcur_load out of place"
  | "vcur_cas" =>
      match s.cur.pc t with
      | .claimCas limit cur =>
          if ev.a == some cur && ev.b == some limit then
            let act := if s.cur.cursor = cur then Cursor.Act.casOk t else Cursor.Act.casFail t
            let (s1, e) ← curStep s act
            afterCursorEv s1 t e
          else throw s!"vcur_cas differs: impl {repr ev.a} {repr ev.b} model {cur} {limit}"
      | _ => throw "vcur_cas out of place"
  | "val_ts" =>
      match s.glue t with
      | .timestamp => pure (setGlue { s with clock := s.clock + 1 } t (.ret (some s.clock)))
      | _ => throw "val_ts out of place"
  | "uts" =>
      match s.glue t with
      | .unconfirmed i ts =>
          if ev.a == some i && ev.b == some ts then
            pure (setGlue { s with uts := fun k => if k = i then max (s.uts i) ts else s.uts k } t
              (.ret (some 0)))
          else throw "uts differs"
      | _ => throw "uts out of place"
  | site =>
      if site.startsWith "frontier_" then
        if frPcMatches (s.fr.pc t) site ev.a ev.b then
          let (s1, e) ← frStep s t
          afterFrontierEv s1 t e
        else throw s!"{site} {repr ev.a} {repr ev.b} does not match model pc {repr (s.fr.pc t)}"
      else throw s!"unknown site {site}"

/-! ## TxDependency -/

def depPcMatches (p : TxDep.Pc) (site : String) (a : Option Nat) : Bool :=
  match p, site with
  | .nextLoad, "dep_next_load" => true
  | .nextAdd, "dep_next_fetch_add" => true
  | .nextLock i, "lock_dep" => a == some i
  | .rmLockAff d _, "lock_affect" => a == some d
  | .rmIter _ _ _ _, "lock_dep" => true
  | .rmMin _ _ _ _ tx, "dep_fetch_min" => a == some tx
  | .pubCommit v, "cursor_publish" => a == some v
  | .cmLock nx, "lock_dep" => a == some nx
  | .cmMin nx, "dep_fetch_min" => a == some nx
  | .keyLock x, "lock_dep" => a == some x
  | .keyRead x, "dep_key_read_commit" => a == some x
  | .keyMin x, "dep_fetch_min" => a == some x
  | .addLockAff _ d, "lock_affect" => a == some d
  | .addLockDep _ d, "lock_dep" => a == some d
  | .addLockTx x _, "lock_dep" => a == some x
  | .addMin _ d, "dep_fetch_min" => a == some d
  | .addNoneLock x, "lock_dep" => a == some x
  | .addNoneMin x, "dep_fetch_min" => a == some x
  | _, _ => false

structure DepState where
  s : TxDep.State
  /-- finished call's return value awaiting `h_ret` -/
  ret : Nat → Option (Option Nat)
  /-- thread probed a lock the model says is held; a `lock_busy` event must follow -/
  probing : Nat → Bool := fun _ => false

/-- The lock thread `t` is about to take, if its next step is an acquisition: `(isAffect, idx)`. -/
def wantedLock (p : TxDep.Pc) (pick : Nat) : Option (Bool × Nat) :=
  match p with
  | .nextLock i => some (false, i)
  | .rmLockAff d _ => some (true, d)
  | .rmIter _ _ _ _ => some (false, pick)
  | .cmLock nx => some (false, nx)
  | .keyLock x => some (false, x)
  | .addLockAff _ d => some (true, d)
  | .addLockDep _ d => some (false, d)
  | .addLockTx x _ => some (false, x)
  | .addNoneLock x => some (false, x)
  | _ => none

def lockHeld (s : TxDep.State) (l : Bool × Nat) : Bool :=
  if l.1 then (s.affLock l.2).isSome else (s.depLock l.2).isSome

def depEvent (st : DepState) (ev : Ev) : Except String DepState := do
  let t := ev.tid
  match ev.site with
  | "start" | "end" => pure st
  | "lock_busy" =>
      if st.probing t then pure { st with probing := fun u => if u = t then false else st.probing u }
      else throw "impl found a lock busy that the model says is free"
  | "h_call" =>
      let call : Option TxDep.Call :=
        match ev.a, ev.b, ev.c with
        | some 1, _, _ => some .next
        | some 2, some d, some p => some (.remove d (p != 0))
        | some 3, some x, _ => some (.commit x)
        | some 4, some x, _ => some (.keyTx x)
        | some 5, some x, d => some (.add x d)
        | _, _, _ => none
      match call with
      | none => throw "unknown call"
      | some c =>
          match TxDep.step st.s (.call t c) with
          | some (s', _) => pure { st with s := s' }
          | none => throw s!"call not enabled: {repr c}"
  | "h_ret" =>
      match st.ret t with
      | some v =>
          -- unit calls report 0; option calls report the value or `-`
          let ok := match ev.a with
            | some 1 | some 2 => ev.b == v
            | _ => true
          if ok then pure { st with ret := fun u => if u = t then none else st.ret u }
          else throw s!"return value differs: impl {repr ev.b} model {repr v}"
      | none => throw s!"h_ret but model call not finished: {repr (st.s.pc t)}"
  | site =>
      if st.probing t then throw "impl acquired a lock the model says is held"
      else if depPcMatches (st.s.pc t) site ev.a then
        let pick := ev.a.getD 0
        match wantedLock (st.s.pc t) pick with
        | some l =>
            if lockHeld st.s l then
              return { st with probing := fun u => if u = t then true else st.probing u }
        | none => pure ()
        match TxDep.step st.s (.stepT t pick) with
        | some (s', r) =>
            match r with
            | some v => pure { s := s', ret := fun u => if u = t then some v else st.ret u }
            | none => pure { st with s := s' }
        | none => throw s!"step not enabled at {site} {repr ev.a}: pc {repr (st.s.pc t)}"
      else throw s!"{site} {repr ev.a} does not match model pc {repr (st.s.pc t)}"

end Grevm.Driver
