/-
Trace conformance of the real scheduler against the PROVEN pipeline model (`Model/Sched.lean`).
The harness runs grevm on a block under the deterministic controller and sends the totally
ordered hook events.  Pass 1 reconstructs each transaction's program (an interaction tree keyed by
the hashes of the values read — two incarnations that read equal values must behave equally, else
"nondeterminism" is reported).  Pass 2 replays every event as one action of `Sched.step`: the
action must be enabled and every observed value (read version, estimate flag, blocked flag,
new-location flag, validation verdict, timestamps, finality lower bound, commit order) must equal
what the model computes.
-/
import Grevm.Model.Sched
import Grevm.Driver.Kernel

namespace Grevm.Driver.SchedConf

open Grevm Grevm.Block Grevm.Sched Grevm.Driver

/-- Reconstructed program of one transaction. -/
inductive Tree where
  | unknown
  | ok (writes : List (Nat × Nat))
  | fail
  | node (l : Nat) (children : List (Nat × Tree))

instance : Inhabited Tree := ⟨.unknown⟩
instance : Inhabited Prog := ⟨.fail 0⟩

/-- Insert one observed incarnation (read path + leaf). `none` on a determinism conflict. -/
partial def Tree.insert (t : Tree) (path : List (Nat × Nat)) (leaf : Tree) : Option Tree :=
  match path with
  | [] =>
      match t, leaf with
      | .unknown, _ => some leaf
      | .fail, .fail => some t
      | .ok w, .ok w' =>
          -- same write set (as sets of (loc, val))
          if w.all (fun p => w'.contains p) && w'.all (fun p => w.contains p) then some t else none
      | _, _ => none
  | (l, v) :: rest =>
      match t with
      | .unknown =>
          match Tree.insert .unknown rest leaf with
          | some c => some (.node l [(v, c)])
          | none => none
      | .node l' cs =>
          if l' != l then none
          else
            match cs.find? (fun p => p.1 == v) with
            | some (_, c) =>
                match Tree.insert c rest leaf with
                | some c' => some (.node l (cs.map fun p => if p.1 == v then (v, c') else p))
                | none => none
            | none =>
                match Tree.insert .unknown rest leaf with
                | some c => some (.node l ((v, c) :: cs))
                | none => none
      | _ => none

partial def Tree.render : Tree → String
  | .unknown => "?"
  | .ok w => s!"ok{w}"
  | .fail => "fail"
  | .node l cs => s!"read {l} [" ++ ", ".intercalate (cs.map fun p => s!"{p.1} -> {p.2.render}") ++ "]"

partial def Tree.toProg : Tree → Prog
  | .unknown => .fail 3
  | .ok w => .done w 0
  | .fail => .fail 1
  | .node l cs =>
      .read l (fun v => match cs.find? (fun p => p.1 == v) with
        | some (_, c) => c.toProg
        | none => .fail 2)

structure Incarnation where
  tx : Nat
  reads : Array (Nat × Nat) := #[]
  pubs : Array (Nat × Nat) := #[]

def setAt {α : Type} (a : Array α) (i : Nat) (v : α) (dflt : α) : Array α :=
  if i < a.size then a.set! i v else (a ++ Array.replicate (i + 1 - a.size) dflt).set! i v

/-- Pass 1: programs and base values. -/
def buildPrograms (n : Nat) (evs : List Ev) :
    Except String (Array Tree × List (Nat × Nat)) := Id.run do
  let mut trees : Array Tree := Array.replicate n .unknown
  let mut cur : Array (Option Incarnation) := #[]
  let mut base : List (Nat × Nat) := []
  -- values of the committed state: location -> value of its latest committed writer
  let mut committed : List (Nat × Nat) := []
  -- publications of the last successful incarnation of each transaction
  let mut lastPubs : Array (List (Nat × Nat)) := Array.replicate n []
  for ev in evs do
    let t := ev.tid
    match ev.site with
    | "exec_begin" =>
        cur := setAt cur t (some { tx := ev.a.getD 0 }) none
    | "mv_read_done" =>
        match cur.getD t none with
        | some inc =>
            let l := ev.b.getD 0
            let v := ev.d.getD 0
            cur := setAt cur t (some { inc with reads := inc.reads.push (l, v) }) none
            if ev.c == some 0 then
              -- origin `Storage`: the committed cache was read. It holds the value of the latest
              -- COMMITTED writer of the location, or the block-start value (learned here).
              match committed.find? (fun p => p.1 == l) with
              | some _ => pure ()
              | none =>
                  match base.find? (fun p => p.1 == l) with
                  | some (_, v0) =>
                      if v0 != v then
                        return .error s!"block-start value of location {l} changed between reads ({v0} vs {v}) although no transaction writing it was committed in between"
                  | none => base := (l, v) :: base
        | none => pure ()
    | "mv_publish_val" =>
        match cur.getD t none with
        | some inc =>
            cur := setAt cur t (some { inc with pubs := inc.pubs.push (ev.b.getD 0, ev.c.getD 0) }) none
        | none => pure ()
    | "exec_end" =>
        match cur.getD t none with
        | some inc =>
            let leaf := if ev.c == some 1 then Tree.ok inc.pubs.toList else Tree.fail
            lastPubs := setAt lastPubs inc.tx (if ev.c == some 1 then inc.pubs.toList else []) []
            match (trees.getD inc.tx .unknown).insert inc.reads.toList leaf with
            | some t' => trees := setAt trees inc.tx t' .unknown
            | none =>
                return .error s!"nondeterminism: two incarnations of tx {inc.tx} read equal values but behaved differently (monitored assumption 1); this one: reads {inc.reads.toList} pubs {inc.pubs.toList} ok {ev.c.getD 9}; earlier: {(trees.getD inc.tx .unknown).render}"
            cur := setAt cur t none none
        | none => pure ()
    | "commit_done" =>
        for (l, v) in lastPubs.getD (ev.a.getD 0) [] do
          committed := (l, v) :: committed.filter (fun p => p.1 != l)
    | _ => pure ()
  return .ok (trees, base)

def verCode : Option (Nat × Nat) → Nat
  | none => 0
  | some (t, i) => (t + 1) * 4294967296 + i

structure Replay where
  s : Sched.State
  /-- transaction each thread is working on -/
  cur : Array (Option Nat) := #[]
  lastLock : Array (Option Nat) := #[]
  pendingVal : Array Nat := #[]
  aborted : Bool := false
  steps : Nat := 0

def stepOrErr (P : Params) (r : Replay) (a : Act) (what : String) : Except String Replay :=
  match Sched.step P r.s a with
  | some s' => .ok { r with s := s', steps := r.steps + 1 }
  | none => .error s!"model action not enabled: {what}"

/-- Skip rewinds beyond the block eagerly (the code returns from `rewind_validation_to` at once). -/
def skipTail (P : Params) (r : Replay) (tx : Nat) : Replay :=
  match r.s.phase tx with
  | .tailPreTs k _ =>
      if k ≥ P.n then
        match Sched.step P r.s (.tailTs tx) with
        | some s' => { r with s := s' }
        | none => r
      else r
  | _ => r

def phaseName : Phase → String
  | .idle => "idle"
  | .reading _ _ _ => "reading"
  | .fetching l _ _ _ => s!"fetching({l})"
  | .publishing _ todo _ => s!"publishing(todo {todo})"
  | .removing _ todo _ => s!"removing(todo {todo})"
  | .errMark _ _ todo => s!"errMark(todo {todo})"
  | .valPreTs => "valPreTs"
  | .valScan ts _ todo c => s!"valScan(ts {ts}, {todo.length} unchecked, conflict {c})"
  | .valMark todo => s!"valMark(todo {todo})"
  | .tailPreTs k _ => s!"tailPreTs({k})"
  | .tailLts k ts _ => s!"tailLts({k},{ts})"

def event (P : Params) (r : Replay) (ev : Ev) : Except String Replay := do
  if r.aborted then return r
  let t := ev.tid
  let a := ev.a.getD 0
  let b := ev.b.getD 0
  let c := ev.c.getD 0
  let d := ev.d.getD 0
  match ev.site with
  | "abort_store" => pure { r with aborted := true }
  | "lock_txstate" => pure { r with lastLock := setAt r.lastLock t (some a) none }
  | "exec_begin" =>
      let r ← stepOrErr P r (.claimExec a) s!"claimExec {a} (phase {phaseName (r.s.phase a)})"
      if r.s.inc a != b then throw s!"incarnation differs: impl {b} model {r.s.inc a}"
      pure { r with cur := setAt r.cur t (some a) none }
  | "mv_read" =>
      match r.s.phase a with
      | .reading (.read l _) _ _ =>
          if l != b then throw s!"read location differs: impl {b} model {l}"
          stepOrErr P r (.execRead a) "execRead"
      | p => throw s!"impl reads {b} but the model program of tx {a} is in {phaseName p} / not at a read"
  | "mv_read_done" =>
      -- a lookup miss is completed by the read of the committed cache
      let r ← match r.s.phase a with
        | .fetching _ _ _ _ => stepOrErr P r (.execFetch a) "execFetch"
        | _ => pure r
      match r.s.phase a with
      | .reading _ (rec :: _) _ =>
          if rec.loc != b then throw s!"read-done location differs"
          if verCode rec.ver != c then
            throw s!"read version differs at location {b}: impl {c} model {verCode rec.ver}"
          if rec.val != d then throw s!"read value differs at location {b}: impl {d} model {rec.val}"
          pure r
      | p => throw s!"mv_read_done in phase {phaseName p}"
  | "mv_publish_val" => pure { r with pendingVal := setAt r.pendingVal t c 0 }
  | "mv_publish" =>
      let r ← match r.s.phase a with
        | .reading _ _ _ => stepOrErr P r (.execFinish a) "execFinish (program expects more reads?)"
        | _ => pure r
      let r ← stepOrErr P r (.publishOne a b) s!"publishOne {a} {b} (phase {phaseName (r.s.phase a)})"
      match r.s.mv b a with
      | some e =>
          if e.inc != c then throw s!"published incarnation differs: impl {c} model {e.inc}"
          if e.est != (d != 0) then throw s!"estimate flag of publication differs: impl {d} model {e.est}"
          if e.val != r.pendingVal.getD t 0 then throw s!"published value differs"
          pure r
      | none => throw "no entry after publish"
  | "exec_end" =>
      let r ← match r.s.phase a with
        | .reading _ _ _ => stepOrErr P r (.execFinish a) "execFinish (program expects more reads?)"
        | _ => pure r
      if c != 0 then
        match r.s.phase a with
        | .publishing run [] _ =>
            if run.blocked != (d != 0) then throw s!"blocked flag differs: impl {d} model {run.blocked}"
            stepOrErr P r (.endPublish a) "endPublish"
        | p => throw s!"execution ended ok but model is in {phaseName p}"
      else
        match r.s.phase a with
        | .errMark _ _ _ => pure r
        | p => throw s!"execution failed but model is in {phaseName p}"
  | "mv_remove" => stepOrErr P r (.removeOne a b) s!"removeOne {a} {b} (phase {phaseName (r.s.phase a)})"
  | "mv_mark" =>
      match r.s.phase a with
      | .errMark _ _ todo =>
          if todo.contains b then stepOrErr P r (.markOne a b) "markOne" else pure r
      | .valMark todo =>
          if todo.contains b then stepOrErr P r (.markOne a b) "markOne" else pure r
      | p => throw s!"mv_mark in phase {phaseName p}"
  | "exec_result" =>
      -- a: tx, b: conflict, c: write_new_locations, d: next (or none)
      match r.s.phase a with
      | .removing run [] newLoc =>
          if run.blocked != (b != 0) then throw s!"conflict flag differs: impl {b} model {run.blocked}"
          if !run.blocked && newLoc != (c != 0) then
            throw s!"write_new_locations differs: impl {c} model {newLoc}"
          let r ← stepOrErr P r (.recordResult a ev.d.isSome) "recordResult"
          pure (skipTail P r a)
      | .errMark _ _ [] =>
          let r ← stepOrErr P r (.endErrMark a) "endErrMark"
          pure (skipTail P r a)
      | p => throw s!"exec_result in phase {phaseName p}"
  | "rewind_ts" =>
      match r.cur.getD t none with
      | some tx =>
          let r ← match r.s.phase tx with
            | .valMark [] =>
                let r ← stepOrErr P r (.endValMark tx) "endValMark"
                pure r
            | _ => pure r
          match r.s.phase tx with
          | .tailPreTs k _ =>
              if k != a then throw s!"rewind target differs: impl {a} model {k}"
              stepOrErr P r (.tailTs tx) "tailTs"
          | p => throw s!"rewind by the worker of tx {tx} but model is in {phaseName p}"
      | none => throw "rewind by a thread with no current transaction"
  | "rewind_lts" =>
      match r.cur.getD t none with
      | some tx =>
          match r.s.phase tx with
          | .tailLts k ts _ =>
              if k != a || ts != b then
                throw s!"rewind timestamp differs: impl ({a},{b}) model ({k},{ts})"
              stepOrErr P r (.tailLts tx) "tailLts"
          | p => throw s!"rewind_lts in phase {phaseName p}"
      | none => throw "rewind_lts by a thread with no current transaction"
  | "val_ts" =>
      match r.lastLock.getD t none with
      | some tx =>
          let r ← match r.s.phase tx with
            | .idle => stepOrErr P r (.claimVal tx) s!"claimVal {tx}"
            | _ => pure r
          let r ← stepOrErr P r (.valTs tx) s!"valTs {tx} (phase {phaseName (r.s.phase tx)})"
          pure { r with cur := setAt r.cur t (some tx) none }
      | none => throw "val_ts by a thread that locked no transaction"
  | "val_check" =>
      -- The real read set is a map keyed by location: a location read several times in one
      -- incarnation (e.g. the reset marker, once per slot) is checked once. The model keeps every
      -- read; all records of that location are checked here. If they carried different versions
      -- (monitored assumption 2) the verdicts may differ, which is then reported.
      match r.s.phase a with
      | .valScan _ _ todo _ =>
          if !(todo.any (fun x => x.loc == b)) then
            throw s!"impl validates location {b} which is not an unchecked read of the model"
          let mut r := r
          for _ in [0:todo.length] do
            match r.s.phase a with
            | .valScan _ _ todo' _ =>
                match todo'.findIdx? (fun x => x.loc == b) with
                | some k => r ← stepOrErr P r (.valCheck a k) "valCheck"
                | none => break
            | _ => break
          pure r
      | p => throw s!"val_check in phase {phaseName p}"
  | "val_scan_done" =>
      match r.s.phase a with
      | .valScan _ _ [] conflict =>
          if conflict != (b != 0) then throw s!"validation verdict differs: impl {b} model {conflict}"
          let r ← stepOrErr P r (.endScan a) "endScan"
          pure r
      | p => throw s!"scan finished but model is in {phaseName p}"
  | "uts" =>
      if r.s.uts a != b then throw s!"validation timestamp differs: impl {b} model {r.s.uts a}"
      pure r
  | "hist_invalidate" =>
      -- failed validation of the LAST transaction: `rewind_validation_to(n)` returns at once and the
      -- locks are dropped before the next schedule point of this worker
      match r.s.phase a with
      | .valMark [] =>
          if a + 1 ≥ P.n then
            let r ← stepOrErr P r (.endValMark a) "endValMark"
            pure (skipTail P r a)
          else pure r
      | _ => pure r
  | "val_done" =>
      -- failed validation whose rewind target is beyond the block: no rewind events follow
      match r.s.phase a with
      | .valMark [] =>
          let r ← stepOrErr P r (.endValMark a) "endValMark"
          pure (skipTail P r a)
      | _ => pure r
  | "finalize" =>
      if r.s.fin != a then throw s!"finalized index differs: impl {a} model fin {r.s.fin}"
      let r ← stepOrErr P r .finalize s!"finalize {a} (status/timestamps do not allow it in the model)"
      if r.s.lower != b then throw s!"finality lower bound differs: impl {b} model {r.s.lower}"
      pure r
  | "commit_done" =>
      if r.s.com != a then throw s!"commit index differs: impl {a} model com {r.s.com}"
      stepOrErr P r .commit "commit"
  | _ => pure r

/-- `sched <n>` session. -/
def replaySched (n : Nat) (lines : List String) : String := Id.run do
  let evs := lines.filterMap fun l => parseEv (words l)
  if evs.any (fun e => e.site == "hist_read") then
    return "skip beneficiary-read"
  match buildPrograms n evs with
  | .error e => return s!"diverge 0 {e}"
  | .ok (trees, base) =>
      let P : Params :=
        { n := n, txs := fun i => (trees.getD i .unknown).toProg,
          base := fun l => match base.find? (fun p => p.1 == l) with
            | some (_, v) => v
            | none => 0 }
      let mut r : Replay := { s := Sched.init }
      let mut idx := 0
      for ev in evs do
        match event P r ev with
        | .ok r' => r := r'
        | .error msg =>
            return s!"diverge {idx} {msg} :: ev {ev.tid} {ev.site} {ev.a.getD 0} {ev.b.getD 0} {ev.c.getD 0} {ev.d.getD 0}"
        idx := idx + 1
      if !r.aborted && (r.s.fin != n || r.s.com != n) then
        return s!"diverge {idx} run ended without abort but model has fin {r.s.fin} com {r.s.com} of {n}"
      return s!"ok {r.steps} {if r.aborted then "aborted" else "complete"}"

end Grevm.Driver.SchedConf
