/-
Line-protocol session for the reserve planner, journal scan and decision (C13).

  reserve
  tx <caller> <cost | ->          one per block transaction, in order
  q <txid> <addr>                 -> required_after
  scan <rootCaller> <rootValue> <rootTarget | -> ; delegated a b c ; final a:bal b:bal ; <entries>
        entries: T src dst v | D addr target had | C addr old | O   separated by `,`
                                  -> `addr:before:final` list (sorted by address)
  viol <txid> ; <addr:before:final …>   -> 0 | 1
-/
import Grevm.Model.Reserve
import Grevm.Driver.Kernel

namespace Grevm.Driver.ReserveConf

open Grevm.Reserve Grevm.Driver

def parseEntry (ws : List String) : Option Entry :=
  match ws with
  | ["T", s, d, v] => do pure (.transfer (← s.toNat?) (← d.toNat?) (← v.toNat?))
  | ["D", a, t, h] => do pure (.destroyed (← a.toNat?) (← t.toNat?) (← h.toNat?))
  | ["C", a, o] => do pure (.balanceChange (← a.toNat?) (← o.toNat?))
  | ["O"] => some .other
  | _ => none

def splitOnTok (ws : List String) (sep : String) : List (List String) := Id.run do
  let mut out : Array (List String) := #[]
  let mut cur : Array String := #[]
  for w in ws do
    if w == sep then
      out := out.push cur.toList
      cur := #[]
    else cur := cur.push w
  out := out.push cur.toList
  return out.toList

def parseTriple (s : String) : Option Debit :=
  match s.splitOn ":" with
  | [a, b, f] => do pure { address := ← a.toNat?, before := ← b.toNat?, final := ← f.toNat? }
  | _ => none

def op (txs : List Tx) (ws : List String) : List Tx × Option String :=
  match ws with
  | ["tx", c, cost] =>
      match c.toNat? with
      | some c => (txs ++ [{ caller := c, cost := argNat cost }], none)
      | none => (txs, some "bad-op")
  | ["q", t, a] =>
      match t.toNat?, a.toNat? with
      | some t, some a => (txs, some (toString (requiredAfter txs t a)))
      | _, _ => (txs, some "bad-op")
  | "scan" :: rc :: rv :: rt :: ";" :: rest =>
      match rc.toNat?, rv.toNat? with
      | some rc, some rv =>
          match splitOnTok rest ";" with
          | [del, fin, ents] =>
              let dels := (del.drop 1).filterMap String.toNat?
              let fins : List (Nat × Nat) := (fin.drop 1).filterMap fun s =>
                match s.splitOn ":" with
                | [a, b] => do pure (← a.toNat?, ← b.toNat?)
                | _ => none
              let entries := (splitOnTok ents ",").map parseEntry
              if entries.any Option.isNone then (txs, some "bad-op") else
              let entries := entries.filterMap id
              let root : Root := { caller := rc, value := rv, target := argNat rt }
              let ds := delegatedDebits entries root (fun a => dels.contains a)
                (fun a => ((fins.find? (·.1 == a)).map (·.2)).getD 0)
              let ds := ds.toArray.qsort (fun x y => x.address < y.address) |>.toList
              (txs, some (" ".intercalate (ds.map fun d => s!"{d.address}:{d.before}:{d.final}")))
          | _ => (txs, some "bad-op")
      | _, _ => (txs, some "bad-op")
  | "viol" :: t :: ";" :: rest =>
      match t.toNat? with
      | some t =>
          let ds := rest.filterMap parseTriple
          (txs, some (if violates txs t ds then "1" else "0"))
      | none => (txs, some "bad-op")
  | _ => (txs, some "bad-op")

def replayReserve (lines : List String) : String := Id.run do
  let mut txs : List Tx := []
  let mut out : Array String := #[]
  for l in lines do
    let ws := words l
    if ws.isEmpty then continue
    let (t', r) := op txs ws
    txs := t'
    match r with
    | some r => out := out.push r
    | none => pure ()
  return ";".intercalate out.toList

end Grevm.Driver.ReserveConf
