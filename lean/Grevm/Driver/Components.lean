/-
Line-protocol sessions for the sequential components (history, reward, …): the harness performs
the same operations on the real structs and compares the `;`-joined result strings.
-/
import Grevm.Model.History
import Grevm.Driver.Kernel

namespace Grevm.Driver

open Grevm

def parseAcct : List String → Option (Option History.Acct × List String)
  | "-" :: rest => some (none, rest)
  | b :: r :: rest =>
      match b.toNat?, r.toNat? with
      | some b, some r => some (some { balance := b, rest := r }, rest)
      | _, _ => none
  | _ => none

def showAcct : Option History.Acct → String
  | none => "-"
  | some a => s!"{a.balance} {a.rest}"

def showOrigins (o : List (Nat × Nat)) : String :=
  ",".intercalate (o.map fun (t, i) => s!"{t}:{i}")

def parseOrigins (s : String) : List (Nat × Nat) :=
  if s == "-" then [] else
  (s.splitOn ",").filterMap fun p =>
    match p.splitOn ":" with
    | [a, b] => match a.toNat?, b.toNat? with
      | some a, some b => some (a, b)
      | _, _ => none
    | _ => none

/-- One history operation; returns the new history and the result token. -/
def historyOp (h : History.Hist) (ws : List String) : History.Hist × String :=
  match ws with
  | ["rec", t, i, "reward", amt] =>
      match t.toNat?, i.toNat?, amt.toNat? with
      | some t, some i, some amt =>
          let (h', ok) := History.record h t i (.exact (.reward amt))
          (h', if ok then "1" else "0")
      | _, _, _ => (h, "bad-op")
  | ["rec", t, i, "unchanged"] =>
      match t.toNat?, i.toNat? with
      | some t, some i =>
          let (h', ok) := History.record h t i (.exact .unchanged)
          (h', if ok then "1" else "0")
      | _, _ => (h, "bad-op")
  | "rec" :: t :: i :: "snap" :: rest =>
      match t.toNat?, i.toNat?, parseAcct rest with
      | some t, some i, some (a, _) =>
          let (h', ok) := History.record h t i (.exact (.snapshot a))
          (h', if ok then "1" else "0")
      | _, _, _ => (h, "bad-op")
  | ["est", t, i] =>
      match t.toNat?, i.toNat? with
      | some t, some i =>
          let (h', ok) := History.record h t i .estimate
          (h', if ok then "1" else "0")
      | _, _ => (h, "bad-op")
  | ["inv", t, i] =>
      match t.toNat?, i.toNat? with
      | some t, some i =>
          let (h', ok) := History.invalidate h t i
          (h', if ok then "1" else "0")
      | _, _ => (h, "bad-op")
  | ["res", t] =>
      match t.toNat? with
      | some t =>
          match History.resolveBefore h t with
          | .ok (a, o) => (h, s!"ok {showAcct a} @{showOrigins o}")
          | .error b => (h, s!"blk {b}")
      | none => (h, "bad-op")
  | ["val", t, o] =>
      match t.toNat? with
      | some t =>
          let (v, d) := History.validate h t (parseOrigins o)
          (h, s!"{if v then 1 else 0} {match d with | some d => toString d | none => "-"}")
      | none => (h, "bad-op")
  | ["apply", amt, "to"] => (h, "bad-op")
  | "apply" :: amt :: rest =>
      match amt.toNat?, parseAcct rest with
      | some amt, some (a, _) => (h, showAcct (some (History.applyReward amt a)))
      | _, _ => (h, "bad-op")
  | _ => (h, "bad-op")

/-- `history <n> <anchor…>` then one op per line. -/
def replayHistory (hd : List String) (lines : List String) : String := Id.run do
  match hd with
  | n :: rest =>
      match n.toNat?, parseAcct rest with
      | some n, some (anchor, _) =>
          let mut h := History.Hist.new anchor n
          let mut out : Array String := #[]
          for l in lines do
            let ws := words l
            if ws.isEmpty then continue
            let (h', r) := historyOp h ws
            h := h'
            out := out.push r
          return ";".intercalate out.toList
      | _, _ => return "error bad history header"
  | _ => return "error bad history header"

/-- `reward <feeDisabled> <london> <basefee> <effPrice> <gasUsed> <reservoir> <inJournal>` per line. -/
def replayReward (lines : List String) : String := Id.run do
  let mut out : Array String := #[]
  for l in lines do
    match (words l).filterMap String.toNat? with
    | [fd, lo, bf, ep, gu, rs, ij] =>
        let inp : History.RewardInput :=
          { feeDisabled := fd != 0, london := lo != 0, basefee := bf, effectiveGasPrice := ep,
            gasUsed := gu, reservoir := rs }
        let r := match History.rewardDecision inp (ij != 0) with
          | none => "none"
          | some (d, amt) => s!"{if d then "defer" else "now"} {amt}"
        out := out.push r
    | _ => out := out.push "bad-op"
  return ";".intercalate out.toList

end Grevm.Driver
