/-
Line-protocol session for the account-status machine (C10, Model/AcctState): one account.
The harness performs the operations on the real `ParallelState` and on revm's `State` and sends,
with each operation, what it observed on both; the driver runs `G.step` and `S.step` (the
definitions the theorems of Props/C10 are about) and reports the first difference.

  acct
  db <info | -> <v0> <v1> …            backing store: info `n:b:c` (c = code id, 0 = none), slot values
  basic ; <info>                        both sides, observed info
  read <k> ; <v>                        both sides
  sread <k> ; <v>                       revm side only (the harness peeks at revm's current values)
  sd | touch | create <info> k=v… | change <info> k=v… | inc <amt> | drain <amt>
        ; <g-status> <g-info> <s-status> <s-info>     observed cache entries after the operation
Result: `ok <ops>` or `diverge <idx> <why>`.
-/
import Grevm.Model.AcctState
import Grevm.Driver.Kernel

namespace Grevm.Driver.AcctConf

open Grevm.Acct Grevm.Driver

def parseInfo (s : String) : Option (Option Info) :=
  if s == "-" then some none else
  match s.splitOn ":" with
  | [n, b, c] => do pure (some ⟨← n.toNat?, ← b.toNat?, ← c.toNat?⟩)
  | _ => none

def showInfo : Option Info → String
  | none => "-"
  | some i => s!"{i.nonce}:{i.balance}:{i.code}"

def showStatus : Status → String
  | .loadedNotExisting => "LoadedNotExisting"
  | .loaded => "Loaded"
  | .loadedEmptyEIP161 => "LoadedEmptyEIP161"
  | .inMemoryChange => "InMemoryChange"
  | .changed => "Changed"
  | .destroyed => "Destroyed"
  | .destroyedChanged => "DestroyedChanged"
  | .destroyedAgain => "DestroyedAgain"

def parseSlots (ws : List String) : Option Slots := do
  let mut m : Slots := Slots.none
  for w in ws do
    match w.splitOn "=" with
    | [k, v] => m := m.set (← k.toNat?) (← v.toNat?)
    | _ => none
  pure m

def showTrans : Option Trans → String
  | none => "none"
  | some t => s!"[{showInfo t.info} {showStatus t.status} prev {showInfo t.prevInfo} {showStatus t.prevStatus} wiped={t.storageWasDestroyed}]"

def showOut : Out → String
  | .info i => s!"info {showInfo i}"
  | .val v => s!"val {v}"
  | .trans t => s!"trans {showTrans t}"
  | .drained a t => s!"drained {a} {showTrans t}"

structure St where
  db : Db
  g : G
  s : S

def parseOp (ws : List String) : Option Op :=
  match ws with
  | ["basic"] => some .basic
  | ["read", k] => k.toNat?.map .read
  | ["sd"] => some .selfdestruct
  | ["touch"] => some .touchEmpty
  | "create" :: i :: rest => do
      let i ← (← parseInfo i)
      pure (.create i (← parseSlots rest))
  | "change" :: i :: rest => do
      let i ← (← parseInfo i)
      pure (.change i (← parseSlots rest))
  | ["inc", a] => a.toNat?.map .increment
  | ["drain", _] => some .drain
  | _ => none

def splitSemi (ws : List String) : List String × List String :=
  (ws.takeWhile (· != ";"), (ws.dropWhile (· != ";")).drop 1)

/-- the cache entry of the grevm side as the harness renders it -/
def gEntry (g : G) : String := match g.acct with
  | some a => s!"{showStatus a.status} {showInfo a.info}"
  | none => "uncached -"
def sEntry (s : S) : String := match s with
  | some a => s!"{showStatus a.status} {showInfo a.info}"
  | none => "uncached -"

def stepLine (st : St) (ws : List String) : Except String St :=
  let (opw, obs) := splitSemi ws
  match opw with
  | ["sread", k] =>
      match k.toNat? with
      | none => .error "bad-op"
      | some k =>
          let (s', o) := S.step st.db st.s (.read k)
          if showOut o != s!"val {obs.headD ""}" then
            .error s!"revm-side read of slot {k}: impl {obs} model {showOut o}"
          else .ok { st with s := s' }
  | _ =>
  match parseOp opw with
  | none => .error s!"bad-op {opw}"
  | some op =>
      match G.step st.db st.g op with
      | none => .error s!"model: grevm panics (commit of an uncached account) at {opw}"
      | some (g', og) =>
          let (s', os) := S.step st.db st.s op
          if showOut og != showOut os then
            .error s!"MODEL SPLIT (contradicts step_refines): grevm-model {showOut og} revm-model {showOut os}"
          else
            let st' := { st with g := g', s := s' }
            match op with
            | .basic =>
                if obs != [showInfo (match og with | .info i => i | _ => none)] then
                  .error s!"basic: impl {obs} model {showOut og}" else .ok st'
            | .read k =>
                if s!"val {obs.headD ""}" != showOut og then
                  .error s!"read of slot {k}: impl {obs} model {showOut og}" else .ok st'
            | _ =>
                let expect := (gEntry g' ++ " " ++ sEntry s').splitOn " "
                let obs' := match op, og with
                  | .drain, .drained a _ =>
                      if opw.getD 1 "" != toString a then ["drained-amount-differs"] else obs
                  | _, _ => obs
                if obs' != expect then
                  .error s!"after {opw}: impl {obs'} model {expect} (model output {showOut og})"
                else .ok st'

def replayAcct (lines : List String) : String := Id.run do
  let mut st : St := { db := ⟨none, fun _ => 0⟩, g := G.init, s := S.init }
  let mut idx := 0
  for l in lines do
    let ws := words l
    match ws with
    | [] => pure ()
    | "db" :: i :: vals =>
        match parseInfo i with
        | none => return s!"diverge {idx} bad db line"
        | some info =>
            let vs := vals.filterMap String.toNat?
            st := { st with db := ⟨info, fun k => vs.getD k 0⟩ }
    | _ =>
        match stepLine st ws with
        | .ok st' => st := st'
        | .error e => return s!"diverge {idx} {e}"
        idx := idx + 1
  return s!"ok {idx}"

end Grevm.Driver.AcctConf
