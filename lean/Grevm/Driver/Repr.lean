/-
Line-protocol session for the representation layer (C08/C09): the harness drives the real
`IncarnationDb` (publish_writes / basic / storage / code) and stock revm's `State` over the same
finalized journal states; this driver answers every read with the PROVEN model's physical read
(`readStorage`/`readBasic`/`readCode` over `mvOf … skipReal codeChangedReal`) and the logical
value, and lists the entries the model publishes.
-/
import Grevm.Model.Repr
import Grevm.Driver.Kernel

namespace Grevm.Driver.ReprConf

open Grevm.Repr Grevm.Driver

structure Sess where
  baseAcct : List (Nat × Info) := []
  baseStor : List ((Nat × Nat) × Nat) := []
  txs : Array (List (Nat × Change)) := #[]
  /-- every address / slot mentioned, for the dump -/
  addrs : List Nat := []
  slots : List Nat := []

def Sess.base (s : Sess) : LState :=
  { acct := fun a => (s.baseAcct.find? (·.1 == a)).map (·.2),
    stor := fun a k => ((s.baseStor.find? (·.1 == (a, k))).map (·.2)).getD 0 }

def Sess.tx (s : Sess) (j : Nat) : TxChanges := fun a =>
  match (s.txs.getD j []).find? (·.1 == a) with
  | some p => p.2
  | none => .unchanged

def Sess.mv (s : Sess) : Nat → Published :=
  mvOf s.tx (skipReal s.base s.tx) (codeChangedReal s.base s.tx)

def showInfo : Option Info → String
  | none => "-"
  | some i => s!"{i.fields}:{i.code}"

def pairs : List Nat → List (Nat × Nat)
  | k :: v :: rest => (k, v) :: pairs rest
  | _ => []

def addU (l : List Nat) (x : Nat) : List Nat := if l.contains x then l else l ++ [x]

def addChange (s : Sess) (a : Nat) (c : Change) : Sess :=
  let i := s.txs.size - 1
  { s with txs := s.txs.set! i ((s.txs.getD i []) ++ [(a, c)]), addrs := addU s.addrs a }

/-- Code a reader of `a` at position `i` ends up with: none without an account, else by the id in
    the account it read. -/
def physCode (s : Sess) (i a : Nat) : Nat :=
  match readBasic s.mv s.base i a with
  | none => 0
  | some info => if info.code == 0 then 0 else readCode s.mv i a info.code

def dump (s : Sess) : String := Id.run do
  let mut out : Array String := #[]
  for j in List.range s.txs.size do
    let p := s.mv j
    for a in s.addrs do
      match p.basic a with
      | some v => out := out.push s!"B{a}@{j}={showInfo v}"
      | none => pure ()
      if p.reset a then out := out.push s!"R{a}@{j}"
      match p.code a with
      | some c => out := out.push s!"C{a}@{j}={c}"
      | none => pure ()
      for k in s.slots do
        match p.slot a k with
        | some v => out := out.push s!"S{a}.{k}@{j}={v}"
        | none => pure ()
  return " ".intercalate out.toList

def op (s : Sess) (ws : List String) : Sess × Option String :=
  match ws with
  | ["base", a, f, c] =>
      match a.toNat?, f.toNat?, c.toNat? with
      | some a, some f, some c => ({ s with baseAcct := s.baseAcct ++ [(a, ⟨f, c⟩)], addrs := addU s.addrs a }, none)
      | _, _, _ => (s, some "bad-op")
  | ["bstor", a, k, v] =>
      match a.toNat?, k.toNat?, v.toNat? with
      | some a, some k, some v => ({ s with baseStor := s.baseStor ++ [((a, k), v)], slots := addU s.slots k }, none)
      | _, _, _ => (s, some "bad-op")
  | ["tx"] => ({ s with txs := s.txs.push [] }, none)
  | ["chg", a, "del"] =>
      match a.toNat? with
      | some a => (addChange s a .deleted, none)
      | none => (s, some "bad-op")
  | "chg" :: a :: kind :: f :: c :: rest =>
      match a.toNat?, f.toNat?, c.toNat? with
      | some a, some f, some c =>
          let sl := pairs (rest.filterMap String.toNat?)
          let s := { s with slots := sl.foldl (fun l p => addU l p.1) s.slots }
          if kind == "new" then (addChange s a (.created ⟨f, c⟩ sl), none)
          else if kind == "upd" then (addChange s a (.updated ⟨f, c⟩ sl), none)
          else (s, some "bad-op")
      | _, _, _ => (s, some "bad-op")
  | ["q", "s", i, a, k] =>
      match i.toNat?, a.toNat?, k.toNat? with
      | some i, some a, some k =>
          (s, some s!"{readStorage s.mv s.base i a k} {(logical s.base s.tx i).stor a k}")
      | _, _, _ => (s, some "bad-op")
  | ["q", "b", i, a] =>
      match i.toNat?, a.toNat? with
      | some i, some a =>
          (s, some s!"{showInfo (readBasic s.mv s.base i a)} {showInfo ((logical s.base s.tx i).acct a)}")
      | _, _ => (s, some "bad-op")
  | ["q", "c", i, a] =>
      match i.toNat?, a.toNat? with
      | some i, some a =>
          let l := match (logical s.base s.tx i).acct a with | some x => x.code | none => 0
          (s, some s!"{physCode s i a} {l}")
      | _, _ => (s, some "bad-op")
  | ["cls", t, sd, c, e] =>
      (s, some (toString (classify (t == "1") (sd == "1") (c == "1") (e == "1"))))
  | ["rv", "s", i, a, k] =>
      -- versions a storage read of transaction `i` records: latest reset marker, latest slot entry
      match i.toNat?, a.toNat?, k.toNat? with
      | some i, some a, some k =>
          let r := latest (fun j => if (s.mv j).reset a then some () else none) i
          let w := latest (fun j => (s.mv j).slot a k) i
          let show1 (o : Option Nat) : String := match o with | some j => toString j | none => "-"
          (s, some s!"R{show1 (r.map (·.1))} S{show1 (w.map (·.1))}")
      | _, _, _ => (s, some "bad-op")
  | ["rv", "b", i, a] =>
      match i.toNat?, a.toNat? with
      | some i, some a =>
          let b := latest (fun j => (s.mv j).basic a) i
          (s, some s!"B{match b with | some (j, _) => toString j | none => "-"}")
      | _, _ => (s, some "bad-op")
  | ["ws", j] =>
      -- the write set of transaction `j`: exactly the locations it published
      match j.toNat? with
      | some j =>
          let p := s.mv j
          let toks : List String := s.addrs.flatMap fun a =>
            (if (p.basic a).isSome then [s!"B{a}"] else []) ++
            (if p.reset a then [s!"R{a}"] else []) ++
            (if (p.code a).isSome then [s!"C{a}"] else []) ++
            (s.slots.filterMap fun k => if (p.slot a k).isSome then some s!"S{a}.{k}" else none)
          (s, some (" ".intercalate toks))
      | none => (s, some "bad-op")
  | ["dump"] => (s, some (dump s))
  | _ => (s, some "bad-op")

def replayRepr (lines : List String) : String := Id.run do
  let mut s : Sess := {}
  let mut out : Array String := #[]
  for l in lines do
    let ws := words l
    if ws.isEmpty then continue
    let (s', r) := op s ws
    s := s'
    match r with
    | some r => out := out.push r
    | none => pure ()
  return ";".intercalate out.toList

end Grevm.Driver.ReprConf
