/-
`cache` sessions: the hook-event trace of real reader threads (worker view) racing the real ordered
commit on one account is replayed through `Cache.step true`, one model state per storage slot.

  cache <addrHash> <known0> <dbv of slot 0> <dbv of slot 1> …
  commit <D | C | U | N> <becomesKnown> <written value or - per slot>     (in commit order)
  ev <tid> <site> a b c d
  final <served value per slot>
  r <tid> <value the reader returned>
-/
import Grevm.Model.Cache
import Grevm.Driver.Kernel

namespace Grevm.Driver.CacheConf

open Grevm.Cache Grevm.Driver

instance : Inhabited State := ⟨init 0 false⟩

structure Commit where
  kind : String
  bk : Bool
  vals : List (Option Nat)
  deriving Inhabited

structure Sess where
  addr : Nat := 0
  sts : Array State := #[]
  commits : List Commit := []
  next : Nat := 0
  cur : Option Commit := none
  slotOf : List (Nat × Nat) := []

def opFor (c : Commit) (k : Nat) : Op :=
  let v := (c.vals.getD k none)
  if c.kind == "D" then .destroy else if c.kind == "C" then .create v else .update v c.bk

def applyAll (s : Sess) (f : Nat → State → Option State) (what : String) : Except String Sess := do
  let mut sts := s.sts
  for k in List.range s.sts.size do
    match f k (s.sts.getD k default) with
    | some st => sts := sts.set! k st
    | none => throw s!"{what}: not enabled in the model for slot {k} (cpc {repr (s.sts.getD k default).cpc})"
  return { s with sts := sts }

def event (s : Sess) (ev : Ev) : Except String Sess :=
  match ev.site with
  | "start" | "end" => .ok s
  | "cache_read_begin" =>
      match ev.b with
      | some k =>
          if k ≥ s.sts.size then .error "reader of an unknown slot" else
          match step true (s.sts.getD k default) (.rLook ev.tid) with
          | some st => .ok { s with sts := s.sts.set! k st, slotOf := (ev.tid, k) :: s.slotOf }
          | none => .error "rLook not enabled"
      | none => .error "cache_read_begin without slot"
  | "cache_fill_storage" =>
      match s.slotOf.find? (·.1 == ev.tid) with
      | some (_, k) =>
          -- the reader takes this step only after a miss: the model must be at `fetched`
          match (s.sts.getD k default).rpc ev.tid with
          | .fetched _ wk =>
              if ev.b != some (if wk then 1 else 0) then
                .error s!"reader read storage-known = {ev.b} before its fetch, model {wk}"
              else match step true (s.sts.getD k default) (.rInsert ev.tid) with
                | some st => .ok { s with sts := s.sts.set! k st }
                | none => .error "rInsert not enabled"
          | p => .error s!"reader reaches its insert but the model reader is at {repr p} (cache hit in the model)"
      | none => .error "cache_fill_storage of an unknown reader"
  | "cache_commit_begin" =>
      match s.commits[s.next]? with
      | none => .error "more commits than announced"
      | some c =>
          let s := { s with cur := some c, next := s.next + 1 }
          -- a plain update changes the account (status) right after this point, with no hook
          -- before the slot write
          if c.kind == "U" then applyAll s (fun k st => step true st (.cBegin (opFor c k))) "update"
          else .ok s
  | "cache_set_status" =>
      if ev.a != some s.addr then .ok s else
      match s.cur with
      | some c =>
          if c.kind == "D" || c.kind == "C" then
            applyAll s (fun k st => step true st (.cBegin (opFor c k))) "status update"
          else .error s!"status update during a commit announced as {c.kind}"
      | none => .error "status update outside a commit"
  | "cache_clear_storage" =>
      if ev.a != some s.addr then .ok s else
      applyAll s (fun _ st => step true st .cClear) "clear"
  | "cache_write_slots" =>
      if ev.a != some s.addr then .ok s else
      applyAll s (fun _ st => match st.cpc with
        | .pendingWrite _ => step true st .cWrite
        | .idle => some st
        | _ => none) "slot write"
  | other => .error s!"unexpected site {other}"

def replayCache (hd : List String) (lines : List String) : String := Id.run do
  let nums := hd.filterMap String.toNat?
  match nums with
  | addr :: known0 :: dbvs =>
      let mut s : Sess := { addr := addr, sts := (dbvs.map fun d => init d (known0 != 0)).toArray }
      let mut idx := 0
      for line in lines do
        let ws := words line
        match ws with
        | "commit" :: kind :: bk :: vals =>
            s := { s with commits := s.commits ++ [{ kind := kind, bk := bk == "1", vals := vals.map argNat }] }
        | "ev" :: _ =>
            match parseEv ws with
            | none => return s!"diverge {idx} unparsable: {line}"
            | some ev =>
                match event s ev with
                | .ok s' => s := s'
                | .error msg => return s!"diverge {idx} {msg} :: {line.trimAscii.toString}"
        | "final" :: vals =>
            let impl := vals.filterMap String.toNat?
            let model := s.sts.toList.map serve
            if (s.sts.toList.any fun st => st.cpc != .idle) then
              return s!"diverge {idx} a commit is unfinished in the model at the end"
            if impl != model then
              return s!"diverge {idx} served values differ: implementation {impl}, model {model}"
            let logical := s.sts.toList.map (·.logical)
            if model != logical then
              return s!"diverge {idx} model serves {model} but its logical values are {logical}"
        | "rs" :: k :: vals =>
            match k.toNat? with
            | some k =>
                let impl := (vals.filterMap String.toNat?).mergeSort (· ≤ ·)
                let st := s.sts.getD k default
                let readers := (s.slotOf.filter (·.2 == k)).map (·.1)
                if readers.any fun t => match st.rpc t with | .done _ => false | _ => true then
                  return s!"diverge {idx} a reader of slot {k} has not finished in the model"
                let model := (readers.filterMap fun t => match st.rpc t with | .done v => some v | _ => none).mergeSort (· ≤ ·)
                if impl != model then
                  return s!"diverge {idx} readers of slot {k} returned {impl}, model {model}"
            | none => return s!"diverge {idx} bad result line"
        | _ => pure ()
        idx := idx + 1
      return s!"ok {idx}"
  | _ => return "error bad cache header"

end Grevm.Driver.CacheConf
