/-
C15 — validation cursors never lose a pending validation or pass an unexecuted tx.
Property theorems only; the model is `Grevm/Model/Cursor.lean`.
-/
import Grevm.Model.Cursor
import Grevm.Lemmas.Frontier

namespace Grevm.Cursor

/-- Every step either does not increase the cursor, or increases it by exactly one through a
    successful CAS that hands out the old value. -/
theorem step_cursor {s s' : State} {a : Act} {e : Ev} (h : step s a = some (s', e)) :
    s'.cursor ≤ s.cursor ∨ (s'.cursor = s.cursor + 1 ∧ ∃ t l, e = .claimed t s.cursor l) := by
  cases a <;> simp only [step] at h <;> split at h <;> try simp at h
  all_goals first
    | (obtain ⟨rfl, rfl⟩ := h; simp [setPc]; done)
    | (obtain ⟨rfl, rfl, rfl⟩ := h; right; simp [setPc]; done)
    | (obtain ⟨rfl, rfl⟩ := h; left; simp [setPc]; omega)
    | (split at h <;> simp at h <;> obtain ⟨rfl, rfl⟩ := h <;> simp [setPc])

/-- The only event that names a handed-out index is `claimed`. -/
def claims (k : Nat) : Ev → Prop
  | .claimed _ k' _ => k' = k
  | _ => False

/-- **no_skip.** Along any schedule, if the cursor is at or below `k` at one time and above `k`
    later, some claim in between returned exactly `k` — so every index from a rewind target up to
    the previous position is offered again, claims concurrent with the rewind included. -/
theorem no_skip (k : Nat) : ∀ (as : List Act) (s s' : State) (es : List Ev),
    run s as = some (s', es) → s.cursor ≤ k → k < s'.cursor → ∃ e ∈ es, claims k e := by
  intro as
  induction as with
  | nil => intro s s' es h h1 h2; simp [run] at h; obtain ⟨rfl, rfl⟩ := h; omega
  | cons a as ih =>
    intro s s' es h h1 h2
    simp only [run] at h
    split at h
    · simp at h
    · rename_i s1 e hstep
      split at h
      · simp at h
      · rename_i s2 es2 hrun
        simp at h
        obtain ⟨rfl, rfl⟩ := h
        rcases step_cursor hstep with hle | ⟨hinc, t, l, rfl⟩
        · obtain ⟨e', he', hc⟩ := ih s1 s2 es2 hrun (by omega) h2
          exact ⟨e', List.mem_cons_of_mem _ he', hc⟩
        · by_cases hk : s.cursor = k
          · exact ⟨_, List.mem_cons_self, by simp [claims, hk]⟩
          · obtain ⟨e', he', hc⟩ := ih s1 s2 es2 hrun (by omega) h2
            exact ⟨e', List.mem_cons_of_mem _ he', hc⟩

/-- A completed `rewind(v)` leaves the cursor at or below `v` and reports the previous position. -/
theorem rewind_effect {s s' : State} {t : Nat} {e : Ev} (h : step s (.fetchMin t) = some (s', e)) :
    ∃ v, s.pc t = .rewind v ∧ s'.cursor ≤ v ∧ s'.cursor ≤ s.cursor ∧ e = .rewound t v s.cursor := by
  simp only [step] at h
  split at h <;> simp at h
  rename_i v hv
  obtain ⟨rfl, rfl⟩ := h
  refine ⟨v, hv, ?_, ?_, rfl⟩ <;> simp [setPc] <;> omega

/-- **rewound indices are re-offered.** After `rewind(v)` from position `p`, if the cursor ever
    gets back to `p` (or beyond) then every index in `[v, p)` was claimed again after the rewind. -/
theorem rewind_reoffers {s s1 s2 : State} {t v : Nat} {e : Ev} {as : List Act} {es : List Ev}
    (hpc : s.pc t = .rewind v)
    (h : step s (.fetchMin t) = some (s1, e)) (hrun : run s1 as = some (s2, es))
    (hback : s.cursor ≤ s2.cursor) :
    ∀ k, v ≤ k → k < s.cursor → ∃ e' ∈ es, claims k e' := by
  intro k h1 h2
  obtain ⟨v', hv', hle, _, _⟩ := rewind_effect h
  rw [hpc] at hv'
  cases hv'
  exact no_skip k as s1 s2 es hrun (by omega) (by omega)

/-- Thread-local invariant is preserved by every step. -/
theorem inv_step {s s' : State} {a : Act} {e : Ev} (hi : Inv s) (h : step s a = some (s', e)) :
    Inv s' := by
  intro t limit cur hpc
  cases a <;> simp only [step] at h <;> split at h <;> try simp at h
  all_goals first
    | (obtain ⟨rfl, rfl⟩ := h
       simp only [setPc] at hpc
       split at hpc
       · simp at hpc
       · exact hi _ _ _ hpc)
    | (obtain ⟨rfl, rfl, rfl⟩ := h
       simp only [setPc] at hpc
       split at hpc
       · simp at hpc
       · exact hi _ _ _ hpc)
    | (split at h <;> simp at h <;> obtain ⟨rfl, rfl⟩ := h <;> simp only [setPc] at hpc <;>
         split at hpc <;> first
           | (simp at hpc; done)
           | (simp at hpc; obtain ⟨rfl, rfl⟩ := hpc; omega)
           | exact hi _ _ _ hpc)

theorem inv_init (c : Nat) : Inv (init c) := by
  intro t limit cur h; simp [init] at h

theorem inv_run : ∀ (as : List Act) (s s' : State) (es : List Ev),
    Inv s → run s as = some (s', es) → Inv s' := by
  intro as
  induction as with
  | nil => intro s s' es hi h; simp [run] at h; obtain ⟨rfl, rfl⟩ := h; exact hi
  | cons a as ih =>
    intro s s' es hi h
    simp only [run] at h
    split at h
    · simp at h
    · rename_i s1 e hstep
      split at h
      · simp at h
      · rename_i s2 es2 hrun
        simp at h
        obtain ⟨rfl, rfl⟩ := h
        exact ih s1 s2 es2 (inv_step hi hstep) hrun

/-- A claim event carries the limit of the call that produced it and an index below it. -/
def claimBelowLimit : Ev → Prop
  | .claimed _ k limit => k < limit
  | _ => True

theorem step_claim_below_limit {s s' : State} {a : Act} {e : Ev} (hi : Inv s)
    (h : step s a = some (s', e)) : claimBelowLimit e := by
  cases a <;> simp only [step] at h <;> split at h <;> try simp at h
  all_goals first
    | (obtain ⟨rfl, rfl⟩ := h; simp [claimBelowLimit]; done)
    | (rename_i limit cur hpc; obtain ⟨rfl, rfl, rfl⟩ := h
       simpa [claimBelowLimit] using hi _ _ _ hpc)
    | (split at h <;> simp at h <;> obtain ⟨rfl, rfl⟩ := h <;> simp [claimBelowLimit])

/-- **claim_below_limit.** No index at or beyond the caller's limit is ever handed out, for any
    number of threads and any interleaving, from any initial cursor value. -/
theorem claim_below_limit : ∀ (as : List Act) (s s' : State) (es : List Ev),
    Inv s → run s as = some (s', es) → ∀ e ∈ es, claimBelowLimit e := by
  intro as
  induction as with
  | nil => intro s s' es _ h; simp [run] at h; obtain ⟨rfl, rfl⟩ := h; simp
  | cons a as ih =>
    intro s s' es hi h
    simp only [run] at h
    split at h
    · simp at h
    · rename_i s1 e hstep
      split at h
      · simp at h
      · rename_i s2 es2 hrun
        simp at h
        obtain ⟨rfl, rfl⟩ := h
        intro e' he'
        rcases List.mem_cons.mp he' with rfl | hmem
        · exact step_claim_below_limit hi hstep
        · exact ih s1 s2 es2 (inv_step hi hstep) hrun e' hmem

/-- Non-vacuity: a claimer races a rewinder; index 0 and 1 are both re-offered. -/
example :
    (run (init 2) [.callRewind 0 0, .callClaim 1 2, .load 1, .fetchMin 0, .callClaim 1 2, .load 1,
      .casOk 1, .callClaim 1 2, .load 1, .casOk 1]).map (fun r => (r.1.cursor, r.2)) =
    some (2, [.tau, .tau, .claimNone 1 2, .rewound 0 0 2, .tau, .tau, .claimed 1 0 2, .tau, .tau,
      .claimed 1 1 2]) := by decide


/-! ## Execution frontier -/

namespace Frontier

/-- **frontier_sound.** In every state reachable by any interleaving of any number of
    publishers and readers, every index below the frontier has completed an execution. -/
theorem frontier_sound (n : Nat) (as : List Act) (s : State) (es : List Ev)
    (h : run (init n) as = some (s, es)) : ∀ i, i < s.frontier → s.executed i = true :=
  (inv_run as _ _ _ (inv_init n) h).sound

/-- A value returned by `current()` never passes an unexecuted index either. -/
theorem current_sound {s s' : State} {a : Act} {t f : Nat} (hi : Inv s)
    (h : step s a = some (s', .current t f)) : ∀ i, i < f → s.executed i = true := by
  cases a with
  | callPublish t i => simp only [step] at h; split at h <;> simp at h
  | callCurrent t => simp only [step] at h; split at h <;> simp at h
  | stepT u =>
    simp only [step] at h
    have hth := hi.threads u
    split at h <;> try simp at h
    · split at h <;> simp at h
    · split at h <;> simp at h
    · rename_i f' hpc
      rw [hpc] at hth
      split at h <;> simp at h
      obtain ⟨_, _, rfl⟩ := h
      exact hth.1
    · obtain ⟨_, _, rfl⟩ := h
      exact hi.sound
    · rename_i a b r hpc
      split at h
      · simp at h
      · split at h
        · cases r <;> simp [afterAdvance] at h
        · simp at h

/-- **quiescent_exact (catches up regardless of completion order).** Whenever no publisher or
    reader is in flight, the frontier is exactly the first index whose flag is unset. -/
theorem quiescent_exact (n : Nat) (as : List Act) (s : State) (es : List Ev)
    (h : run (init n) as = some (s, es)) (hq : ∀ t, s.pc t = .idle) :
    (∀ i, i < s.frontier → s.executed i = true) ∧
      (s.frontier = s.n ∨ (s.frontier < s.n ∧ s.executed s.frontier = false)) := by
  have hi := inv_run as _ _ _ (inv_init n) h
  refine ⟨hi.sound, ?_⟩
  by_cases hlt : s.frontier < s.n
  · right
    refine ⟨hlt, ?_⟩
    cases hex : s.executed s.frontier with
    | false => rfl
    | true =>
      obtain ⟨t, ht⟩ := hi.progress hlt hex
      simp [Resp, hq t] at ht
  · left; have := hi.le; omega

/-- Non-vacuity: out-of-order completion 1, 0 by two threads; the frontier ends at 2. -/
example :
    (run (init 3) [.callPublish 0 1, .stepT 0, .stepT 0, .stepT 0, .callPublish 1 0, .stepT 1,
      .stepT 1, .stepT 1, .stepT 1, .stepT 1, .stepT 1, .stepT 1, .stepT 1]).map
      (fun r => (r.1.frontier, r.1.pc 0, r.1.pc 1)) = some (2, .idle, .idle) := by decide

end Frontier

end Grevm.Cursor
