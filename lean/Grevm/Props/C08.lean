/-
C08 — in-block account deletion, creation and storage reset are seen correctly.
C09's code part is in `Props/C09.lean`.  Model: `Grevm/Model/Repr.lean`.
-/
import Grevm.Model.Repr

namespace Grevm.Repr

theorem latest_lt {α : Type} (f : Nat → Option α) : ∀ (i j : Nat) (v : α),
    latest f i = some (j, v) → j < i ∧ f j = some v := by
  intro i
  induction i with
  | zero => intro j v h; simp [latest] at h
  | succ i ih =>
    intro j v h
    simp only [latest] at h
    split at h
    · rename_i w hw
      simp at h
      obtain ⟨rfl, rfl⟩ := h
      exact ⟨Nat.lt_succ_self _, hw⟩
    · obtain ⟨h1, h2⟩ := ih j v h
      exact ⟨by omega, h2⟩

/-- The value a storage read returns from the latest reset marker and the latest slot version. -/
def rs (R : Option (Nat × Unit)) (S : Option (Nat × Nat)) (b : Nat) : Nat :=
  match S, R with
  | some (_, v), none => v
  | some (st, v), some (rt, _) => if st ≥ rt then v else 0
  | none, some _ => 0
  | none, none => b

theorem readStorage_eq (mv : Nat → Published) (base : LState) (i a k : Nat) :
    readStorage mv base i a k =
      rs (latest (fun j => if (mv j).reset a then some () else none) i)
         (latest (fun j => (mv j).slot a k) i) (base.stor a k) := rfl

/-- Effect of one account change on one slot of the logical state. -/
def slotAfter (ch : Change) (old k : Nat) : Nat :=
  match ch with
  | .unchanged => old
  | .deleted => 0
  | .created _ slots => (lookupSlot slots k).getD 0
  | .updated _ slots => (lookupSlot slots k).getD old

theorem commitL_stor (s : LState) (a k : Nat) (ch : Change) :
    (commitL s a ch).stor a k = slotAfter ch (s.stor a k) k := by
  cases ch <;> simp [commitL, slotAfter]

theorem latest_succ {α : Type} (f : Nat → Option α) (i : Nat) :
    (f i = none ∧ latest f (i + 1) = latest f i) ∨ (∃ v, f i = some v ∧ latest f (i + 1) = some (i, v)) := by
  cases h : f i with
  | none => left; simp [latest, h]
  | some v => right; exact ⟨v, rfl, by simp [latest, h]⟩

/-- One step of the representation: adding the entries that transaction `i` publishes for an
    account changes the read result exactly as the logical commit changes the slot. -/
theorem rs_step (R R' : Option (Nat × Unit)) (S S' : Option (Nat × Nat)) (i b k : Nat)
    (hR : ∀ r u, R = some (r, u) → r < i) (hS : ∀ st v, S = some (st, v) → st < i)
    (ch : Change) (sb cc : Bool)
    (hR' : ((publishAcct ch sb cc).2.1 = false ∧ R' = R) ∨ ((publishAcct ch sb cc).2.1 = true ∧ R' = some (i, ())))
    (hS' : ((publishAcct ch sb cc).2.2.1 k = none ∧ S' = S) ∨
      (∃ v, (publishAcct ch sb cc).2.2.1 k = some v ∧ S' = some (i, v))) :
    rs R' S' b = slotAfter ch (rs R S b) k := by
  cases ch with
  | unchanged =>
    simp only [publishAcct] at hR' hS'
    rcases hR' with ⟨_, rfl⟩ | ⟨h, _⟩
    · rcases hS' with ⟨_, rfl⟩ | ⟨v, h, _⟩
      · simp [slotAfter]
      · cases h
    · cases h
  | deleted =>
    simp only [publishAcct] at hR' hS'
    rcases hR' with ⟨h, _⟩ | ⟨_, rfl⟩
    · cases h
    · rcases hS' with ⟨_, rfl⟩ | ⟨v, h, _⟩
      · simp only [slotAfter]
        cases S' with
        | none => simp [rs]
        | some p =>
          obtain ⟨st, v⟩ := p
          have := hS st v rfl
          simp only [rs]
          have : ¬ st ≥ i := by omega
          simp [this]
      · cases h
  | created info slots =>
    simp only [publishAcct] at hR' hS'
    rcases hR' with ⟨h, _⟩ | ⟨_, rfl⟩
    · cases h
    · rcases hS' with ⟨hl, rfl⟩ | ⟨v, hl, rfl⟩
      · simp only [slotAfter, hl, Option.getD_none]
        cases S' with
        | none => simp [rs]
        | some p =>
          obtain ⟨st, v⟩ := p
          have := hS st v rfl
          simp only [rs]
          have : ¬ st ≥ i := by omega
          simp [this]
      · simp [slotAfter, hl, rs]
  | updated info slots =>
    simp only [publishAcct] at hR' hS'
    rcases hR' with ⟨_, rfl⟩ | ⟨h, _⟩
    · rcases hS' with ⟨hl, rfl⟩ | ⟨v, hl, rfl⟩
      · simp [slotAfter, hl]
      · simp only [slotAfter, hl, Option.getD_some]
        cases R' with
        | none => simp [rs]
        | some p =>
          obtain ⟨rt, u⟩ := p
          have := hR rt u rfl
          simp only [rs]
          have : i ≥ rt := by omega
          simp [this]
    · cases h

/-- **repr_storage.** For every block (any sequence of finalized journal states), every reader
    position `i`, address and slot: the storage read through the multi-version representation —
    newest of (reset marker, slot version), the reset masking older slots and the backing store,
    the creating transaction's own slots winning the `>=` tie — equals the slot of the logical
    state that in-order execution has after committing transactions `0..i-1`. -/
theorem repr_storage (base : LState) (txs : Nat → TxChanges) (skipBasic codeChanged : Nat → Nat → Bool) :
    ∀ (i a k : Nat),
      readStorage (mvOf txs skipBasic codeChanged) base i a k = (logical base txs i).stor a k := by
  intro i
  induction i with
  | zero => intro a k; simp [readStorage, latest, logical]
  | succ i ih =>
    intro a k
    have ihak := ih a k
    rw [readStorage_eq] at ihak ⊢
    simp only [logical, commitTx]
    rw [commitL_stor, ← ihak]
    apply rs_step _ _ _ _ i _ k (fun r u h => (latest_lt _ i r u h).1)
      (fun st v h => (latest_lt _ i st v h).1) (txs i a) (skipBasic i a) (codeChanged i a)
    · rcases latest_succ (fun j => if (mvOf txs skipBasic codeChanged j).reset a then some () else none) i
        with ⟨h1, h2⟩ | ⟨v, h1, h2⟩
      · left
        refine ⟨?_, h2⟩
        simp only [mvOf, publishTx] at h1
        cases hb : (publishAcct (txs i a) (skipBasic i a) (codeChanged i a)).2.1 <;> simp_all
      · right
        refine ⟨?_, h2⟩
        simp only [mvOf, publishTx] at h1
        cases hb : (publishAcct (txs i a) (skipBasic i a) (codeChanged i a)).2.1 <;> simp_all
    · rcases latest_succ (fun j => (mvOf txs skipBasic codeChanged j).slot a k) i
        with ⟨h1, h2⟩ | ⟨v, h1, h2⟩
      · left; exact ⟨h1, h2⟩
      · right; exact ⟨v, h1, h2⟩

/-- Well-formedness of the "skip the Basic publication" decision: it is taken only when the
    account the transaction read (the in-order pre-state, by validation) has the same fields and
    code as its post-state. -/
def SkipOk (base : LState) (txs : Nat → TxChanges) (skipBasic codeChanged : Nat → Nat → Bool) : Prop :=
  ∀ j a info slots, skipBasic j a = true → codeChanged j a = false →
    (txs j a = .created info slots ∨ txs j a = .updated info slots) →
    (logical base txs j).acct a = some info

def acctAfter (ch : Change) (old : Option Info) : Option Info :=
  match ch with
  | .unchanged => old
  | .deleted => none
  | .created info _ => some info
  | .updated info _ => some info

theorem commitL_acct (s : LState) (a : Nat) (ch : Change) :
    (commitL s a ch).acct a = acctAfter ch (s.acct a) := by
  cases ch <;> simp [commitL, acctAfter]

/-- **repr_basic.** The account read through the representation equals the logical account —
    in particular `none` after a deletion and the created info after a (re-)creation. -/
theorem repr_basic (base : LState) (txs : Nat → TxChanges) (skipBasic codeChanged : Nat → Nat → Bool)
    (hskip : SkipOk base txs skipBasic codeChanged) :
    ∀ (i a : Nat), readBasic (mvOf txs skipBasic codeChanged) base i a = (logical base txs i).acct a := by
  intro i
  induction i with
  | zero => intro a; simp [readBasic, latest, logical]
  | succ i ih =>
    intro a
    have iha := ih a
    simp only [readBasic] at iha ⊢
    simp only [logical, commitTx]
    rw [commitL_acct]
    have hsk := hskip i a
    rcases latest_succ (fun j => (mvOf txs skipBasic codeChanged j).basic a) i with ⟨h1, h2⟩ | ⟨v, h1, h2⟩
    · rw [h2]
      simp only [mvOf, publishTx] at h1
      cases hc : txs i a with
      | unchanged => simp only [acctAfter]; exact iha
      | deleted => simp [hc, publishAcct] at h1
      | created info slots =>
        simp only [hc, publishAcct] at h1
        have hs' : skipBasic i a = true := by
          cases h3 : skipBasic i a <;> simp_all
        have hc' : codeChanged i a = false := by
          cases h3 : codeChanged i a <;> simp_all
        simp only [acctAfter]
        rw [← hsk info slots hs' hc' (Or.inl hc)]; exact iha
      | updated info slots =>
        simp only [hc, publishAcct] at h1
        have hs' : skipBasic i a = true := by
          cases h3 : skipBasic i a <;> simp_all
        have hc' : codeChanged i a = false := by
          cases h3 : codeChanged i a <;> simp_all
        simp only [acctAfter]
        rw [← hsk info slots hs' hc' (Or.inr hc)]; exact iha
    · rw [h2]
      simp only [mvOf, publishTx] at h1
      cases hc : txs i a with
      | unchanged => simp [hc, publishAcct] at h1
      | deleted => simp [hc, publishAcct] at h1; simp [acctAfter, h1]
      | created info slots =>
        simp only [hc, publishAcct] at h1
        split at h1 <;> simp at h1
        simp [acctAfter, h1]
      | updated info slots =>
        simp only [hc, publishAcct] at h1
        split at h1 <;> simp at h1
        simp [acctAfter, h1]

/-- The one fact about revm the skip relies on: code never goes from non-empty to empty while nonce
    and balance both stay the same (SELFDESTRUCT deletes the account; clearing an EIP-7702
    delegation bumps the authority nonce). Monitored by the differential runs. -/
def ClearBumps (base : LState) (txs : Nat → TxChanges) : Prop :=
  ∀ j a info pre, (txs j a).info? = some info → (logical base txs j).acct a = some pre →
    pre.fields = info.fields → info.code = 0 → pre.code = 0

theorem skipOk_real (base : LState) (txs : Nat → TxChanges) (h : ClearBumps base txs) :
    SkipOk base txs (skipReal base txs) (codeChangedReal base txs) := by
  intro j a info slots hs hc hch
  have hinfo : (txs j a).info? = some info := by
    rcases hch with h1 | h1 <;> simp [h1, Change.info?]
  simp only [skipReal, hinfo] at hs
  simp only [codeChangedReal, hinfo] at hc
  cases hp : (logical base txs j).acct a with
  | none => simp [hp] at hs
  | some pre =>
    simp only [hp, beq_iff_eq] at hs
    simp only [hp, Bool.and_eq_false_iff, bne_eq_false_iff_eq] at hc
    have hcode : pre.code = info.code := by
      rcases hc with hc | hc
      · rw [hc]; exact h j a info pre hinfo hp hs hc
      · exact hc
    cases pre; cases info; simp_all

/-- **repr_basic for the decisions the code makes** — no hypothesis on the publication left. -/
theorem repr_basic_real (base : LState) (txs : Nat → TxChanges) (h : ClearBumps base txs) (i a : Nat) :
    readBasic (mvOf txs (skipReal base txs) (codeChangedReal base txs)) base i a
      = (logical base txs i).acct a :=
  repr_basic base txs _ _ (skipOk_real base txs h) i a

/-! ### The cases spelled out -/

/-- After a transaction deletes an account (SELFDESTRUCT or EIP-161 empty-touch), the next reader
    sees no account and zero in every slot, whatever the backing store holds. -/
theorem deleted_then_zero (base : LState) (txs : Nat → TxChanges) (sb cc : Nat → Nat → Bool)
    (i a k : Nat) (h : txs i a = .deleted) :
    readStorage (mvOf txs sb cc) base (i + 1) a k = 0 := by
  rw [repr_storage]; simp [logical, commitTx, h, commitL]

/-- After a (re-)creation the next reader sees exactly the slots written by the creating
    transaction and zero elsewhere. -/
theorem created_then_only_own_slots (base : LState) (txs : Nat → TxChanges) (sb cc : Nat → Nat → Bool)
    (i a k : Nat) (info : Info) (slots : List (Nat × Nat)) (h : txs i a = .created info slots) :
    readStorage (mvOf txs sb cc) base (i + 1) a k = (lookupSlot slots k).getD 0 := by
  rw [repr_storage]; simp [logical, commitTx, h, commitL]

/-- An update that revm does not report as a destruction (e.g. post-Cancun SELFDESTRUCT of a
    pre-existing contract) keeps every untouched slot. -/
theorem updated_keeps_storage (base : LState) (txs : Nat → TxChanges) (sb cc : Nat → Nat → Bool)
    (i a k : Nat) (info : Info) (slots : List (Nat × Nat)) (h : txs i a = .updated info slots)
    (hk : lookupSlot slots k = none) :
    readStorage (mvOf txs sb cc) base (i + 1) a k = readStorage (mvOf txs sb cc) base i a k := by
  rw [repr_storage, repr_storage]; simp [logical, commitTx, h, commitL, hk]

/-- `FinalizedAccount::from`: untouched ⇒ unchanged; self-destructed wins over created; an empty
    touched account that is not created is deleted. -/
theorem classify_spec (t s c e : Bool) :
    classify t s c e =
      if t = false then 0 else if s = true then 1 else if c = true then 2 else if e = true then 1 else 3 := by
  cases t <;> cases s <;> cases c <;> cases e <;> rfl

/-- Non-vacuity: slot 0 = 42 in the backing store; tx 0 destroys, tx 1 re-creates writing slot 1,
    tx 2 updates slot 0. -/
example :
    let base : LState := { acct := fun _ => some ⟨1, 7⟩, stor := fun _ k => if k = 0 then 42 else 0 }
    let txs : Nat → TxChanges := fun j a =>
      if a ≠ 5 then .unchanged
      else if j = 0 then .deleted
      else if j = 1 then .created ⟨2, 8⟩ [(1, 9)]
      else if j = 2 then .updated ⟨3, 8⟩ [(0, 11)]
      else .unchanged
    let mv := mvOf txs (fun _ _ => false) (fun _ _ => false)
    (readStorage mv base 0 5 0, readStorage mv base 1 5 0, readStorage mv base 2 5 1,
      readStorage mv base 2 5 0, readStorage mv base 3 5 0, readStorage mv base 3 5 1) =
      (42, 0, 9, 0, 11, 9) := by decide

/-- **reset_marker_needed** (necessity; the shape of seeded change C08e, which drops the marker
    when the account is the fee recipient).  tx 0 writes slot 1 := 7, tx 1 destroys the account,
    tx 2 re-creates it with a constructor that writes only slot 0.  With the StorageReset markers
    a later read of slot 1 sees 0, as the logical state does; with the markers withheld it sees
    the value written before the destruction. -/
theorem reset_marker_needed :
    let base : LState := { acct := fun _ => some ⟨1, 7⟩, stor := fun _ _ => 0 }
    let txs : Nat → TxChanges := fun j a =>
      if a ≠ 5 then .unchanged
      else if j = 0 then .updated ⟨1, 7⟩ [(1, 7)]
      else if j = 1 then .deleted
      else if j = 2 then .created ⟨2, 8⟩ [(0, 3)]
      else .unchanged
    let mv := mvOf txs (fun _ _ => false) (fun _ _ => false)
    let mvNoReset : Nat → Published := fun j => { mv j with reset := fun _ => false }
    (logical base txs 3).stor 5 1 = 0 ∧
    readStorage mv base 3 5 1 = 0 ∧
    readStorage mvNoReset base 3 5 1 = 7 := by
  decide

end Grevm.Repr
