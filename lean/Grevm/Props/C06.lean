/-
C06 — results do not depend on worker count, thresholds, sequential mode or timing.
Model: `Grevm/Model/Commit.lean` (`pathSelect`); the two paths are tied to one in-order semantics by
the pipeline theorem (C01/C02) and the replay theorems (C03/C04).
-/
import Grevm.Model.Commit

namespace Grevm.Commit

/-- **path_select.** The sequential path is taken iff it is forced or the block is smaller than
    the threshold — a function of the configuration and the block size only. -/
theorem path_select (force : Bool) (n min : Nat) :
    pathSelect force n min = .sequential ↔ (force = true ∨ n < min) := by
  unfold pathSelect
  split <;> simp_all

/-- An abstract execution: whichever path is selected, and whatever number of workers and schedule
    the parallel path uses, the result is what that path computes. -/
def execute (force : Bool) (n min : Nat) (parallelResult sequentialResult : α) : α :=
  match pathSelect force n min with
  | .sequential => sequentialResult
  | .parallel => parallelResult

/-- **config_independent.** Given that the parallel path (any workers, any schedule) and the
    sequential replay both yield the in-order result — the conclusions of the pipeline theorem and
    of `replay_no_error` / `replay_error_prefix` — any two configurations agree. -/
theorem config_independent {α : Type} (inOrder : α) (f1 f2 : Bool) (n m1 m2 : Nat) (p1 p2 s1 s2 : α)
    (hp1 : p1 = inOrder) (hp2 : p2 = inOrder) (hs1 : s1 = inOrder) (hs2 : s2 = inOrder) :
    execute f1 n m1 p1 s1 = execute f2 n m2 p2 s2 := by
  subst hp1 hp2 hs1 hs2
  unfold execute
  cases pathSelect f1 n m1 <;> cases pathSelect f2 n m2 <;> rfl

example : pathSelect false 3 0 = .parallel ∧ pathSelect false 3 4 = .sequential ∧
    pathSelect true 100 0 = .sequential := by decide

end Grevm.Commit
