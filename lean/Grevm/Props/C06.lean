/-
C06 — results do not depend on worker count, thresholds, sequential mode or timing.
Model: `Grevm/Model/Commit.lean` (`pathSelect`); the two paths are tied to one in-order semantics by
the pipeline theorem (C01/C02) and the replay theorems (C03/C04).
-/
import Grevm.Model.Commit

namespace Grevm.Commit

/-- **path_select.** The sequential path is taken iff it is forced or the block is smaller than
    the threshold — a function of the configuration and the block size only. -/
theorem path_select (force : Bool) (n min : Nat) :
    pathSelect force n min = .sequential ↔ (force = true ∨ n < min) := by
  unfold pathSelect
  split <;> simp_all

/-- An abstract execution: whichever path is selected, and whatever number of workers and schedule
    the parallel path uses, the result is what that path computes. -/
def execute (force : Bool) (n min : Nat) (parallelResult sequentialResult : α) : α :=
  match pathSelect force n min with
  | .sequential => sequentialResult
  | .parallel => parallelResult

/-- **config_independent.** Given that the parallel path (any workers, any schedule) and the
    sequential replay both yield the in-order result — the conclusions of the pipeline theorem and
    of `replay_no_error` / `replay_error_prefix` — any two configurations agree. -/
theorem config_independent {α : Type} (inOrder : α) (f1 f2 : Bool) (n m1 m2 : Nat) (p1 p2 s1 s2 : α)
    (hp1 : p1 = inOrder) (hp2 : p2 = inOrder) (hs1 : s1 = inOrder) (hs2 : s2 = inOrder) :
    execute f1 n m1 p1 s1 = execute f2 n m2 p2 s2 := by
  subst hp1 hp2 hs1 hs2
  unfold execute
  cases pathSelect f1 n m1 <;> cases pathSelect f2 n m2 <;> rfl

/-- **replay_append.** Replaying `xs ++ ys` when `xs` replays without a fatal error is the replay
    of `xs` followed by the replay of `ys`, the error position shifted by `xs.length`: the
    committed prefix of a parallel run followed by the sequential replay of the suffix is the
    sequential replay of the whole block, and an error in the suffix is reported at its GLOBAL
    index. -/
theorem replay_append (xs ys : List TxRes) (h : (replay xs).2 = none) :
    replay (xs ++ ys) =
      ((replay xs).1 ++ (replay ys).1, (replay ys).2.map fun p => (p.1 + xs.length, p.2)) := by
  induction xs with
  | nil => cases hr : (replay ys).2 <;> simp [replay, hr, Prod.ext_iff]
  | cons x rest ih =>
    cases x with
    | ok r =>
      simp only [replay, Option.map_eq_none_iff] at h
      simp only [List.cons_append, replay, ih h, List.length_cons]
      cases hr : (replay ys).2 <;> simp [Nat.add_assoc]
    | invalid reason =>
      simp only [replay, Option.map_eq_none_iff] at h
      simp only [List.cons_append, replay, ih h, List.length_cons]
      cases hr : (replay ys).2 <;> simp [Nat.add_assoc]
    | fatal e => simp [replay] at h

/-- The outcomes of a fault-free replay are one per transaction. -/
theorem replay_length (xs : List TxRes) (h : (replay xs).2 = none) : (replay xs).1.length = xs.length := by
  induction xs with
  | nil => simp [replay]
  | cons x rest ih =>
    cases x with
    | ok r => simp only [replay, Option.map_eq_none_iff] at h; simp [replay, ih h]
    | invalid reason => simp only [replay, Option.map_eq_none_iff] at h; simp [replay, ih h]
    | fatal e => simp [replay] at h

/-- **suffix_replay_is_sequential.** A parallel run that committed the first `k` transactions
    (their in-order outcomes, C02) and then replays the suffix sequentially yields exactly what the
    purely sequential path yields for the whole block — outcomes and error index alike. -/
theorem suffix_replay_is_sequential (block : List TxRes) (k : Nat)
    (hpre : (replay (block.take k)).2 = none) :
    ((replay (block.take k)).1 ++ (replay (block.drop k)).1,
      (replay (block.drop k)).2.map fun p => (p.1 + (block.take k).length, p.2)) = replay block := by
  have := replay_append (block.take k) (block.drop k) hpre
  rw [List.take_append_drop] at this
  exact this.symm

example : replay [.ok 1, .invalid 2, .ok 3, .fatal 9, .ok 4] = ([.executed 1, .skipped 2, .executed 3], some (3, 9)) := by
  decide

example : pathSelect false 3 0 = .parallel ∧ pathSelect false 3 4 = .sequential ∧
    pathSelect true 100 0 = .sequential := by decide

end Grevm.Commit
