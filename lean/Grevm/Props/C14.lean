/-
C14 — a scheduler executes its block at most once.  Model: `Grevm/Model/RunOnce.lean`.
-/
import Grevm.Model.RunOnce

namespace Grevm.RunOnce

structure Inv (s : State) : Prop where
  wins_started : s.wins = if s.started then 1 else 0
  applied_le : s.applied ≤ s.wins
  running_unique : ∀ t u, s.pc t = .running → s.pc u = .running → t = u
  running_pending : ∀ t, s.pc t = .running → s.applied = 0 ∧ s.started = true
  ok_applied : ∀ t, s.pc t = .returnedOk → s.applied = 1
  err_started : ∀ t, s.pc t = .returnedErr → s.started = true

theorem inv_init : Inv init := by
  refine ⟨by simp [init], by simp [init], ?_, ?_, ?_, ?_⟩ <;> intro t <;> simp [init]

theorem setPc_eq {s : State} {t u : Nat} {p q : Pc} (h : (setPc s t p).pc u = q) :
    (u = t ∧ p = q) ∨ (u ≠ t ∧ s.pc u = q) := by
  simp only [setPc] at h
  split at h
  · exact Or.inl ⟨by assumption, h⟩
  · exact Or.inr ⟨by assumption, h⟩

@[simp] theorem setPc_started (s : State) (t : Nat) (p : Pc) : (setPc s t p).started = s.started := rfl
@[simp] theorem setPc_applied (s : State) (t : Nat) (p : Pc) : (setPc s t p).applied = s.applied := rfl
@[simp] theorem setPc_wins (s : State) (t : Nat) (p : Pc) : (setPc s t p).wins = s.wins := rfl

/-- Moving one thread to a state that is neither running nor returned keeps the invariant. -/
theorem inv_setPc_neutral {s : State} (hi : Inv s) (t : Nat) (p : Pc)
    (h1 : p ≠ .running) (h2 : p ≠ .returnedOk) (h3 : p ≠ .returnedErr) : Inv (setPc s t p) := by
  refine ⟨hi.wins_started, hi.applied_le, ?_, ?_, ?_, ?_⟩
  · intro a b ha hb
    rcases setPc_eq ha with ⟨_, h⟩ | ⟨_, ha'⟩
    · exact absurd h h1
    · rcases setPc_eq hb with ⟨_, h⟩ | ⟨_, hb'⟩
      · exact absurd h h1
      · exact hi.running_unique a b ha' hb'
  · intro a ha
    rcases setPc_eq ha with ⟨_, h⟩ | ⟨_, ha'⟩
    · exact absurd h h1
    · exact hi.running_pending a ha'
  · intro a ha
    rcases setPc_eq ha with ⟨_, h⟩ | ⟨_, ha'⟩
    · exact absurd h h2
    · exact hi.ok_applied a ha'
  · intro a ha
    rcases setPc_eq ha with ⟨_, h⟩ | ⟨_, ha'⟩
    · exact absurd h h3
    · exact hi.err_started a ha'

theorem inv_step {s s' : State} {a : Act} (hi : Inv s) (h : step s a = some s') : Inv s' := by
  cases a with
  | call t =>
    cases hpc : s.pc t <;> simp [step, hpc] at h <;> subst h <;>
      exact inv_setPc_neutral hi t .electing (by simp) (by simp) (by simp)
  | cas t =>
    cases hpc : s.pc t <;> simp [step, hpc] at h
    split at h <;> simp at h <;> subst h
    · rename_i hs
      refine ⟨hi.wins_started, hi.applied_le, ?_, ?_, ?_, ?_⟩
      · intro a b ha hb
        rcases setPc_eq ha with ⟨_, h⟩ | ⟨_, ha'⟩
        · cases h
        · rcases setPc_eq hb with ⟨_, h⟩ | ⟨_, hb'⟩
          · cases h
          · exact hi.running_unique a b ha' hb'
      · intro a ha
        rcases setPc_eq ha with ⟨_, h⟩ | ⟨_, ha'⟩
        · cases h
        · exact hi.running_pending a ha'
      · intro a ha
        rcases setPc_eq ha with ⟨_, h⟩ | ⟨_, ha'⟩
        · cases h
        · exact hi.ok_applied a ha'
      · intro a ha
        rcases setPc_eq ha with ⟨_, _⟩ | ⟨_, ha'⟩
        · exact hs
        · exact hi.err_started a ha'
    · rename_i hs
      have hs' : s.started = false := by simpa using hs
      have hw : s.wins = 0 := by simpa [hs'] using hi.wins_started
      have ha0 : s.applied = 0 := by have := hi.applied_le; omega
      have hnorun : ∀ u, s.pc u ≠ .running := by
        intro u hu; have := (hi.running_pending u hu).2; simp [hs'] at this
      refine ⟨by simp [hw], by simp [ha0], ?_, ?_, ?_, ?_⟩
      · intro a b ha hb
        rcases setPc_eq ha with ⟨rfl, _⟩ | ⟨_, ha'⟩
        · rcases setPc_eq hb with ⟨rfl, _⟩ | ⟨_, hb'⟩
          · rfl
          · exact absurd hb' (hnorun b)
        · exact absurd ha' (hnorun a)
      · intro a _; simp [ha0]
      · intro a ha
        rcases setPc_eq ha with ⟨_, h⟩ | ⟨_, ha'⟩
        · cases h
        · have := hi.ok_applied a ha'
          omega
      · intro a _; simp
  | body t =>
    cases hrun : s.pc t <;> simp [step, hrun] at h
    subst h
    obtain ⟨ha0, hst⟩ := hi.running_pending t hrun
    have hw : s.wins = 1 := by simpa [hst] using hi.wins_started
    refine ⟨hi.wins_started, by simp [ha0, hw], ?_, ?_, ?_, ?_⟩
    · intro a b ha hb
      rcases setPc_eq ha with ⟨_, h⟩ | ⟨_, ha'⟩
      · cases h
      · rcases setPc_eq hb with ⟨_, h⟩ | ⟨_, hb'⟩
        · cases h
        · exact hi.running_unique a b ha' hb'
    · intro a ha
      rcases setPc_eq ha with ⟨_, h⟩ | ⟨hne, ha'⟩
      · cases h
      · exact absurd (hi.running_unique a t ha' hrun) hne
    · intro a _; simp [ha0]
    · intro a ha
      rcases setPc_eq ha with ⟨_, h⟩ | ⟨_, ha'⟩
      · cases h
      · simpa using hi.err_started a ha'

theorem inv_run : ∀ (as : List Act) (s s' : State), Inv s → run s as = some s' → Inv s' := by
  intro as
  induction as with
  | nil => intro s s' hi h; simp [run] at h; subst h; exact hi
  | cons a as ih =>
    intro s s' hi h
    simp only [run] at h
    split at h
    · simp at h
    · rename_i s1 hstep
      exact ih s1 s' (inv_step hi hstep) h

/-- **one_winner.** Among any number of concurrent or successive calls of the public entry
    points, in any interleaving, the block body is applied at most once, and at most one caller
    is ever inside it. -/
theorem one_winner (as : List Act) (s : State) (h : run init as = some s) :
    s.applied ≤ 1 ∧ s.wins ≤ 1 ∧ ∀ t u, s.pc t = .running → s.pc u = .running → t = u := by
  have hi := inv_run as _ _ inv_init h
  have hw : s.wins ≤ 1 := by rw [hi.wins_started]; split <;> omega
  exact ⟨Nat.le_trans hi.applied_le hw, hw, hi.running_unique⟩

/-- **exactly one.** As soon as any call has returned, exactly one election has been won; a
    call that returned `Ok` is the one whose body was applied. -/
theorem returned_implies_one_winner (as : List Act) (s : State) (h : run init as = some s)
    (t : Nat) (hret : s.pc t = .returnedOk ∨ s.pc t = .returnedErr) : s.wins = 1 := by
  have hi := inv_run as _ _ inv_init h
  rcases hret with hok | herr
  · have := hi.ok_applied t hok
    have hw : s.wins ≤ 1 := by rw [hi.wins_started]; split <;> omega
    have := hi.applied_le
    omega
  · have := hi.err_started t herr
    simpa [this] using hi.wins_started

/-- **losers_touch_nothing.** The step taken by a caller that loses the election changes neither
    `applied` nor the flag. -/
theorem losers_touch_nothing {s s' : State} {t : Nat} (h : step s (.cas t) = some s')
    (hlost : s'.pc t = .returnedErr) : s'.applied = s.applied ∧ s'.started = s.started := by
  cases hpc : s.pc t <;> simp [step, hpc] at h
  split at h <;> simp at h <;> subst h
  · exact ⟨rfl, rfl⟩
  · simp [setPc] at hlost

/-- **untouched_before_execute.** Before any election nothing has been applied. -/
theorem untouched_before_execute (as : List Act) (s : State) (h : run init as = some s)
    (hs : s.started = false) : s.applied = 0 := by
  have hi := inv_run as _ _ inv_init h
  have hw : s.wins = 0 := by simpa [hs] using hi.wins_started
  have := hi.applied_le
  omega

/-- Non-vacuity: three callers race; one runs the block, two get the error. -/
example : (run init [.call 0, .call 1, .call 2, .cas 1, .cas 0, .body 1, .cas 2]).map
    (fun s => (s.applied, s.pc 0, s.pc 1, s.pc 2)) =
    some (1, .returnedErr, .returnedOk, .returnedErr) := by decide

/-! ### why the election must be ONE read-modify-write (the shape of seeded change C14g) -/

/-- The election split into a load and a later store (`if started.load() { err } else
    { started.store(true) }`): a caller that has loaded `false` stores and runs regardless of what
    happened in between. -/
inductive SplitAct where
  | call (t : Nat)
  | load (t : Nat)
  | store (t : Nat)
  | body (t : Nat)
  deriving DecidableEq, Repr

structure SplitState where
  base : State
  /-- callers that have loaded `false` and not yet stored -/
  sawFalse : Nat → Bool

def splitStep (s : SplitState) : SplitAct → Option SplitState
  | .call t => (step s.base (.call t)).map fun b => { s with base := b }
  | .load t => match s.base.pc t with
      | .electing =>
          if s.sawFalse t then none
          else if s.base.started then some { s with base := setPc s.base t .returnedErr }
          else some { s with sawFalse := fun u => if u = t then true else s.sawFalse u }
      | _ => none
  | .store t => match s.base.pc t with
      | .electing =>
          if s.sawFalse t then
            some { base := setPc { s.base with started := true, wins := s.base.wins + 1 } t .running,
                   sawFalse := fun u => if u = t then false else s.sawFalse u }
          else none
      | _ => none
  | .body t => (step s.base (.body t)).map fun b => { s with base := b }

def splitRun (s : SplitState) : List SplitAct → Option SplitState
  | [] => some s
  | a :: as => match splitStep s a with
    | none => none
    | some s' => splitRun s' as

/-- **split_election_elects_two.** With the load and the store as two steps, two callers that
    both load before either stores are both elected and the block is applied twice — the
    interleaving the tight-race phase of the `once` harness produces on the real code. -/
theorem split_election_elects_two :
    (splitRun ⟨init, fun _ => false⟩
      [.call 0, .call 1, .load 0, .load 1, .store 0, .store 1, .body 0, .body 1]).map
      (fun s => (s.base.wins, s.base.applied, s.base.pc 0, s.base.pc 1)) =
    some (2, 2, .returnedOk, .returnedOk) := by decide

/-- …while successive calls are still refused, which is why tests that call one after another
    cannot see it. -/
theorem split_election_sequential_ok :
    (splitRun ⟨init, fun _ => false⟩
      [.call 0, .load 0, .store 0, .body 0, .call 1, .load 1]).map
      (fun s => (s.base.wins, s.base.applied, s.base.pc 0, s.base.pc 1)) =
    some (1, 1, .returnedOk, .returnedErr) := by decide

end Grevm.RunOnce
