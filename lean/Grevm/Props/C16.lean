/-
C16 — a blocked transaction is always re-offered once its blocker resolves.
Model: `Grevm/Model/TxDep.lean`.
-/
import Grevm.Model.TxDep
import Grevm.Lemmas.TxDepStep
import Grevm.Lemmas.TxDepInv
import Grevm.Lemmas.TxDepEdge
import Grevm.Lemmas.TxDepClaim
import Grevm.Lemmas.TxDepHandoff

namespace Grevm.TxDep

/-- **single_claim (step form).** A step in which `next()` hands out `i` finds `i` on board with
    no blocker and takes it off board in the same lock-protected step: between two
    `onboard := true` at most one claimer gets the transaction. -/
theorem next_claim_takes_offboard {s s' : State} {t i pick : Nat}
    (hpc : s.pc t = .nextLock i) (h : step s (.stepT t pick) = some (s', some (some i))) :
    s.onboard i = true ∧ s.dependency i = none ∧ s'.onboard i = false := by
  simp only [step, hpc] at h
  split at h
  · simp at h
  · split at h
    · rename_i hc
      simp at h
      obtain ⟨rfl, _⟩ := h
      exact ⟨hc.1, hc.2, by simp [setPc, upd]⟩
    · simp at h

/-- Non-vacuity / regression: the stale-reverse-edge scenario of the repo's unit test, run on
    the model: tx 2 re-pointed from blocker 0 to blocker 1 is not released by `remove(0)`. -/
example :
    (run (init 3)
      [.call 0 .next, .stepT 0 0, .stepT 0 0, .stepT 0 0,
       .call 0 .next, .stepT 0 0, .stepT 0 0, .stepT 0 0,
       .call 0 .next, .stepT 0 0, .stepT 0 0, .stepT 0 0,
       .call 0 (.add 2 (some 0)), .stepT 0 0, .stepT 0 0, .stepT 0 0, .stepT 0 0,
       .call 0 (.add 2 (some 1)), .stepT 0 0, .stepT 0 0, .stepT 0 0, .stepT 0 0,
       .call 0 (.remove 0 false), .stepT 0 0, .stepT 0 2]).map
      (fun r => (r.1.dependency 2, r.1.onboard 2, r.1.index)) = some (some 1, true, 0) := by
  decide

/-! ## 1. lock_owner -/

/-- **lock_owner.** In every reachable state a record mutex / edge-set mutex is held by thread
    `t` exactly when `t`'s control point lies inside the corresponding critical section. -/
theorem lock_owner {n : Nat} {s : State} (h : Reachable n s) :
    (∀ i t, s.depLock i = some t ↔ HoldsDep (s.pc t) i) ∧
    (∀ d t, s.affLock d = some t ↔ HoldsAff (s.pc t) d) :=
  lockInv_reachable h

/-- Mutual exclusion on every record mutex. -/
theorem dep_mutex {n : Nat} {s : State} (h : Reachable n s) {i : Nat} {t u : Tid}
    (ht : HoldsDep (s.pc t) i) (hu : HoldsDep (s.pc u) i) : t = u := by
  have h1 := ((lock_owner h).1 i t).2 ht
  have h2 := ((lock_owner h).1 i u).2 hu
  rw [h1] at h2; exact Option.some.inj h2

/-- Mutual exclusion on every reverse-edge-set mutex. -/
theorem aff_mutex {n : Nat} {s : State} (h : Reachable n s) {d : Nat} {t u : Tid}
    (ht : HoldsAff (s.pc t) d) (hu : HoldsAff (s.pc u) d) : t = u := by
  have h1 := ((lock_owner h).2 d t).2 ht
  have h2 := ((lock_owner h).2 d u).2 hu
  rw [h1] at h2; exact Option.some.inj h2

/-- A free mutex means nobody is inside the critical section. -/
theorem lock_free_no_holder {n : Nat} {s : State} (h : Reachable n s) :
    (∀ i, s.depLock i = none → ∀ t, ¬ HoldsDep (s.pc t) i) ∧
    (∀ d, s.affLock d = none → ∀ t, ¬ HoldsAff (s.pc t) d) := by
  constructor
  · intro i hi t ht; have := ((lock_owner h).1 i t).2 ht; simp [hi] at this
  · intro d hd t ht; have := ((lock_owner h).2 d t).2 ht; simp [hd] at this

/-! ## 2. edge_covered -/

/-- **edge_covered.** In EVERY reachable state (no exception for a running `remove`), a forward
    edge `dependency[t] = some d` to another transaction has its reverse edge `t ∈ affect[d]`.
    (`d ≠ t` is needed: `key_tx` writes the self-edge `dependency[t] = some t` without a reverse
    edge, see the example below.) -/
theorem edge_covered {n : Nat} {s : State} (h : Reachable n s) {t d : Nat}
    (hdep : s.dependency t = some d) (hne : d ≠ t) : t ∈ s.affect d :=
  (edgeInv_reachable h).2.1 t d hdep hne

/-- Auxiliary half of the inductive invariant: the elements a running `remove(d)` has already
    processed no longer name `d` as their blocker (unless it is the self-edge of `d`). -/
theorem remove_seen_clear {n : Nat} {s : State} (h : Reachable n s) {u : Tid} {d : Nat}
    {seen : List Nat} (hu : rmOf (s.pc u) = some (d, seen)) {x : Nat} (hx : x ∈ seen)
    (hdep : s.dependency x = some d) : x = d :=
  (edgeInv_reachable h).2.2 u d seen hu x hx hdep

/-- Quiescent corollary of `edge_covered`. -/
theorem edge_covered_quiescent {n : Nat} {s : State} (h : Reachable n s)
    (_hq : ∀ u, s.pc u = .idle) {t d : Nat} (hdep : s.dependency t = some d) (hne : d ≠ t) :
    t ∈ s.affect d :=
  edge_covered h hdep hne

/-- The side condition `d ≠ t` of `edge_covered` cannot be dropped: `key_tx(1)` before tx 0 is
    committed writes the self-edge `dependency[1] = some 1` and no reverse edge. -/
example :
    (run (init 2) [.call 0 (.keyTx 1), .stepT 0 0, .stepT 0 0]).map
      (fun r => (r.1.dependency 1, r.1.affect 1)) = some (some 1, []) := by
  decide

/-! ## 3. stale_edge_harmless -/

/-- **stale_edge_harmless.** One iteration step of `remove(d)` on the listed element `tx`
    changes a `dependency` entry only if it is `tx`'s and it still named `d` (then it becomes
    `none`); a stale reverse edge (`dependency[tx] ≠ some d`) therefore changes nothing: neither
    `dependency`, nor `onboard`, nor the cursor. -/
theorem stale_edge_harmless {s s' : State} {t : Tid} {d tx : Nat} {pop : Bool} {seen : List Nat}
    {nx : Option Nat} {r : Ret} (hpc : s.pc t = .rmIter d pop seen nx)
    (h : step s (.stepT t tx) = some (s', r)) :
    (∀ x, s'.dependency x ≠ s.dependency x →
        x = tx ∧ s.dependency tx = some d ∧ s'.dependency tx = none) ∧
    (s.dependency tx ≠ some d →
        s'.dependency = s.dependency ∧ s'.onboard = s.onboard ∧ s'.index = s.index) := by
  have hs := step_sound_stepT h
  cases hs
  all_goals try (rename_i hrc; cases hrc)
  all_goals
    have hpc' := (by assumption : s.pc t = _)
    rw [hpc] at hpc'
    clear h
    cases hpc' <;>
      (simp only [setPc, upd]
       refine ⟨fun x hx => ?_, fun hst => ?_⟩ <;> grind)

/-! ## 4. claimable_covered -/

/-- Explicit form of `Covers`: the pending control points that will claim `x` or rewind the
    cursor to (at most) `x`. -/
theorem covers_iff (p : Pc) (x : Nat) :
    Covers p x ↔
      p = .nextLock x ∨ (∃ d pop seen nx, p = .rmMin d pop seen nx x) ∨ p = .cmMin x ∨
      p = .keyMin x ∨ (∃ y, p = .addMin y x) ∨ p = .addNoneMin x := by
  cases p <;> simp [Covers, eq_comm]

/-- **claimable_covered.** In every reachable state a claimable transaction (`x < n`, on board,
    no blocker) is either not yet passed by the cursor, or some thread is at a control point that
    will examine exactly `x` (`nextLock x`) or `fetch_min` the cursor down to `x`
    (`rmMin … x`, `cmMin x`, `keyMin x`, `addMin _ x`, `addNoneMin x`). -/
theorem claimable_covered {n : Nat} {s : State} (h : Reachable n s) {x : Nat} (hx : x < n)
    (hon : s.onboard x = true) (hdep : s.dependency x = none) :
    s.index ≤ x ∨ ∃ u, Covers (s.pc u) x := by
  have hc : ClaimInv s :=
    reachable_invariant ClaimInv n (claimInv_init n)
      (fun _ _ _ _ hp hs => claimInv_step hp (step_sound hs)) s h
  exact hc x (by rw [n_reachable h]; exact hx) hon hdep

/-- Quiescent corollary (**no orphan**): when no call is in flight, every claimable transaction
    is at or ahead of the cursor, so subsequent `next()` calls reach it. -/
theorem claimable_quiescent {n : Nat} {s : State} (h : Reachable n s)
    (hq : ∀ u, s.pc u = .idle) {x : Nat} (hx : x < n) (hon : s.onboard x = true)
    (hdep : s.dependency x = none) : s.index ≤ x := by
  rcases claimable_covered h hx hon hdep with h | ⟨u, hu⟩
  · exact h
  · rw [hq u] at hu; simp [Covers] at hu

/-! ## 5. single_claim, hand-off case -/

/-- **single_claim (hand-off step).** If an iteration step of `remove(d)` returns `i`, or leaves
    `i` as the carried hand-off value, then either `i` was already being carried, or this very
    step handed `i` off: it found `i` on board (record mutex free, blocker `d`) and in the same
    step took it off board and cleared its blocker. -/
theorem handoff_takes_offboard {s s' : State} {t : Tid} {d pick : Nat} {pop : Bool}
    {seen : List Nat} {nx : Option Nat} {r : Ret} (hpc : s.pc t = .rmIter d pop seen nx)
    (h : step s (.stepT t pick) = some (s', r)) {i : Nat}
    (hi : r = some (some i) ∨ pcNx (s'.pc t) = some i) :
    nx = some i ∨
      (i = pick ∧ i ∉ seen ∧ pop = true ∧ i = d + 1 ∧ s.index > i ∧ s.depLock i = none ∧
        s.onboard i = true ∧ s.dependency i = some d ∧
        s'.onboard i = false ∧ s'.dependency i = none) := by
  have hs := step_sound_stepT h
  cases hs
  all_goals try (rename_i hrc; cases hrc)
  all_goals
    have hpc' := (by assumption : s.pc t = _)
    rw [hpc] at hpc'
    clear h
    cases hpc' <;>
      (simp only [setPc, upd, if_true, pcNx] at hi ⊢
       grind)

/-- The `fetch_min` step of `remove` only passes the carried hand-off value on. -/
theorem rmMin_carries {s s' : State} {t : Tid} {d tx pick : Nat} {pop : Bool}
    {seen : List Nat} {nx : Option Nat} {r : Ret} (hpc : s.pc t = .rmMin d pop seen nx tx)
    (h : step s (.stepT t pick) = some (s', r)) :
    (r = some nx ∧ s'.pc t = .idle) ∨ (r = none ∧ pcNx (s'.pc t) = nx) := by
  have hs := step_sound_stepT h
  cases hs
  all_goals try (rename_i hrc; cases hrc)
  all_goals
    have hpc' := (by assumption : s.pc t = _)
    rw [hpc] at hpc'
    clear h
    cases hpc' <;> simp [setPc, upd, pcNx]

/-- At most one hand-off per `remove` call: a hand-off step starts with nothing carried. -/
theorem handoff_once {n : Nat} {s s' : State} (hr : Reachable n s) {t : Tid} {d pick : Nat}
    {pop : Bool} {seen : List Nat} {nx : Option Nat} {r : Ret}
    (hpc : s.pc t = .rmIter d pop seen nx)
    (h : step s (.stepT t pick) = some (s', r)) {i : Nat}
    (hi : r = some (some i) ∨ pcNx (s'.pc t) = some i) (hne : nx ≠ some i) : nx = none := by
  rcases handoff_takes_offboard hpc h hi with h1 | ⟨_, hns, _, hid, _⟩
  · exact absurd h1 hne
  · cases hnx : nx with
    | none => rfl
    | some j =>
        have := nxInv_reachable hr t d seen j (by simp [hpc, rmFull, hnx])
        obtain ⟨hj, hjs⟩ := this
        have : j = i := by omega
        subst this
        exact absurd hjs hns

/-- **single_claim.** Every step of the model that returns `some i` is either the claim step of
    `next()` (finds `i` on board with no blocker, takes it off board), or a step of `remove`
    returning the carried hand-off value, which was obtained by a hand-off step satisfying
    `handoff_takes_offboard` (possibly this very step). -/
theorem single_claim {s s' : State} {a : Act} {i : Nat}
    (h : step s a = some (s', some (some i))) :
    (s.pc a.tid = .nextLock i ∧ s.onboard i = true ∧ s.dependency i = none ∧
        s'.onboard i = false) ∨
    (∃ d pop seen nx, s.pc a.tid = .rmIter d pop seen nx ∧
        (nx = some i ∨
          (i = a.pick ∧ s.onboard i = true ∧ s.dependency i = some d ∧
            s'.onboard i = false ∧ s'.dependency i = none))) ∨
    (∃ d pop seen tx, s.pc a.tid = .rmMin d pop seen (some i) tx) := by
  cases a with
  | call t c =>
      exfalso
      simp only [step] at h
      split at h
      · cases c with
        | add x d => cases d <;> simp at h
        | _ => simp at h
      · simp at h
  | stepT t pick =>
      simp only [Act.tid, Act.pick]
      cases hpc : s.pc t with
      | nextLock j =>
          have hs := step_sound_stepT h
          cases hs
          all_goals try (rename_i hrc; cases hrc)
          all_goals
            have hpc' := (by assumption : s.pc t = _)
            rw [hpc] at hpc'
            cases hpc'
          exact Or.inl ⟨rfl, by assumption, by assumption, by simp [setPc, upd]⟩
      | rmIter d pop seen nx =>
          rcases handoff_takes_offboard hpc h (Or.inl rfl) with h1 | h1
          · exact Or.inr (Or.inl ⟨d, pop, seen, nx, rfl, Or.inl h1⟩)
          · exact Or.inr (Or.inl ⟨d, pop, seen, nx, rfl,
              Or.inr ⟨h1.1, h1.2.2.2.2.2.2.1, h1.2.2.2.2.2.2.2.1, h1.2.2.2.2.2.2.2.2⟩⟩)
      | rmMin d pop seen nx tx =>
          rcases rmMin_carries hpc h with ⟨h1, _⟩ | ⟨h1, _⟩
          · simp at h1; subst h1
            exact Or.inr (Or.inr ⟨d, pop, seen, tx, rfl⟩)
          · simp at h1
      | _ =>
          exfalso
          have hs := step_sound_stepT h
          cases hs
          all_goals try (rename_i hrc; cases hrc)
          all_goals
            have hpc' := (by assumption : s.pc t = _)
            rw [hpc] at hpc'
            cases hpc'

end Grevm.TxDep
