/-
C16 — a blocked transaction is always re-offered once its blocker resolves.
Model: `Grevm/Model/TxDep.lean`.
-/
import Grevm.Model.TxDep

namespace Grevm.TxDep

/-- **single_claim (step form).** A step in which `next()` hands out `i` finds `i` on board with
    no blocker and takes it off board in the same lock-protected step: between two
    `onboard := true` at most one claimer gets the transaction. -/
theorem next_claim_takes_offboard {s s' : State} {t i pick : Nat}
    (hpc : s.pc t = .nextLock i) (h : step s (.stepT t pick) = some (s', some (some i))) :
    s.onboard i = true ∧ s.dependency i = none ∧ s'.onboard i = false := by
  simp only [step, hpc] at h
  split at h
  · simp at h
  · split at h
    · rename_i hc
      simp at h
      obtain ⟨rfl, _⟩ := h
      exact ⟨hc.1, hc.2, by simp [setPc, upd]⟩
    · simp at h

/-- Non-vacuity / regression: the stale-reverse-edge scenario of the repo's unit test, run on
    the model: tx 2 re-pointed from blocker 0 to blocker 1 is not released by `remove(0)`. -/
example :
    (run (init 3)
      [.call 0 .next, .stepT 0 0, .stepT 0 0, .stepT 0 0,
       .call 0 .next, .stepT 0 0, .stepT 0 0, .stepT 0 0,
       .call 0 .next, .stepT 0 0, .stepT 0 0, .stepT 0 0,
       .call 0 (.add 2 (some 0)), .stepT 0 0, .stepT 0 0, .stepT 0 0, .stepT 0 0,
       .call 0 (.add 2 (some 1)), .stepT 0 0, .stepT 0 0, .stepT 0 0, .stepT 0 0,
       .call 0 (.remove 0 false), .stepT 0 0, .stepT 0 2]).map
      (fun r => (r.1.dependency 2, r.1.onboard 2, r.1.index)) = some (some 1, true, 0) := by
  decide

end Grevm.TxDep
