/-
C13 — the delegated-balance reserve keeps an account's later transactions fundable.
Model: `Grevm/Model/Reserve.lean`.
-/
import Grevm.Model.Reserve
import Grevm.Lemmas.Reserve

namespace Grevm.Reserve

/-! ### The planner computes the suffix sums, whatever is asked in whatever order -/

/-- **planner_spec.** `required_after(txid, a)` as implemented (sender index, suffix array built
    from the right with saturating addition, binary search) is the saturating cost of `a`'s
    transactions strictly after `txid`. The model is a pure function of `(txs, txid, a)`: the answer
    cannot depend on which accounts or positions were asked before. -/
theorem planner_spec (txs : List Tx) (txid a : Nat) (h : txid < txs.length) :
    requiredAfter txs txid a = requiredSpec txs txid a := by
  rw [requiredAfter_eq_sufCost, senderIds_eq,
    drop_partitionPoint_idsFrom txs a txid txs.length 0 (by omega) (by omega),
    sufCost_idsFrom, requiredSpec, Nat.zero_add]

/-- Saturation only matters beyond `U256::MAX`. -/
theorem reqFrom_eq_min (txs : List Tx) (a k m : Nat) :
    reqFrom txs a k m = min (sumFrom txs a k m) MAXU := by
  induction m generalizing k with
  | zero => simp [reqFrom, sumFrom]
  | succ m ih =>
      simp only [reqFrom, sumFrom, ih (k + 1)]
      split
      · simp only [satAdd, Nat.min_def]
        split <;> split <;> split <;> omega
      · rfl

/-- The current transaction is excluded, the next one included. -/
theorem requiredSpec_step (txs : List Tx) (a i : Nat) (h : i + 1 < txs.length) :
    sumFrom txs a (i + 1) (txs.length - (i + 1)) =
      (if (txs.getD (i + 1) default).caller == a then (txs.getD (i + 1) default).maxCost else 0)
        + sumFrom txs a (i + 2) (txs.length - (i + 2)) := by
  have e : txs.length - (i + 1) = (txs.length - (i + 2)) + 1 := by omega
  rw [e, sumFrom_succ]

/-! ### The journal scan reconstructs the pre-debit balance -/

/-- One surviving journal entry moves the balance of `a` from `b` to `b'`. -/
inductive Moves (a : Nat) : Nat → Entry → Nat → Prop where
  | out (b dst v : Nat) (h : dst ≠ a) (hv : v ≤ b) : Moves a b (.transfer a dst v) (b - v)
  | inn (b src v : Nat) (h : src ≠ a) : Moves a b (.transfer src a v) (b + v)
  | self (b v : Nat) : Moves a b (.transfer a a v) b
  | unrelatedT (b src dst v : Nat) (h1 : src ≠ a) (h2 : dst ≠ a) : Moves a b (.transfer src dst v) b
  | destroyedSelf (b target : Nat) : Moves a b (.destroyed a target b) 0
  | destroyedTo (b addr had : Nat) (h : addr ≠ a) : Moves a b (.destroyed addr a had) (b + had)
  | unrelatedD (b addr target had : Nat) (h1 : addr ≠ a) (h2 : target ≠ a) :
      Moves a b (.destroyed addr target had) b
  | change (b b' : Nat) : Moves a b (.balanceChange a b) b'
  | unrelatedC (b addr old : Nat) (h : addr ≠ a) : Moves a b (.balanceChange addr old) b
  | other (b : Nat) : Moves a b .other b

/-- Undoing one entry from the balance after it gives the balance before it, provided both are
    U256 values. (`b ≤ MAXU` is needed in the `out` and `destroyedSelf` cases: `satAdd` saturates
    when the restored balance would exceed `U256::MAX`.) -/
theorem undo_moves (a b b1 : Nat) (e : Entry) (h : Moves a b e b1) (hb0 : b ≤ MAXU)
    (_hb : b1 ≤ MAXU) : undo a b1 e = b := by
  cases h <;> simp_all [undo, satAdd, satSub] <;> omega

/-- The well-formedness predicate AS ORIGINALLY STATED (only the balance after each entry is
    bounded by `U256::MAX`). Kept to state the counterexample and the `_partial` variant. -/
inductive Chain0 (a : Nat) : Nat → List Entry → Nat → Prop where
  | nil (b : Nat) : Chain0 a b [] b
  | cons (b b1 bn : Nat) (e : Entry) (es : List Entry) (h : Moves a b e b1) (hb : b1 ≤ MAXU)
      (t : Chain0 a b1 es bn) : Chain0 a b (e :: es) bn

/- ORIGINAL STATEMENT (false):
   theorem balance_before_exact (a b bn : Nat) (pre es : List Entry) (h : Chain0 a b es bn) :
       balanceBefore (pre ++ es) pre.length a bn = b
   `Chain0` bounds every balance but the first one. With `b = MAXU + 1` (not a U256) and one
   outgoing transfer of 1, the chain is well-formed (`b1 = MAXU`), but undoing saturates:
   `satAdd MAXU 1 = MAXU ≠ MAXU + 1`. Machine-checked below. -/
example :
    Chain0 0 (MAXU + 1) [.transfer 0 1 1] MAXU ∧
      balanceBefore ([] ++ [.transfer 0 1 1]) ([] : List Entry).length 0 MAXU ≠ MAXU + 1 := by
  refine ⟨?_, by decide⟩
  have hm : Moves 0 (MAXU + 1) (.transfer 0 1 1) (MAXU + 1 - 1) := Moves.out _ _ _ (by decide) (by decide)
  exact Chain0.cons _ _ _ _ _ hm (by decide) (Chain0.nil _)

/-- **balance_before_exact_partial.** The original statement with the one missing fact added as a
    hypothesis: the balance before the first entry is a U256 too. This is the strongest true
    variant (for `es = []` the bound is not needed, for `es ≠ []` the example above shows it is). -/
theorem balance_before_exact_partial (a b bn : Nat) (pre es : List Entry) (h : Chain0 a b es bn)
    (hb0 : b ≤ MAXU) : balanceBefore (pre ++ es) pre.length a bn = b := by
  simp only [balanceBefore, List.drop_left]
  induction h with
  | nil b => rfl
  | cons b b1 bn e es hm hb _ ih =>
      rw [List.foldr_cons, ih hb]
      exact undo_moves a b b1 e hm hb0 hb

/-- A journal suffix taking the balance of `a` from `b` to `bn`, never above `U256::MAX`.
    STRENGTHENED w.r.t. the first draft: `cons` also carries `hb0 : b ≤ MAXU`, the bound on the
    balance BEFORE the entry (all balances are U256 values, so this costs nothing; without it
    `balance_before_exact` is false, see `Chain0` above). -/
inductive Chain (a : Nat) : Nat → List Entry → Nat → Prop where
  | nil (b : Nat) : Chain a b [] b
  | cons (b b1 bn : Nat) (e : Entry) (es : List Entry) (h : Moves a b e b1) (hb0 : b ≤ MAXU)
      (hb : b1 ≤ MAXU) (t : Chain a b1 es bn) : Chain a b (e :: es) bn

theorem Chain.toChain0 {a b bn : Nat} {es : List Entry} (h : Chain a b es bn) :
    Chain0 a b es bn := by
  induction h with
  | nil b => exact Chain0.nil b
  | cons b b1 bn e es hm _ hb _ ih => exact Chain0.cons b b1 bn e es hm hb ih

/-- **balance_before_exact.** Undoing the surviving journal from the final balance back to entry
    `idx` yields exactly the balance the account had just before that entry. (Statement verbatim;
    `Chain` is the strengthened predicate.) -/
theorem balance_before_exact (a b bn : Nat) (pre es : List Entry) (h : Chain a b es bn) :
    balanceBefore (pre ++ es) pre.length a bn = b := by
  cases h with
  | nil b => simp [balanceBefore]
  | cons b b1 bn e es hm hb0 hb t =>
      exact balance_before_exact_partial a b bn pre (e :: es)
        (Chain0.cons b b1 bn e es hm hb t.toChain0) hb0

/-! ### The rule, and what it guarantees -/

/-- **violates_iff.** The decision: some delegated debit leaves the account below
    `min(balance before its first debit, cost of its later transactions)`, the latter non-zero. -/
theorem violates_iff (txs : List Tx) (txid : Nat) (debits : List Debit) :
    violates txs txid debits = true ↔
      ∃ d ∈ debits, requiredAfter txs txid d.address ≠ 0 ∧
        d.final < min d.before (requiredAfter txs txid d.address) := by
  simp [violates]

/-- No debit of a delegated account, or nothing to protect: the policy is inert. -/
theorem no_candidates_no_violation (txs : List Tx) (txid : Nat) : violates txs txid [] = false := by
  simp [violates]

theorem no_future_cost_no_violation (txs : List Tx) (txid : Nat) (debits : List Debit)
    (h : ∀ d ∈ debits, requiredAfter txs txid d.address = 0) : violates txs txid debits = false := by
  simp only [violates, List.any_eq_false]
  intro d hd
  simp [h d hd]

/-- What one transaction does to the balance of account `a` (facts about revm, hypotheses here):
    `pre` before the transaction; if `a` sends it, it pays at most `ownCost` at top level; `debit`
    = `some (before, final)` when a delegated debit of `a` survived, where `before` is the balance
    before the first such debit; `finalNoDebit` the resulting balance otherwise; `reverted` the
    balance after the forced top-level revert. -/
structure TxEffect where
  ownCost : Nat
  pre : Nat
  debit : Option (Nat × Nat)
  finalNoDebit : Nat
  reverted : Nat

/-- Without delegated execution, a transaction lowers the balance of `a` by at most `a`'s own
    maximum cost; the first delegated debit happens after at most that; so does the forced revert. -/
def TxEffect.Sane (e : TxEffect) : Prop :=
  e.pre - e.ownCost ≤ e.finalNoDebit ∧ e.pre - e.ownCost ≤ e.reverted ∧
    ∀ bf fin, e.debit = some (bf, fin) → e.pre - e.ownCost ≤ bf

/-- Balance of `a` after the transaction under the policy with future cost `fc`. -/
def TxEffect.result (e : TxEffect) (fc : Nat) : Nat :=
  match e.debit with
  | none => e.finalNoDebit
  | some (bf, fin) => if fc != 0 && fin < min bf fc then e.reverted else fin

/-- **step_keeps_reserve.** If the account can pay its own transaction and everything after it,
    then after the transaction it can still pay everything after it. -/
theorem step_keeps_reserve (e : TxEffect) (fc : Nat) (hs : e.Sane) (h : e.ownCost + fc ≤ e.pre) :
    fc ≤ e.result fc := by
  obtain ⟨h1, h2, h3⟩ := hs
  unfold TxEffect.result
  split
  · omega
  · rename_i bf fin hd
    have := h3 bf fin hd
    split
    · omega
    · rename_i hc
      simp only [Bool.and_eq_true, bne_iff_ne, ne_eq, decide_eq_true_eq, not_and, Nat.not_lt] at hc
      by_cases hz : fc = 0
      · omega
      · have := hc hz
        rw [Nat.min_def] at this
        split at this <;> omega

/-- **fundable.** Block level: `bal i` is the balance of `a` before transaction `i`; every
    transaction's effect on `a` is sane and the policy is applied with the planner's answer. If `a`
    can pay the maximum cost of all its transactions at block start, it can pay each of them when
    its turn comes — delegated execution never makes it unfundable. -/
theorem fundable (txs : List Tx) (a : Nat) (bal : Nat → Nat) (eff : Nat → TxEffect)
    (hsane : ∀ i, i < txs.length → (eff i).Sane)
    (hpre : ∀ i, i < txs.length → (eff i).pre = bal i)
    (hown : ∀ i, i < txs.length → (eff i).ownCost =
      if (txs.getD i default).caller == a then (txs.getD i default).maxCost else 0)
    (hstep : ∀ i, i < txs.length → bal (i + 1) = (eff i).result (requiredAfter txs i a))
    (hstart : sumFrom txs a 0 txs.length ≤ bal 0) (hmax : sumFrom txs a 0 txs.length ≤ MAXU) :
    ∀ i, i < txs.length → (txs.getD i default).caller == a →
      (txs.getD i default).maxCost ≤ bal i := by
  -- invariant: before transaction `i`, the balance covers all of `a`'s transactions from `i` on
  have inv : ∀ i, i ≤ txs.length →
      sumFrom txs a i (txs.length - i) ≤ bal i ∧ sumFrom txs a i (txs.length - i) ≤ MAXU := by
    intro i
    induction i with
    | zero => intro _; exact ⟨hstart, hmax⟩
    | succ i ih =>
        intro hi
        have hlt : i < txs.length := by omega
        obtain ⟨h1, h2⟩ := ih (by omega)
        have e : txs.length - i = (txs.length - (i + 1)) + 1 := by omega
        rw [e, sumFrom_succ] at h1 h2
        have hfc : requiredAfter txs i a = sumFrom txs a (i + 1) (txs.length - (i + 1)) := by
          rw [planner_spec txs i a hlt, requiredSpec, reqFrom_eq_min]
          exact Nat.min_eq_left (by omega)
        refine ⟨?_, by omega⟩
        rw [hstep i hlt, hfc]
        apply step_keeps_reserve _ _ (hsane i hlt)
        rw [hown i hlt, hpre i hlt]
        exact h1
  intro i hi hc
  have h1 := (inv i (by omega)).1
  have e : txs.length - i = (txs.length - (i + 1)) + 1 := by omega
  rw [e, sumFrom_succ, if_pos hc] at h1
  omega

/-- Non-vacuity: block of five transactions, account 7 sends #1 (cost 30) and #4 (cost 50). -/
example :
    let txs : List Tx := [⟨1, some 10⟩, ⟨7, some 30⟩, ⟨2, none⟩, ⟨1, some 5⟩, ⟨7, some 50⟩]
    (requiredAfter txs 0 7, requiredAfter txs 1 7, requiredAfter txs 4 7, requiredAfter txs 0 2)
      = (80, 50, 0, MAXU) := by
  decide

/-- **required_after_is_history_free.** The planner's answer is a function of the block, the
    transaction index and the address alone (it is `requiredSpec`): nothing that was asked before
    can change it.  A cache of "settled" accounts that answers zero for them afterwards (seeded
    change C06e) is refuted by any block in which an account is asked about first at a late index
    and then at an early one: -/
theorem settled_cache_depends_on_query_order :
    let txs : List Tx := [⟨1, some 10⟩, ⟨7, some 30⟩, ⟨2, none⟩, ⟨1, some 5⟩]
    requiredAfter txs 3 7 = 0 ∧ requiredAfter txs 0 7 = 30 := by
  decide

/-- **rebased_index_changes_the_reserve** (the shape of seeded change C13e).  A sequential replay
    that starts at committed boundary `start` must keep asking with the GLOBAL index: asked with
    the position inside the suffix, account 7's own transaction at index 1 — already executed — is
    charged again as a later cost. -/
theorem rebased_index_changes_the_reserve :
    let txs : List Tx := [⟨1, some 10⟩, ⟨7, some 30⟩, ⟨2, some 1⟩, ⟨1, some 5⟩]
    let start := 2
    let txid := 2
    requiredAfter txs txid 7 = 0 ∧ requiredAfter txs (txid - start) 7 = 30 := by
  decide

/-! ### The reserve only shrinks as the block advances -/

/-- The unsaturated cost of `a`'s transactions in `[k + d, k + d + m)` is at most that in
    `[k, k + d + m)`. -/
theorem sumFrom_drop_le (txs : List Tx) (a k m d : Nat) :
    sumFrom txs a (k + d) m ≤ sumFrom txs a k (m + d) := by
  induction d generalizing k with
  | zero => simp
  | succ d ih =>
      have h1 := ih (k + 1)
      have h2 := sumFrom_tail_le txs a k (m + d)
      have e : k + 1 + d = k + (d + 1) := by omega
      rw [e] at h1
      have e2 : m + (d + 1) = m + d + 1 := by omega
      rw [e2]
      omega

/-- **required_after_antitone.** What an account must keep for its later transactions never grows
    as the block advances: asked at a later index the planner demands at most what it demanded at
    an earlier one. -/
theorem required_after_antitone (txs : List Tx) (a i j : Nat) (hij : i ≤ j) (hj : j < txs.length) :
    requiredAfter txs j a ≤ requiredAfter txs i a := by
  rw [planner_spec txs j a hj, planner_spec txs i a (by omega), requiredSpec, requiredSpec,
    reqFrom_eq_min, reqFrom_eq_min]
  have h := sumFrom_drop_le txs a (i + 1) (txs.length - (j + 1)) (j - i)
  have e1 : i + 1 + (j - i) = j + 1 := by omega
  have e2 : txs.length - (j + 1) + (j - i) = txs.length - (i + 1) := by omega
  rw [e1, e2] at h
  simp only [Nat.min_def]
  split <;> split <;> omega

/-- **last_transaction_unconstrained.** Nothing is reserved behind the last transaction of the
    block, so the policy cannot revert it. -/
theorem required_after_last (txs : List Tx) (a i : Nat) (h : i + 1 = txs.length) :
    requiredAfter txs i a = 0 := by
  rw [planner_spec txs i a (by omega), requiredSpec]
  have e : txs.length - (i + 1) = 0 := by omega
  rw [e]; rfl

theorem last_transaction_never_violates (txs : List Tx) (i : Nat) (h : i + 1 = txs.length)
    (debits : List Debit) : violates txs i debits = false :=
  no_future_cost_no_violation txs i debits (fun d _ => required_after_last txs d.address i h)

/-- The unsaturated sum over a range in which `a` sends nothing is zero. -/
theorem sumFrom_eq_zero (txs : List Tx) (a k m : Nat)
    (h : ∀ x, k ≤ x → x < k + m → (txs.getD x default).caller ≠ a) : sumFrom txs a k m = 0 := by
  induction m generalizing k with
  | zero => rfl
  | succ m ih =>
      rw [sumFrom_succ, ih (k + 1) (fun x h1 h2 => h x (by omega) (by omega))]
      have hk := h k (Nat.le_refl _) (by omega)
      have hb : ((txs.getD k default).caller == a) = false := by simpa using hk
      rw [hb]; rfl

/-- **no_later_transaction_no_reserve.** An account that sends no later transaction of the block
    is never protected: only accounts with transactions still to come can cause a forced revert. -/
theorem required_after_no_later_tx (txs : List Tx) (a i : Nat) (hi : i < txs.length)
    (h : ∀ x, i < x → x < txs.length → (txs.getD x default).caller ≠ a) :
    requiredAfter txs i a = 0 := by
  rw [planner_spec txs i a hi, requiredSpec, reqFrom_eq_min,
    sumFrom_eq_zero txs a (i + 1) _ (fun x h1 h2 => h x (by omega) (by omega))]
  simp

/-- **debit_ok_stays_ok.** A smaller demand cannot turn an accepted debit into a violation: a
    debit (`before`, `final`) that respects the reserve when judged at an earlier index respects
    it when judged at any later one. -/
theorem debit_ok_stays_ok (txs : List Tx) (a i j : Nat) (hij : i ≤ j) (hj : j < txs.length)
    (before final : Nat) (h : ¬ final < min before (requiredAfter txs i a)) :
    ¬ final < min before (requiredAfter txs j a) := by
  have := required_after_antitone txs a i j hij hj
  simp only [Nat.min_def] at *
  split at h <;> split <;> omega

/-- Non-vacuity of `required_after_antitone` / `required_after_no_later_tx`. -/
example :
    let txs : List Tx := [⟨1, some 10⟩, ⟨7, some 30⟩, ⟨2, none⟩, ⟨1, some 5⟩, ⟨7, some 50⟩]
    requiredAfter txs 3 7 ≤ requiredAfter txs 0 7 ∧ requiredAfter txs 3 7 = 50 ∧
      requiredAfter txs 3 1 = 0 := by
  decide

/-! ### The scan reports each delegated account once -/

def CandOk (delegated : Nat → Bool) (n : Nat) (acc : List (Nat × Nat)) : Prop :=
  (∀ p ∈ acc, delegated p.1 = true ∧ p.2 < n) ∧ (acc.map (·.1)).Nodup

theorem CandOk.mono {delegated : Nat → Bool} {n m : Nat} {acc : List (Nat × Nat)}
    (h : CandOk delegated n acc) (hnm : n ≤ m) : CandOk delegated m acc :=
  ⟨fun p hp => ⟨(h.1 p hp).1, Nat.lt_of_lt_of_le (h.1 p hp).2 hnm⟩, h.2⟩

theorem go_candOk (root : Root) (delegated : Nat → Bool) (es : List Entry) (i : Nat)
    (pending : Bool) (acc : List (Nat × Nat)) (h : CandOk delegated i acc) :
    CandOk delegated (i + es.length) (firstDebits.go root delegated es i pending acc) := by
  induction es generalizing i pending acc with
  | nil => simpa [firstDebits.go] using h
  | cons e rest ih =>
      have e1 : i + (e :: rest).length = (i + 1) + rest.length := by simp; omega
      rw [e1]
      have h' : CandOk delegated (i + 1) acc := h.mono (by omega)
      unfold firstDebits.go
      split
      · exact ih _ _ _ h'
      · split
        · rename_i s hs
          split
          · rename_i hc
            apply ih
            simp only [Bool.and_eq_true, Bool.not_eq_true', List.any_eq_false] at hc
            refine ⟨?_, ?_⟩
            · intro p hp
              rcases List.mem_append.mp hp with hp | hp
              · exact h'.1 p hp
              · simp at hp; subst hp; exact ⟨hc.1, by simp⟩
            · rw [List.map_append, List.nodup_append]
              refine ⟨h.2, by simp, ?_⟩
              intro a ha b hb
              simp at hb; subst hb
              rcases List.mem_map.mp ha with ⟨p, hp, rfl⟩
              intro heq
              have := hc.2 p hp
              simp [heq] at this
          · exact ih _ _ _ h'
        · exact ih _ _ _ h'

/-- **one_candidate_per_delegated_account.** The scan reports only delegated accounts, each at
    most once, and each with the index of an entry of the scanned journal. -/
theorem firstDebits_sound (entries : List Entry) (root : Root) (delegated : Nat → Bool) :
    (∀ p ∈ firstDebits entries root delegated, delegated p.1 = true ∧ p.2 < entries.length) ∧
      ((firstDebits entries root delegated).map (·.1)).Nodup := by
  have := go_candOk root delegated entries 0 (root.value != 0) [] ⟨by simp, by simp⟩
  simpa [firstDebits, CandOk] using this


/-- The candidates handed to `has_reserve_violation`: one per delegated account, carrying that
    account's final balance. -/
theorem delegatedDebits_sound (entries : List Entry) (root : Root) (delegated : Nat → Bool)
    (finalBal : Nat → Nat) :
    (∀ d ∈ delegatedDebits entries root delegated finalBal,
        delegated d.address = true ∧ d.final = finalBal d.address) ∧
      ((delegatedDebits entries root delegated finalBal).map (·.address)).Nodup := by
  have h := firstDebits_sound entries root delegated
  refine ⟨?_, ?_⟩
  · intro d hd
    simp only [delegatedDebits, List.mem_map] at hd
    rcases hd with ⟨p, hp, rfl⟩
    exact ⟨(h.1 p hp).1, rfl⟩
  · have e : (delegatedDebits entries root delegated finalBal).map (·.address) =
        (firstDebits entries root delegated).map (·.1) := by
      simp [delegatedDebits, List.map_map, Function.comp_def]
    rw [e]; exact h.2

/-- Non-vacuity: account 5 (delegated) is debited twice and reported once, at its first debit;
    account 6 (not delegated) is not reported; the root transfer is skipped. -/
example :
    firstDebits [.transfer 1 5 7, .transfer 5 2 3, .transfer 6 2 1, .transfer 5 2 1]
      ⟨1, 7, some 5⟩ (· == 5) = [(5, 1)] := by
  decide

end Grevm.Reserve
