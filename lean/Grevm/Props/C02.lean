/-
C02 — commits are in order, exactly once, final, and equal the in-order effect.
Model: `Grevm/Model/Sched.lean` (the speculative pipeline at the granularity of single shared-memory
accesses, any number of workers, any interleaving).  Invariants: `Grevm/Lemmas/SchedInv1..5`.
-/
import Grevm.Lemmas.SchedInv5

namespace Grevm.Sched

open Grevm.Block

/-- **finalized_exact.** In every reachable state of every block, every finalized transaction
    holds exactly its in-order run: the same values read, the same writes, the same output or error —
    a result computed from state that a preceding transaction changed afterwards is never final. -/
theorem finalized_exact (P : Params) (s : State) (h : Reachable P s) (j : TxId) (hj : j < s.fin) :
    ∃ r, s.result j = some r ∧ toRun r = ideal P.txs P.base j :=
  (inv_reach (reach_of_reachable h)).2.2.2.2.exact j hj

/-- **commit_prefix.** At every instant the committed outcomes are exactly the in-order outcomes of
    transactions `0 .. com-1`: commits are contiguous, in block order, one outcome per commit. -/
theorem commit_prefix (P : Params) (s : State) (h : Reachable P s) :
    s.outcomes = (List.range s.com).map (fun j => (ideal P.txs P.base j).out) ∧
    s.outcomes.length = s.com ∧ s.com ≤ s.fin ∧ s.fin ≤ P.n := by
  obtain ⟨i1, _, _, _, i5⟩ := inv_reach (reach_of_reachable h)
  exact ⟨i5.outcomes, i1.com_le.2, i1.com_le.1, i1.fin_le⟩

/-- **commit_once.** Every step either leaves the committed boundary and outcomes alone, or is a
    commit: it takes the result of transaction `com` (which is finalized), appends exactly its
    outcome and advances the boundary by one. -/
theorem commit_once (P : Params) (s s' : State) (a : Act) (h : step P s a = some s') :
    (s'.com = s.com ∧ s'.outcomes = s.outcomes) ∨
    (s'.com = s.com + 1 ∧ s.com < s.fin ∧
      ∃ r, s.result s.com = some r ∧ s'.outcomes = s.outcomes ++ [r.out]) := by
  have hs := step_sound h
  cases hs with
  | commit r hc hr => exact Or.inr ⟨rfl, hc, r, hr, rfl⟩
  | _ => exact Or.inl ⟨rfl, rfl⟩

/-- **finality_is_final.** No step ever changes the result or status of a finalized transaction,
    and the finalized prefix never shrinks: a commit never needs to be revised. -/
theorem finality_is_final (P : Params) (s s' : State) (a : Act) (h : Reachable P s)
    (hstep : step P s a = some s') (j : TxId) (hj : j < s.fin) :
    s'.result j = s.result j ∧ s'.status j = .finality ∧ j < s'.fin := by
  obtain ⟨i1, _⟩ := inv_reach (reach_of_reachable h)
  obtain ⟨h1, h2, h3⟩ := step_frozen i1 (step_sound hstep) j hj
  exact ⟨h1, by rw [h2]; exact (i1.fin_status j).mpr hj, h3⟩

/-- **stale_validation_never_final** (also the third clause of C15). If a rewind covering
    transaction `i` (target `k ≤ i`) carries a timestamp newer than `i`'s latest successful
    validation, `i` cannot be finalized, whatever the cursors say. -/
theorem stale_validation_never_final (P : Params) (s : State) (h : Reachable P s)
    (k : Nat) (hk : k ≤ s.fin) (hstale : s.uts s.fin < s.lts k) : step P s .finalize = none := by
  obtain ⟨i1, _⟩ := inv_reach (reach_of_reachable h)
  simp only [step]
  split
  · split
    · split
      · rename_i hg
        exfalso
        by_cases hkf : k = s.fin
        · subst hkf; omega
        · have := i1.lower_ge k (by omega); omega
      · rfl
    · rfl
  · rfl

/-- **execute_ok.** When the whole block has been committed, the outcome list is the in-order
    outcome list — for every block, base state, number of workers and interleaving. -/
theorem execute_ok (P : Params) (s : State) (h : Reachable P s) (hdone : s.com = P.n) :
    s.outcomes = (List.range P.n).map (fun j => (ideal P.txs P.base j).out) := by
  rw [← hdone]; exact (commit_prefix P s h).1

/-- The timestamp of a validation rewind is published before the status change becomes visible
    and after every MV-memory change of the same worker (the mechanism the proof relies on,
    stated as a reachable-state fact): a worker that still owes a rewind is never idle. -/
theorem owes_not_idle (s : State) (j : TxId) (h : Owes (s.phase j)) : s.phase j ≠ .idle := by
  intro hc; rw [hc] at h; exact h

/-! ### Non-vacuity: a conflicting 2-transaction block goes through stale read, failed validation,
    estimate marking, rewind, re-execution and finality, and both outcomes are the in-order ones. -/

def demoParams : Params :=
  { n := 2,
    txs := fun i => if i = 0 then .done [(0, 5)] 0 else .read 0 (fun v => .done [(1, v + 1)] v),
    base := fun _ => 0 }

def demoSchedule : List Act :=
  [ -- tx 1 runs first on the stale base value (MV miss, then committed-cache fetch), publishes,
    -- rewinds
    .claimExec 1, .execRead 1, .execFetch 1, .execFinish 1, .publishOne 1 1, .endPublish 1,
    .recordResult 1 false,
    .tailTs 1, .tailLts 1,
    -- tx 0 executes and publishes x := 5, rewinds
    .claimExec 0, .execFinish 0, .publishOne 0 0, .endPublish 0, .recordResult 0 false,
    .tailTs 0, .tailLts 0,
    -- tx 0 validates and is finalized
    .claimVal 0, .valTs 0, .endScan 0, .finalize,
    -- tx 1's validation now fails: marks its write as estimate, rewinds, re-executes
    .claimVal 1, .valTs 1, .valCheck 1 0, .endScan 1, .markOne 1 1, .endValMark 1, .tailTs 1,
    .claimExec 1, .execRead 1, .execFinish 1, .publishOne 1 1, .endPublish 1, .recordResult 1 false,
    .valTs 1, .valCheck 1 0, .endScan 1, .finalize, .commit, .commit ]

example : (run demoParams init demoSchedule).map (fun s => (s.fin, s.com, s.outcomes)) =
    some (2, 2, [.ok [(0, 5)] 0, .ok [(1, 6)] 5]) := by decide

/-! ### Non-vacuity of the non-atomic storage read: tx 1 misses in MV memory, tx 0 then executes,
    is finalized and COMMITTED, and only then tx 1 reads the committed cache: it records value 5
    with version `Storage` (not the block-start value 0).  Its validation fails (the location now
    resolves to tx 0's entry), it is re-executed, and the outcomes are the in-order ones. -/

def demoFetchPrefix : List Act :=
  [ .claimExec 1, .execRead 1,
    .claimExec 0, .execFinish 0, .publishOne 0 0, .endPublish 0, .recordResult 0 false,
    .tailTs 0, .tailLts 0, .claimVal 0, .valTs 0, .endScan 0, .finalize, .commit,
    .execFetch 1 ]

def demoFetchSuffix : List Act :=
  [ .execFinish 1, .publishOne 1 1, .endPublish 1, .recordResult 1 false, .tailTs 1, .tailLts 1,
    .claimVal 1, .valTs 1, .valCheck 1 0, .endScan 1, .markOne 1 1, .endValMark 1, .tailTs 1,
    .claimExec 1, .execRead 1, .execFinish 1, .publishOne 1 1, .endPublish 1, .recordResult 1 false,
    .valTs 1, .valCheck 1 0, .endScan 1, .finalize, .commit ]

example : (run demoParams init demoFetchPrefix).map (fun s =>
      match s.phase 1 with
      | .reading _ (r :: _) _ => some (r.loc, r.ver, r.val, s.com)
      | _ => none) = some (some (0, none, 5, 1)) := by decide

example : (run demoParams init (demoFetchPrefix ++ demoFetchSuffix)).map
      (fun s => (s.fin, s.com, s.outcomes)) =
    some (2, 2, [.ok [(0, 5)] 0, .ok [(1, 6)] 5]) := by decide

/-- **readOk_iff.** The per-read check of `validate`, stated outright: a recorded read passes iff
    the location still resolves to the very entry it was read from (same writer, same incarnation,
    not flagged as an estimate), or it was read from storage and there is still no preceding
    writer. -/
theorem readOk_iff (mv : Loc → TxId → Option Entry) (i : TxId) (r : ReadRec) :
    readOk mv i r = true ↔
      (∃ k e, resolve mv i r.loc = some (k, e) ∧ e.est = false ∧ r.ver = some (k, e.inc)) ∨
      (resolve mv i r.loc = none ∧ r.ver = none) := by
  unfold readOk
  cases h : resolve mv i r.loc with
  | none => simp
  | some p =>
    obtain ⟨k, e⟩ := p
    simp only [Bool.and_eq_true, Bool.not_eq_true', decide_eq_true_eq]
    constructor
    · rintro ⟨h1, h2⟩
      exact Or.inl ⟨k, e, rfl, h1, h2⟩
    · rintro (⟨k', e', h1, h2, h3⟩ | ⟨h1, _⟩)
      · cases h1; exact ⟨h2, h3⟩
      · cases h1

/-- **vanished_source_is_conflict** (the case seeded change C01d removes).  A read recorded from a
    multi-version entry whose location no longer resolves to ANY preceding writer — the writer was
    re-executed, stopped writing it, and its stale entry was removed — fails validation. -/
theorem vanished_source_is_conflict (mv : Loc → TxId → Option Entry) (i : TxId) (r : ReadRec)
    (hgone : resolve mv i r.loc = none) (hmv : r.ver ≠ none) : readOk mv i r = false := by
  unfold readOk
  rw [hgone]
  simpa using hmv

/-! ### Non-vacuity of `vanished_source_is_conflict`: tx 0 sets x; tx 1 writes y := 7 only while x is
    unset; tx 2 stores y + 1.  tx 1 runs first (x unset, publishes y), tx 2 reads y from tx 1's
    entry, tx 0 publishes x, tx 1 fails validation, is re-executed WITHOUT writing y and its stale
    entry is removed.  When tx 2 is validated its read source is gone and no earlier writer is
    left: the premises of the theorem hold in this reachable state, the read is a conflict, tx 2
    is re-executed, and the outcomes are the in-order ones (z = 1, not 8). -/

def vanishParams : Params :=
  { n := 3,
    txs := fun i =>
      if i = 0 then .done [(0, 1)] 0
      else if i = 1 then .read 0 (fun x => if x = 0 then .done [(1, 7)] 0 else .done [] 0)
      else .read 1 (fun y => .done [(2, y + 1)] 0),
    base := fun _ => 0 }

def vanishPrefix : List Act :=
  [ .claimExec 1, .execRead 1, .execFetch 1, .execFinish 1, .publishOne 1 1, .endPublish 1,
    .recordResult 1 false, .tailTs 1, .tailLts 1,
    .claimExec 2, .execRead 2, .execFinish 2, .publishOne 2 2, .endPublish 2, .recordResult 2 false,
    .tailTs 2, .tailLts 2,
    .claimExec 0, .execFinish 0, .publishOne 0 0, .endPublish 0, .recordResult 0 false, .tailTs 0,
    .tailLts 0,
    .claimVal 0, .valTs 0, .endScan 0, .finalize, .commit,
    .claimVal 1, .valTs 1, .valCheck 1 0, .endScan 1, .markOne 1 1, .endValMark 1, .tailTs 1,
    .tailLts 1,
    .claimExec 1, .execRead 1, .execFinish 1, .endPublish 1, .removeOne 1 1, .recordResult 1 false,
    .valTs 1, .valCheck 1 0, .endScan 1, .finalize, .commit,
    .claimVal 2, .valTs 2 ]

def vanishSuffix : List Act :=
  [ .valCheck 2 0, .endScan 2, .markOne 2 2, .endValMark 2, .tailTs 2,
    .claimExec 2, .execRead 2, .execFetch 2, .execFinish 2, .publishOne 2 2, .endPublish 2,
    .recordResult 2 false, .valTs 2, .valCheck 2 0, .endScan 2, .finalize, .commit ]

example : (run vanishParams init vanishPrefix).map (fun s =>
      match s.phase 2 with
      | .valScan _ _ (r :: _) _ =>
          r.loc == 1 && r.ver == some (1, 1) && r.val == 7 &&
            (resolve s.mv 2 r.loc).isNone && !readOk s.mv 2 r
      | _ => false) = some true := by decide

example : (run vanishParams init (vanishPrefix ++ vanishSuffix)).map
      (fun s => (s.fin, s.com, s.outcomes)) =
    some (3, 3, [.ok [(0, 1)] 0, .ok [] 0, .ok [(2, 1)] 0]) := by decide

end Grevm.Sched
