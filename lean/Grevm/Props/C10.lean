/-
C10 — reads performed concurrently by speculative workers never change what the committed-state
cache later serves.  Model: `Grevm/Model/Cache.lean`.
-/
import Grevm.Model.Cache
import Grevm.Lemmas.Cache
import Grevm.Model.AccountFill
import Grevm.Lemmas.AcctState

namespace Grevm.Cache

/-- Well-formed start: a storage-known account has no storage in the database view that matters
    (`init` sets `logical` accordingly). -/
def Reachable (fixed : Bool) (s : State) : Prop :=
  ∃ dbv known as, run fixed (init dbv known) as = some s

/-- **cache_coherent.** With the repaired code, in every reachable state in which no commit is in
    progress, the value the cache serves for the slot is the value revm's `State` serves — for any
    number of readers, any history of destroy / create / update commits and any interleaving of
    reader steps with commit steps. -/
theorem cache_coherent (s : State) (h : Reachable true s) (hc : s.cpc = .idle) :
    serve s = s.logical := by
  obtain ⟨dbv, known, as, hrun⟩ := h
  have hinv := (inv_run (inv_init dbv known) hrun).2
  unfold CInv at hinv
  simpa only [hc] using hinv

/-- What a finished reader was told is not constrained (it may be stale: the attempt is
    speculative and validated elsewhere), but what it LEFT in the cache is: -/
theorem cache_entry_current (s : State) (h : Reachable true s) (hc : s.cpc = .idle) (v : Nat)
    (hv : s.cache = some v) : v = s.logical := by
  have h1 := cache_coherent s h hc
  simpa only [serve, hv] using h1

/-- **f1_original_order_violates.** The original order (slots cleared before the status is
    updated, no re-check at the insert) reaches a quiescent state that serves a value revm's State
    does not: reader fetches 42, the account is destroyed, the reader inserts 42. -/
theorem f1_original_order_violates :
    ∃ s, Reachable false s ∧ s.cpc = .idle ∧ (∀ t, s.rpc t = .idle ∨ ∃ v, s.rpc t = .done v) ∧
      serve s ≠ s.logical := by
  refine ⟨{ known := true, cache := some 42, dbv := 42, logical := 0,
            rpc := fun u => if u = 0 then .done 42 else .idle, cpc := .idle },
          ⟨42, false, [.rLook 0, .cBegin .destroy, .rInsert 0, .cClear], ?_⟩, rfl, ?_, ?_⟩
  · simp [run, step, init, setR, Op.logicalAfter, Op.write]
    funext u
    by_cases hu : u = 0 <;> simp [hu]
  · intro t
    by_cases ht : t = 0
    · exact Or.inr ⟨42, by simp [ht]⟩
    · exact Or.inl (by simp [ht])
  · simp [serve]

/-- Non-vacuity of `cache_coherent`: the F1 schedule on the repaired code ends coherent. -/
example :
    (run true (init 42 false) [.rLook 0, .cBegin .destroy, .cClear, .rInsert 0]).map
      (fun s => (serve s, s.logical)) = some (0, 0) := by decide

end Grevm.Cache

namespace Grevm.AccountFill

/-- Invariant: an account that is cached holds the latest committed value (the database value
    before the first commit); an account that is not cached has not been committed. -/
def Inv {α : Type} (db : α) (s : State α) : Prop :=
  (s.entry = none ∧ s.last = none) ∨ s.entry = some (logical db s)

theorem inv_step {α : Type} (db : α) (s : State α) (op : Op α) (h : Inv db s) :
    Inv db (step db s op) := by
  cases op with
  | publish =>
    rcases h with ⟨he, hl⟩ | he
    · right; simp [step, logical, he, hl]
    · right; simp [step, logical, he]
  | commit v => right; simp [step, logical]

theorem inv_run {α : Type} (db : α) (ops : List (Op α)) (s : State α) (h : Inv db s) :
    Inv db (ops.foldl (step db) s) := by
  induction ops generalizing s with
  | nil => exact h
  | cons op rest ih => exact ih _ (inv_step db s op h)

/-- **account_fill_coherent.** For every interleaving of account-filling reads (any number of
    readers, each publishing the database value at any later time) with any sequence of commits,
    the account the cache serves afterwards is the account revm's `State` serves after the same
    commits: a late publication never replaces a committed entry. -/
theorem account_fill_coherent {α : Type} (db : α) (ops : List (Op α)) :
    returned db (run db ops) = logical db (run db ops) := by
  have h := inv_run db ops init (Or.inl ⟨rfl, rfl⟩)
  unfold returned
  rcases h with ⟨he, hl⟩ | he
  · simp [run, logical, he, hl]
  · simp [run, he]

/-- **blind_publish_violates** (the shape of seeded change C10e): with a blind insert, a reader
    that fetched before a commit and publishes after it leaves the pre-block account in the
    cache. -/
theorem blind_publish_violates :
    (blindRun (0 : Nat) [.commit 7, .publish]).entry = some 0 ∧
    logical (0 : Nat) (blindRun 0 [.commit 7, .publish]) = 7 := by
  decide

example : (run (0 : Nat) [.publish, .commit 7, .publish]).entry = some 7 := by decide

end Grevm.AccountFill

/-! ### the account-status machine: grevm's caches refine revm's `CacheAccount` -/

namespace Grevm.Acct

/-- One operation: if grevm's code does not panic (`G.step` answers), revm's `State` produces the
    same output — the same `TransitionAccount` (info, status, previous info, previous status,
    storage-was-destroyed flag), the same account info, the same slot value, the same drained amount
    — and the two states stay related. -/
theorem step_refines {db : Db} (hdb : db.Ok) {g : G} {s : S} (hR : R db g s) (op : Op)
    (hpre : op.Pre) {g' : G} {o : Out} (hstep : G.step db g op = some (g', o)) :
    ∃ s', S.step db s op = (s', o) ∧ R db g' s' := by
  cases op with
  | basic =>
    obtain ⟨g1, s1, o1, h1, h2, h3⟩ := sim_basic hdb hR
    rw [h1] at hstep; cases hstep; exact ⟨s1, h2, h3⟩
  | read k =>
    obtain ⟨g1, s1, v, h1, h2, h3⟩ := sim_read hR k
    rw [h1] at hstep; cases hstep; exact ⟨s1, h2, h3⟩
  | selfdestruct =>
    cases hga : g.acct with
    | none => simp [G.step, hga] at hstep
    | some ga =>
      simp [G.step, hga] at hstep
      obtain ⟨rfl, rfl⟩ := hstep
      obtain ⟨ht, hR'⟩ := sim_selfdestruct hdb hR ga hga
      exact ⟨_, by simp [S.step, ht], hR'⟩
  | create i c =>
    cases hga : g.acct with
    | none => simp [G.step, hga] at hstep
    | some ga =>
      simp [G.step, hga] at hstep
      obtain ⟨rfl, rfl⟩ := hstep
      obtain ⟨ht, hR'⟩ := sim_create hdb hR ga hga i c
      exact ⟨_, by simp [S.step, ht], hR'⟩
  | touchEmpty =>
    cases hga : g.acct with
    | none => simp [G.step, hga] at hstep
    | some ga =>
      simp [G.step, hga] at hstep
      obtain ⟨rfl, rfl⟩ := hstep
      obtain ⟨ht, hR'⟩ := sim_touchEmpty hdb hR ga hga
      exact ⟨_, by simp [S.step, ht], hR'⟩
  | change i c =>
    cases hga : g.acct with
    | none => simp [G.step, hga] at hstep
    | some ga =>
      simp [G.step, hga] at hstep
      obtain ⟨rfl, rfl⟩ := hstep
      obtain ⟨ht, hR'⟩ := sim_change_loaded hdb hR i c
      rw [loaded_of_some hga] at ht hR'
      exact ⟨_, by simp [S.step, ht], hR'⟩
  | increment amt =>
    have hamt : amt ≠ 0 := hpre
    simp [G.step, hamt] at hstep
    obtain ⟨rfl, rfl⟩ := hstep
    have hinfo := hR.info
    have hne : ({ (Option.getD (g.loaded db).info Info.zero) with
        balance := satAdd ((g.loaded db).info.getD Info.zero).balance amt } : Info).isEmpty = false := by
      have := satAdd_pos ((g.loaded db).info.getD Info.zero).balance amt hamt
      simp [Info.isEmpty, this]
    obtain ⟨ht, hR'⟩ := sim_change_loaded hdb hR
      { (Option.getD (g.loaded db).info Info.zero) with
        balance := satAdd ((g.loaded db).info.getD Info.zero).balance amt } Slots.none
    have hext : g.slots.extend Slots.none = g.slots := by
      funext k; simp [Slots.extend, Slots.none]
    rw [hext] at hR'
    refine ⟨_, ?_, hR'⟩
    simp only [S.step, SAcct.applyTouched, ← hinfo, hne]
    simp [ht]
  | drain =>
    simp [G.step] at hstep
    obtain ⟨rfl, rfl⟩ := hstep
    have hinfo := hR.info
    obtain ⟨ht, hR'⟩ := sim_applyTouched hdb hR
      { (Option.getD (g.loaded db).info Info.zero) with balance := 0 }
    refine ⟨_, ?_, hR'⟩
    simp only [S.step, ← hinfo]
    simp [ht]

/-- **acct_machine_refines_revm.** For every backing store that meets revm's own assumption (no
    storage under an account without nonce and code) and EVERY history of loads, slot reads,
    committed journal states (selfdestruct, create, empty-touch, change), balance increments
    (non-zero, as documented) and drains on which grevm's code does not panic, revm's `State`
    produces exactly the same outputs — transitions (which is what the bundle is built from),
    account infos, slot values, drained amounts — and the final states are related. -/
theorem acct_machine_refines_revm {db : Db} (hdb : db.Ok) (ops : List Op) :
    ∀ {g : G} {s : S}, R db g s → (∀ op ∈ ops, op.Pre) →
    ∀ {g' : G} {outs : List Out}, G.run db g ops = some (g', outs) →
      (S.run db s ops).2 = outs ∧ R db g' (S.run db s ops).1 := by
  induction ops with
  | nil => intro g s hR _ g' outs h; simp [G.run] at h; obtain ⟨rfl, rfl⟩ := h; exact ⟨rfl, hR⟩
  | cons op rest ih =>
    intro g s hR hpre g' outs h
    simp only [G.run] at h
    cases hs : G.step db g op with
    | none => simp [hs] at h
    | some p =>
      obtain ⟨g1, o⟩ := p
      simp only [hs] at h
      cases hr : G.run db g1 rest with
      | none => simp [hr] at h
      | some q =>
        obtain ⟨g2, os⟩ := q
        simp only [hr] at h
        cases h
        obtain ⟨s1, hs1, hR1⟩ := step_refines hdb hR op (hpre op (by simp)) hs
        obtain ⟨ho, hR2⟩ := ih hR1 (fun x hx => hpre x (by simp [hx])) hr
        simp only [S.run, hs1]
        exact ⟨by rw [ho], hR2⟩

/-- From the empty caches. -/
theorem acct_history_refines_revm {db : Db} (hdb : db.Ok) (ops : List Op) (hpre : ∀ op ∈ ops, op.Pre)
    {g' : G} {outs : List Out} (h : G.run db G.init ops = some (g', outs)) :
    (S.run db S.init ops).2 = outs ∧ R db g' (S.run db S.init ops).1 :=
  acct_machine_refines_revm hdb ops (R_init db hdb) hpre h

/-- **reads_equal_after_any_history.** After any such history every slot and the account read
    through grevm's caches equal what revm's `State` serves. -/
theorem reads_equal_after_any_history {db : Db} (hdb : db.Ok) (ops : List Op)
    (hpre : ∀ op ∈ ops, op.Pre) {g' : G} {outs : List Out}
    (h : G.run db G.init ops = some (g', outs)) :
    (∀ k, g'.readVal db k = (S.run db S.init ops).1.readVal db k) ∧
    (g'.loaded db).info = ((S.run db S.init ops).1.loaded db).info ∧
    (g'.loaded db).status = ((S.run db S.init ops).1.loaded db).status :=
  let r := (acct_history_refines_revm hdb ops hpre h).2
  ⟨r.reads, r.info, r.status⟩

/-- Once the account is cached grevm's code cannot panic, and the account stays cached. -/
theorem step_total_of_cached (db : Db) (g : G) (op : Op) (h : g.acct.isSome = true) :
    ∃ g' o, G.step db g op = some (g', o) ∧ g'.acct.isSome = true := by
  cases hga : g.acct with
  | none => simp [hga] at h
  | some ga =>
    cases op with
    | basic => exact ⟨_, _, rfl, by simp [G.load]⟩
    | read k =>
      obtain ⟨g', hg, hacct, _⟩ := G_read_spec db g k
      exact ⟨g', _, hg, by rw [hacct, hga]; rfl⟩
    | selfdestruct => simp only [G.step, hga, Option.map]; exact ⟨_, _, rfl, rfl⟩
    | create i c => simp only [G.step, hga, Option.map]; exact ⟨_, _, rfl, rfl⟩
    | touchEmpty => simp only [G.step, hga, Option.map]; exact ⟨_, _, rfl, rfl⟩
    | change i c => simp only [G.step, hga, Option.map]; exact ⟨_, _, rfl, rfl⟩
    | increment amt =>
      by_cases hamt : amt = 0
      · simp only [G.step, hamt, if_true]; exact ⟨g, _, rfl, h⟩
      · simp only [G.step, hamt, if_false]; exact ⟨_, _, rfl, rfl⟩
    | drain =>
      simp only [G.step]
      refine ⟨_, _, rfl, ?_⟩
      simp only [G.applyTouched]; split <;> rfl

theorem run_total_of_cached (db : Db) (ops : List Op) :
    ∀ g : G, g.acct.isSome = true → ∃ g' outs, G.run db g ops = some (g', outs) := by
  induction ops with
  | nil => intro g _; exact ⟨g, [], rfl⟩
  | cons op rest ih =>
    intro g h
    obtain ⟨g1, o, hs, h1⟩ := step_total_of_cached db g op h
    obtain ⟨g2, os, hr⟩ := ih g1 h1
    exact ⟨g2, o :: os, by simp [G.run, hs, hr]⟩

/-- **loaded_history_refines_revm.** The hypothesis "grevm does not panic" of
    `acct_machine_refines_revm` is met by every history that starts by loading the account (as
    execution does before it can commit it): such a history always runs, and revm's `State`
    answers it identically. -/
theorem loaded_history_refines_revm {db : Db} (hdb : db.Ok) (ops : List Op)
    (hpre : ∀ op ∈ ops, op.Pre) :
    ∃ g' outs, G.run db G.init (.basic :: ops) = some (g', outs) ∧
      (S.run db S.init (.basic :: ops)).2 = outs ∧ R db g' (S.run db S.init (.basic :: ops)).1 := by
  obtain ⟨g1, o, hs, h1⟩ : ∃ g1 o, G.step db G.init .basic = some (g1, o) ∧ g1.acct.isSome = true :=
    ⟨_, _, rfl, by simp [G.load]⟩
  obtain ⟨g2, os, hr⟩ := run_total_of_cached db ops g1 h1
  have hrun : G.run db G.init (.basic :: ops) = some (g2, o :: os) := by simp [G.run, hs, hr]
  have hpre' : ∀ op ∈ (Op.basic :: ops), op.Pre := by
    intro op hop
    rcases List.mem_cons.mp hop with rfl | h
    · trivial
    · exact hpre op h
  exact ⟨g2, o :: os, hrun, acct_history_refines_revm hdb _ hpre' hrun⟩

/-- **transition_is_exact_delta.** Every transition grevm reports for a committed journal state
    records exactly the cache entry before (previous info / status) and after (info / status) the
    operation — so the transitions of a block chain (each one's "previous" is its predecessor's
    "present"), which is what revert construction relies on. -/
theorem transition_is_exact_delta (db : Db) (g g' : G) (ga : GAcct) (op : Op) (t : Trans)
    (hga : g.acct = some ga)
    (hop : op = .selfdestruct ∨ op = .touchEmpty ∨ (∃ i c, op = .create i c) ∨ (∃ i c, op = .change i c))
    (h : G.step db g op = some (g', .trans (some t))) :
    t.prevInfo = ga.info ∧ t.prevStatus = ga.status ∧ g'.acct = some ⟨t.info, t.status⟩ := by
  rcases hop with rfl | rfl | ⟨i, c, rfl⟩ | ⟨i, c, rfl⟩
  · simp only [G.step, hga, Option.map, GAcct.selfdestruct] at h
    simp only [Option.some.injEq, Prod.mk.injEq, Out.trans.injEq] at h
    obtain ⟨rfl, ht⟩ := h
    split at ht
    · cases ht
    · cases ht; exact ⟨rfl, rfl, rfl⟩
  · simp only [G.step, hga, Option.map, GAcct.touchEmpty] at h
    simp only [Option.some.injEq, Prod.mk.injEq, Out.trans.injEq] at h
    obtain ⟨rfl, ht⟩ := h
    split at ht
    · cases ht
    · cases ht; exact ⟨rfl, rfl, rfl⟩
  · simp only [G.step, hga, Option.map, GAcct.newlyCreated] at h
    simp only [Option.some.injEq, Prod.mk.injEq, Out.trans.injEq] at h
    obtain ⟨rfl, ht⟩ := h
    cases ht; exact ⟨rfl, rfl, rfl⟩
  · simp only [G.step, hga, Option.map, GAcct.change] at h
    simp only [Option.some.injEq, Prod.mk.injEq, Out.trans.injEq] at h
    obtain ⟨rfl, ht⟩ := h
    cases ht; exact ⟨rfl, rfl, rfl⟩

/-- **storage_known_is_monotone.** No status transition of a committed account makes a
    storage-known account storage-unknown again (so a zero served for an unread slot is never
    retracted in favour of the database). -/
theorem storage_known_is_monotone (st : Status) (h : st.known = true) (b : Bool) :
    (st.onChanged b).known = true ∧ st.onCreated.known = true ∧
    st.onSelfdestructed.known = true ∧ st.onTouchedEmpty.known = true :=
  ⟨known_mono_changed st b h, known_created st, known_selfdestructed st, known_touched st⟩

/-- **destroyed_account_serves_zero.** Right after a selfdestruct or an empty-touch is committed
    every slot reads zero on the grevm side, whatever was cached or is in the database. -/
theorem destroyed_account_serves_zero (db : Db) (g g' : G) (o : Out) (op : Op)
    (hop : op = .selfdestruct ∨ op = .touchEmpty) (h : G.step db g op = some (g', o)) (k : Nat) :
    g'.readVal db k = 0 := by
  rcases hop with rfl | rfl <;>
  · cases hga : g.acct with
    | none => simp [G.step, hga] at h
    | some ga =>
      simp [G.step, hga] at h
      obtain ⟨rfl, _⟩ := h
      simp [G.readVal, Slots.none, G.known, GAcct.selfdestruct, GAcct.touchEmpty]

/-- The precondition on increments is needed: a zero increment of an existing empty account is
    skipped by grevm and committed as a touch (which deletes the account) by revm's default
    `increment_balances`. Callers pass non-zero amounts. -/
theorem zero_increment_differs :
    let db : Db := ⟨some Info.zero, fun _ => 0⟩
    (G.run db G.init [.increment 0, .basic]).map (·.2) = some [.trans none, .info (some Info.zero)] ∧
    (S.run db S.init [.increment 0, .basic]).2 ≠ [.trans none, .info (some Info.zero)] := by
  decide

/-- Non-vacuity: a history with a destroy, a re-creation with a slot, a change, reads, an
    increment and a drain runs on the grevm side and both sides answer alike. -/
example :
    let db : Db := ⟨some ⟨1, 5, 2⟩, fun k => if k = 0 then 40 else 0⟩
    let ops : List Op := [.basic, .read 0, .selfdestruct, .read 0,
      .create ⟨1, 0, 3⟩ (fun k => if k = 1 then some 9 else none), .read 1, .read 0,
      .change ⟨2, 7, 3⟩ (fun k => if k = 0 then some 4 else none), .read 0, .increment 3, .drain, .basic]
    (G.run db G.init ops).map (·.2) = some (S.run db S.init ops).2 ∧
    ((G.run db G.init ops).map (·.2)).isSome = true := by
  decide

end Grevm.Acct
