/-
C10 — reads performed concurrently by speculative workers never change what the committed-state
cache later serves.  Model: `Grevm/Model/Cache.lean`.
-/
import Grevm.Model.Cache
import Grevm.Lemmas.Cache
import Grevm.Model.AccountFill

namespace Grevm.Cache

/-- Well-formed start: a storage-known account has no storage in the database view that matters
    (`init` sets `logical` accordingly). -/
def Reachable (fixed : Bool) (s : State) : Prop :=
  ∃ dbv known as, run fixed (init dbv known) as = some s

/-- **cache_coherent.** With the repaired code, in every reachable state in which no commit is in
    progress, the value the cache serves for the slot is the value revm's `State` serves — for any
    number of readers, any history of destroy / create / update commits and any interleaving of
    reader steps with commit steps. -/
theorem cache_coherent (s : State) (h : Reachable true s) (hc : s.cpc = .idle) :
    serve s = s.logical := by
  obtain ⟨dbv, known, as, hrun⟩ := h
  have hinv := (inv_run (inv_init dbv known) hrun).2
  unfold CInv at hinv
  simpa only [hc] using hinv

/-- What a finished reader was told is not constrained (it may be stale: the attempt is
    speculative and validated elsewhere), but what it LEFT in the cache is: -/
theorem cache_entry_current (s : State) (h : Reachable true s) (hc : s.cpc = .idle) (v : Nat)
    (hv : s.cache = some v) : v = s.logical := by
  have h1 := cache_coherent s h hc
  simpa only [serve, hv] using h1

/-- **f1_original_order_violates.** The original order (slots cleared before the status is
    updated, no re-check at the insert) reaches a quiescent state that serves a value revm's State
    does not: reader fetches 42, the account is destroyed, the reader inserts 42. -/
theorem f1_original_order_violates :
    ∃ s, Reachable false s ∧ s.cpc = .idle ∧ (∀ t, s.rpc t = .idle ∨ ∃ v, s.rpc t = .done v) ∧
      serve s ≠ s.logical := by
  refine ⟨{ known := true, cache := some 42, dbv := 42, logical := 0,
            rpc := fun u => if u = 0 then .done 42 else .idle, cpc := .idle },
          ⟨42, false, [.rLook 0, .cBegin .destroy, .rInsert 0, .cClear], ?_⟩, rfl, ?_, ?_⟩
  · simp [run, step, init, setR, Op.logicalAfter, Op.write]
    funext u
    by_cases hu : u = 0 <;> simp [hu]
  · intro t
    by_cases ht : t = 0
    · exact Or.inr ⟨42, by simp [ht]⟩
    · exact Or.inl (by simp [ht])
  · simp [serve]

/-- Non-vacuity of `cache_coherent`: the F1 schedule on the repaired code ends coherent. -/
example :
    (run true (init 42 false) [.rLook 0, .cBegin .destroy, .cClear, .rInsert 0]).map
      (fun s => (serve s, s.logical)) = some (0, 0) := by decide

end Grevm.Cache

namespace Grevm.AccountFill

/-- Invariant: an account that is cached holds the latest committed value (the database value
    before the first commit); an account that is not cached has not been committed. -/
def Inv {α : Type} (db : α) (s : State α) : Prop :=
  (s.entry = none ∧ s.last = none) ∨ s.entry = some (logical db s)

theorem inv_step {α : Type} (db : α) (s : State α) (op : Op α) (h : Inv db s) :
    Inv db (step db s op) := by
  cases op with
  | publish =>
    rcases h with ⟨he, hl⟩ | he
    · right; simp [step, logical, he, hl]
    · right; simp [step, logical, he]
  | commit v => right; simp [step, logical]

theorem inv_run {α : Type} (db : α) (ops : List (Op α)) (s : State α) (h : Inv db s) :
    Inv db (ops.foldl (step db) s) := by
  induction ops generalizing s with
  | nil => exact h
  | cons op rest ih => exact ih _ (inv_step db s op h)

/-- **account_fill_coherent.** For every interleaving of account-filling reads (any number of
    readers, each publishing the database value at any later time) with any sequence of commits,
    the account the cache serves afterwards is the account revm's `State` serves after the same
    commits: a late publication never replaces a committed entry. -/
theorem account_fill_coherent {α : Type} (db : α) (ops : List (Op α)) :
    returned db (run db ops) = logical db (run db ops) := by
  have h := inv_run db ops init (Or.inl ⟨rfl, rfl⟩)
  unfold returned
  rcases h with ⟨he, hl⟩ | he
  · simp [run, logical, he, hl]
  · simp [run, he]

/-- **blind_publish_violates** (the shape of seeded change C10e): with a blind insert, a reader
    that fetched before a commit and publishes after it leaves the pre-block account in the
    cache. -/
theorem blind_publish_violates :
    (blindRun (0 : Nat) [.commit 7, .publish]).entry = some 0 ∧
    logical (0 : Nat) (blindRun 0 [.commit 7, .publish]) = 7 := by
  decide

example : (run (0 : Nat) [.publish, .commit 7, .publish]).entry = some 7 := by decide

end Grevm.AccountFill
