/-
C04 — errors are faithful and leave an exact committed prefix (decision logic part).
Model: `Grevm/Model/Commit.lean`.  The pinned tree violated the "never from a stale attempt"
clause (finding F2); see `error_branch_start_partial` and the witness in the harness corpus.
-/
import Grevm.Model.Commit

namespace Grevm.Commit

/-- **replay_error_prefix.** When the sequential replay meets a fatal error at relative position
    `k`, it returns exactly `k` outcomes (the completed prefix) and that error; nothing after it. -/
theorem replay_error_prefix (rs : List TxRes) :
    ∀ (k err : Nat), (replay rs).2 = some (k, err) →
    (replay rs).1.length = k ∧ rs[k]? = some (.fatal err) ∧
    ∀ j, j < k → ∃ r, rs[j]? = some r ∧ ∀ e, r ≠ .fatal e := by
  induction rs with
  | nil => intro k err h; simp [replay] at h
  | cons r rest ih =>
    intro k err h
    cases r with
    | fatal e =>
      simp [replay] at h
      obtain ⟨rfl, rfl⟩ := h
      exact ⟨by simp [replay], by simp, by intro j hj; omega⟩
    | ok x =>
      simp only [replay] at h ⊢
      cases hr : (replay rest).2 with
      | none => simp [hr] at h
      | some p =>
        simp [hr] at h
        obtain ⟨hk, he⟩ := h
        obtain ⟨h1, h2, h3⟩ := ih p.1 p.2 (by rw [hr])
        subst hk; subst he
        refine ⟨by simp [h1], by simpa using h2, ?_⟩
        intro j hj
        cases j with
        | zero => exact ⟨.ok x, by simp, by intro e; simp⟩
        | succ j => simpa using h3 j (by omega)
    | invalid x =>
      simp only [replay] at h ⊢
      cases hr : (replay rest).2 with
      | none => simp [hr] at h
      | some p =>
        simp [hr] at h
        obtain ⟨hk, he⟩ := h
        obtain ⟨h1, h2, h3⟩ := ih p.1 p.2 (by rw [hr])
        subst hk; subst he
        refine ⟨by simp [h1], by simpa using h2, ?_⟩
        intro j hj
        cases j with
        | zero => exact ⟨.invalid x, by simp, by intro e; simp⟩
        | succ j => simpa using h3 j (by omega)

/-- **post_execute mapping.** An error is returned only for a recorded fatal execution error or a
    commit error, with that transaction's index; every other abort replays the suffix from the
    committed boundary. -/
theorem post_execute_returns (aborted : Bool) (reason : Option AbortReason)
    (stored : Nat → Option Nat) (txid err : Nat)
    (h : postExecute aborted reason stored = .returnError txid err) :
    aborted = true ∧
      ((reason = some (.fatalEvmError txid) ∧ stored txid = some err) ∨
       reason = some (.commitError txid err)) := by
  unfold postExecute at h
  cases aborted <;> simp at h
  refine ⟨rfl, ?_⟩
  cases reason with
  | none => simp at h
  | some r =>
    cases r with
    | fatalEvmError t =>
      simp at h
      cases hs : stored t with
      | none => simp [hs] at h
      | some e =>
        simp [hs] at h
        obtain ⟨rfl, rfl⟩ := h
        exact Or.inl ⟨rfl, hs⟩
    | commitError t e => simp at h; obtain ⟨rfl, rfl⟩ := h; exact Or.inr rfl
    | parallelError t => simp at h
    | fallbackSequential => simp at h

/-- **error_branch_start_partial.** A fatal abort is raised only for an attempt that the branch
    regards as the commit head.  On the pinned tree `atCommitHead` was evaluated when the attempt
    ENDED (finding F2: a stale attempt that ends as commit head reports its error); with the
    repair it is evaluated when the attempt STARTS, and an attempt that starts at the commit head
    reads only final state (pipeline theorem), so its error is the in-order error. -/
theorem error_branch_start_partial (atHead invalid : Bool) (txid : Nat) (r : AbortReason)
    (h : errorBranch atHead invalid txid = some r) :
    atHead = true ∧ (r = .fatalEvmError txid ∨ r = .fallbackSequential) := by
  unfold errorBranch at h
  cases atHead <;> simp at h
  refine ⟨rfl, ?_⟩
  cases invalid <;> simp at h <;> subst h <;> simp

/-- **head_attempt_is_in_order.** An attempt that starts at the commit head (and therefore
    validates the nonce, finding F7) yields what in-order execution of that transaction yields, when
    its execution runs on final state. -/
theorem head_attempt_is_in_order (nonceBad : Option Nat) (exec : TxRes) :
    attempt true nonceBad exec = inOrderTx nonceBad exec := by
  cases nonceBad <;> rfl

/-- **fatal_only_if_in_order_fatal.** With the repair, a fatal abort is raised only when in-order
    execution of that transaction is fatal: a transaction that in-order validation rejects for
    its nonce can never abort the block with an execution error, whatever its execution would
    have met (database fault on the recipient, fatal precompile). -/
theorem fatal_only_if_in_order_fatal (atHead : Bool) (txid : Nat) (nonceBad : Option Nat) (exec : TxRes)
    (h : abortFor atHead txid (attempt atHead nonceBad exec) = some (.fatalEvmError txid)) :
    atHead = true ∧ ∃ e, inOrderTx nonceBad exec = .fatal e := by
  cases atHead with
  | false => cases nonceBad <;> cases exec <;> simp [attempt, abortFor, errorBranch] at h
  | true =>
    refine ⟨rfl, ?_⟩
    cases nonceBad with
    | some r => simp [attempt, abortFor, errorBranch] at h
    | none => cases exec <;> simp [attempt, abortFor, errorBranch, inOrderTx] at h ⊢

/-- **f7_unchecked_head_attempt_violates.** Without the nonce validation at the head (the pinned
    tree), a transaction that in-order execution merely skips aborts the block with the error its
    execution met. -/
theorem f7_unchecked_head_attempt_violates :
    abortFor true 0 (attempt false (some 1) (.fatal 9)) = some (.fatalEvmError 0) ∧
      inOrderTx (some 1) (.fatal 9) = .invalid 1 := by decide

example : replay [.ok 1, .invalid 7, .fatal 9, .ok 2] = ([.executed 1, .skipped 7], some (2, 9)) := by
  decide

/-- **fee_fault_reported_at_boundary** (finding F8, repaired).  When the fee recipient's account
    cannot be read, every path that loads it at the boundary — the parallel path before its workers
    start, and the sequential replay since the repair — reports that error at the boundary with
    nothing committed, whatever the transactions are; without a fault the replay is unchanged. -/
theorem fee_fault_reported_at_boundary (e : Nat) (txs : List TxRes) :
    replayPreload (some e) txs = ([], some (0, e)) ∧ replayPreload none txs = replay txs :=
  ⟨rfl, rfl⟩

/-- Without a fault on the fee recipient the unrepaired sequential path computed the same replay. -/
theorem no_preload_same_without_fault (needs : Nat → Bool) (i : Nat) (txs : List TxRes) :
    replayNoPreload none needs i txs = replay txs := by
  induction txs generalizing i with
  | nil => rfl
  | cons x rest ih =>
    cases x with
    | ok r => simp [replayNoPreload, replay, ih]
    | invalid reason => simp [replayNoPreload, replay, ih]
    | fatal err => rfl

/-- **f8_no_preload_depends_on_path.** The unrepaired sequential path reported the same fault
    at the first transaction that pays a fee, after committing what precedes it: for
    `[invalid, ok, ok]` it returns one outcome and index 1 where the parallel path (and the
    reference of C04, which loads the fee recipient up front) returns none and index 0. -/
theorem f8_no_preload_depends_on_path :
    replayNoPreload (some 9) (fun _ => true) 0 [.invalid 3, .ok 1, .ok 2] = ([.skipped 3], some (1, 9)) ∧
    replayPreload (some 9) [.invalid 3, .ok 1, .ok 2] = ([], some (0, 9)) := by
  decide

end Grevm.Commit
