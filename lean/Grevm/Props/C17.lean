/-
C17 — coordinator notifications are never lost.  Model: `Grevm/Model/WaitSlot.lean`.
-/
import Grevm.Model.WaitSlot

namespace Grevm.WaitSlot

def Pending (s : State) (j : Nat) : Prop := s.npc j = .published ∨ s.npc j = .unparking

structure Inv (s : State) : Prop where
  reg : s.wpc ≠ .start → s.registered = true
  wake : s.ready = true → s.wpc = .park → s.token = false → ∃ j, Pending s j

theorem inv_init : Inv init := ⟨by simp [init], by simp [init]⟩

theorem inv_step {s s' : State} {a : Act} (hi : Inv s) (h : step s a = some s') : Inv s' := by
  cases a with
  | wStep =>
    simp only [step] at h
    split at h
    · simp at h; subst h; exact ⟨by simp, by simp⟩
    · rename_i hw
      have hr := hi.reg (by simp [hw])
      split at h <;> simp at h <;> subst h <;> exact ⟨by simp [hr], by simp⟩
    · rename_i hw
      have hr := hi.reg (by simp [hw])
      split at h <;> simp at h <;> subst h
      · exact ⟨by simp [hr], by simp⟩
      · rename_i hready
        exact ⟨by simp [hr], by intro h1; simp at h1; simp [h1] at hready⟩
    · rename_i hw
      have hr := hi.reg (by simp [hw])
      split at h <;> simp at h
      subst h
      exact ⟨by simp [hr], by simp⟩
    · simp at h
  | nPublish j v =>
    simp only [step] at h
    split at h <;> simp at h
    subst h
    refine ⟨by simpa [setN] using hi.reg, ?_⟩
    intro _ _ _
    exact ⟨j, Or.inl (by simp [setN])⟩
  | nStep j =>
    simp only [step] at h
    split at h
    · simp at h
    · rename_i hj
      split at h <;> simp at h <;> subst h
      · refine ⟨by simpa [setN] using hi.reg, ?_⟩
        intro _ _ _
        exact ⟨j, Or.inr (by simp [setN])⟩
      · rename_i hreg
        refine ⟨by simpa [setN] using hi.reg, ?_⟩
        intro _ h2 _
        simp only [setN] at h2
        have := hi.reg (by rw [h2]; simp)
        simp [this] at hreg
    · simp at h
      subst h
      refine ⟨by simpa [setN] using hi.reg, ?_⟩
      intro _ _ h3
      simp [setN] at h3

theorem inv_run : ∀ (as : List Act) (s s' : State), Inv s → run s as = some s' → Inv s' := by
  intro as
  induction as with
  | nil => intro s s' hi h; simp [run] at h; subst h; exact hi
  | cons a as ih =>
    intro s s' hi h
    simp only [run] at h
    split at h
    · simp at h
    · rename_i s1 hstep
      exact ih s1 s' (inv_step hi hstep) h

/-- **no_lost_wakeup.** In every reachable state — any number of producers, any interleaving of
    register / check / yield / check / park with publish / notify — a waiter that is parked while
    its condition holds has a token waiting or a producer whose `unpark` is still to come. -/
theorem no_lost_wakeup (as : List Act) (s : State) (h : run init as = some s)
    (hpark : s.wpc = .park) (hready : s.ready = true) :
    s.token = true ∨ ∃ j, Pending s j := by
  have hi := inv_run as _ _ inv_init h
  cases ht : s.token with
  | true => exact Or.inl rfl
  | false => exact Or.inr (hi.wake hready hpark ht)

/-- **delivery.** From such a state at most two further producer steps (no timer, no step of the
    waiter) make the park return: the stall timeout is never what wakes the waiter. -/
theorem wakeup_within_two_steps (as : List Act) (s : State) (h : run init as = some s)
    (hpark : s.wpc = .park) (hready : s.ready = true) :
    ∃ bs : List Act, bs.length ≤ 2 ∧ (∀ b ∈ bs, ∃ j, b = .nStep j) ∧
      ∃ s', run s bs = some s' ∧ s'.token = true ∧ s'.wpc = .park := by
  have hi := inv_run as _ _ inv_init h
  have hreg := hi.reg (by rw [hpark]; simp)
  rcases no_lost_wakeup as s h hpark hready with ht | ⟨j, hj | hj⟩
  · exact ⟨[], by simp, by simp, s, by simp [run], ht, hpark⟩
  · refine ⟨[.nStep j, .nStep j], by simp, by simp, ?_⟩
    simp [run, step, hj, hreg, setN, hpark]
  · refine ⟨[.nStep j], by simp, by simp, ?_⟩
    simp [run, step, hj, setN, hpark]

/-- A parked waiter holding a token is enabled, consumes it and re-examines its predicate. -/
theorem park_returns_to_check {s : State} (hpark : s.wpc = .park) (ht : s.token = true) :
    ∃ s', step s .wStep = some s' ∧ s'.wpc = .check1 := by
  simp [step, hpark, ht]

/-- Non-vacuity: the notification lands between the second check and the park. -/
example : (run init [.wStep, .wStep, .wStep, .nPublish 0 true, .nStep 0, .nStep 0, .wStep, .wStep]).map
    (fun s => (s.wpc, s.token)) = some (.done, false) := by decide

/-- Non-vacuity: the notification arrives before registration and is covered by the predicate. -/
example : (run init [.nPublish 0 true, .nStep 0, .wStep, .wStep]).map (fun s => s.wpc) =
    some .done := by decide

/-! ### No quiescent state short of `done` -/

/-- Only a producer's publish changes the condition. -/
theorem ready_changes_only_by_publish {s s' : State} {a : Act} (h : step s a = some s')
    (hne : ∀ j v, a ≠ .nPublish j v) : s'.ready = s.ready := by
  cases a with
  | wStep =>
    simp only [step] at h
    split at h
    · simp at h; subst h; rfl
    · split at h <;> simp at h <;> subst h <;> rfl
    · split at h <;> simp at h <;> subst h <;> rfl
    · split at h <;> simp at h; subst h; rfl
    · simp at h
  | nPublish j v => exact absurd rfl (hne j v)
  | nStep j =>
    simp only [step] at h
    split at h
    · simp at h
    · split at h <;> simp at h <;> subst h <;> rfl
    · simp at h; subst h; rfl

/-- **no_deadlock.** A reachable state in which the condition holds and in which neither the
    waiter nor any producer's pending `notify` can take a step is a state in which the waiter has
    returned: the system never comes to rest with the coordinator parked on a true condition, so
    there is nothing for the stall timer to rescue. -/
theorem quiescent_implies_done (as : List Act) (s : State) (h : run init as = some s)
    (hready : s.ready = true) (hw : step s .wStep = none) (hn : ∀ j, step s (.nStep j) = none) :
    s.wpc = .done := by
  have hi := inv_run as _ _ inv_init h
  cases hpc : s.wpc with
  | start => simp [step, hpc] at hw
  | check1 => simp [step, hpc, hready] at hw
  | check2 => simp [step, hpc, hready] at hw
  | done => rfl
  | park =>
    cases ht : s.token with
    | true => simp [step, hpc, ht] at hw
    | false =>
      rcases hi.wake hready hpc ht with ⟨j, hj | hj⟩
      · have := hn j
        simp only [step, hj] at this
        split at this <;> simp at this
      · have := hn j
        simp [step, hj] at this

/-- The waiter is never disabled except when parked without a token or finished. -/
theorem waiter_blocked_only_at_park {s : State} (hw : step s .wStep = none) :
    (s.wpc = .park ∧ s.token = false) ∨ s.wpc = .done := by
  cases hpc : s.wpc with
  | start => simp [step, hpc] at hw
  | check1 => simp only [step, hpc] at hw; split at hw <;> simp at hw
  | check2 => simp only [step, hpc] at hw; split at hw <;> simp at hw
  | done => exact Or.inr rfl
  | park =>
    cases ht : s.token with
    | true => simp [step, hpc, ht] at hw
    | false => exact Or.inl ⟨rfl, rfl⟩

/-- Non-vacuity of `quiescent_implies_done`: a quiescent reachable state with the condition set. -/
example : (run init [.wStep, .wStep, .wStep, .nPublish 0 true, .nStep 0, .nStep 0, .wStep, .wStep]).map
    (fun s => (s.ready, (step s .wStep).isNone, (step s (.nStep 0)).isNone)) =
      some (true, true, true) := by decide

end Grevm.WaitSlot
