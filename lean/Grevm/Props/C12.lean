/-
C12 — the delegated-CREATE guard halts exactly delegated-context creates, nothing else.
Model: `Grevm/Model/Guard.lean`.  The decision has six boolean inputs; the theorems quantify over
all of them (kernel-checked case analysis, no sampling).  That every *other* opcode, gas cost and
error is stock revm's is structural (the table is `new_mainnet_with_spec` with two entries
replaced) and is exercised by the end-to-end comparison with stock revm driven by this very
decision function (harness oracle).
-/
import Grevm.Model.Guard

namespace Grevm.Guard

/-- Prague implies Petersburg (hardfork order). -/
def SpecOk (prague petersburg : Bool) : Prop := prague = true → petersburg = true

/-- **guard_halts.** Guard on, Prague or later, non-static frame of a delegated account: the frame
    halts as not-activated — for CREATE and CREATE2 alike. -/
theorem guard_halts (isCreate2 petersburg : Bool) (h : SpecOk true petersburg) :
    effective true true false isCreate2 petersburg true = .notActivated := by
  have := h rfl; subst this; cases isCreate2 <;> rfl

/-- **guard_only_delegated.** A frame whose context account carries no designator — ordinary
    contracts, top-level create transactions' init code — behaves as stock revm, guard on or off. -/
theorem guard_only_delegated (enabled prague isStatic isCreate2 petersburg : Bool) :
    effective enabled prague isStatic isCreate2 petersburg false
      = stockCreate isStatic isCreate2 petersburg := by
  cases enabled <;> cases prague <;> cases isStatic <;> cases isCreate2 <;> cases petersburg <;> rfl

/-- **guard_inert_off.** Guard disabled, or a spec before Prague: stock revm, whatever the target. -/
theorem guard_inert_off (enabled prague isStatic isCreate2 petersburg delegated : Bool)
    (h : enabled = false ∨ prague = false) :
    effective enabled prague isStatic isCreate2 petersburg delegated
      = stockCreate isStatic isCreate2 petersburg := by
  revert h
  cases enabled <;> cases prague <;> cases isStatic <;> cases isCreate2 <;> cases petersburg <;>
    cases delegated <;> simp [effective, stockCreate, guardedCreate, tableSwapped, forSpec]

/-- **errors_keep_precedence.** Static-call and pre-Petersburg CREATE2 errors are reported exactly
    as by stock revm, before the delegation check. -/
theorem errors_keep_precedence (enabled prague isStatic isCreate2 petersburg delegated : Bool)
    (h : stockCreate isStatic isCreate2 petersburg ≠ .stock) :
    effective enabled prague isStatic isCreate2 petersburg delegated
      = stockCreate isStatic isCreate2 petersburg := by
  revert h
  cases enabled <;> cases prague <;> cases isStatic <;> cases isCreate2 <;> cases petersburg <;>
    cases delegated <;> simp [effective, stockCreate, guardedCreate, tableSwapped, forSpec]

/-- **guard_exact.** The engine differs from stock revm at a create iff the guard is on, the spec is
    Prague or later, stock revm would have created, and the context account is delegated. -/
theorem guard_exact (enabled prague isStatic isCreate2 petersburg delegated : Bool) :
    effective enabled prague isStatic isCreate2 petersburg delegated
        ≠ stockCreate isStatic isCreate2 petersburg
      ↔ (enabled = true ∧ prague = true ∧ delegated = true ∧
          stockCreate isStatic isCreate2 petersburg = .stock) := by
  cases enabled <;> cases prague <;> cases isStatic <;> cases isCreate2 <;> cases petersburg <;>
    cases delegated <;> simp [effective, stockCreate, guardedCreate, tableSwapped, forSpec]

/-- A create that does not run cannot bump the context account's nonce: with `bump` the nonce
    increment a running create performs on its context account. -/
def nonceAfter (o : Outcome) (nonce : Nat) : Nat :=
  match o with
  | .stock => nonce + 1
  | _ => nonce

/-- **delegated_nonce_kept.** Under the guard, delegated code cannot advance the account's nonce. -/
theorem delegated_nonce_kept (isStatic isCreate2 petersburg : Bool) (nonce : Nat)
    (h : SpecOk true petersburg) :
    nonceAfter (effective true true isStatic isCreate2 petersburg true) nonce = nonce := by
  have := h rfl; subst this; cases isStatic <;> cases isCreate2 <;> rfl

/-- Non-vacuity: the three outcomes all occur. -/
example :
    (effective true true false false true true, effective true true false true true false,
      effective true false false false true true, effective true true true false true true)
      = (.notActivated, .stock, .stock, .staticViolation) := by decide

end Grevm.Guard
