/-
C01 — parallel execution equals in-order execution (the static core).
Model: `Grevm/Model/Block.lean`.  The dynamic part — that every finalized result has validated
reads — is the pipeline theorem in `Props/C02.lean`.
-/
import Grevm.Lemmas.Block

namespace Grevm.Block

/-- **validated_reads_imply_in_order.** Let `res i` be ANY recorded runs of the transactions (from
    whatever incarnation, worker and schedule they came) such that each is a possible run of its
    program and every value it read is the value that the final write sets of the preceding
    transactions (or the base state) hold for that location.  Then each `res i` is exactly the
    in-order run: same reads, same writes, same output or error. -/
theorem validated_reads_imply_in_order (txs : TxId → Prog) (base : Loc → Val) (res : TxId → Run)
    (n : Nat)
    (hcons : ∀ i, i < n → Consistent (txs i) (res i).reads (res i).out)
    (hreads : ∀ i, i < n → ∀ x ∈ (res i).reads,
      x.2 = view (fun j => (res j).out.writes) base i x.1) :
    ∀ i, i < n → res i = ideal txs base i := by
  intro i
  induction i using Nat.strongRecOn with
  | _ i ih =>
    intro hi
    have hW : ∀ j, j < i → (res j).out.writes = idealWrites txs base j := by
      intro j hj
      rw [ih j hj (Nat.lt_trans hj hi)]
      rfl
    have hview : ∀ l, view (fun j => (res j).out.writes) base i l =
        view (idealWrites txs base) base i l := fun l => view_congr _ _ base i hW l
    rw [ideal_eq]
    have := consistent_exec (txs i) (view (idealWrites txs base) base i) (res i).reads (res i).out
      (hcons i hi) (fun x hx => by rw [hreads i hi x hx, hview])
    rw [this]

/-- The outcome list and the final state of the block are then the in-order ones. -/
theorem outcomes_in_order (txs : TxId → Prog) (base : Loc → Val) (res : TxId → Run) (n : Nat)
    (hcons : ∀ i, i < n → Consistent (txs i) (res i).reads (res i).out)
    (hreads : ∀ i, i < n → ∀ x ∈ (res i).reads,
      x.2 = view (fun j => (res j).out.writes) base i x.1) :
    (List.range n).map (fun i => (res i).out) = (List.range n).map (fun i => (ideal txs base i).out) ∧
    ∀ l, view (fun j => (res j).out.writes) base n l = view (idealWrites txs base) base n l := by
  have h := validated_reads_imply_in_order txs base res n hcons hreads
  refine ⟨?_, ?_⟩
  · apply List.map_congr_left
    intro i hi
    rw [h i (List.mem_range.mp hi)]
  · intro l
    apply view_congr
    intro j hj
    rw [h j hj]; rfl

/-- Non-vacuity: tx 0 writes x := 5; tx 1 reads x and writes y := x + 1.  A recorded run of tx 1
    that read the stale base value 0 does NOT satisfy the hypothesis; the one that read 5 does and
    equals the in-order run. -/
example :
    let txs : TxId → Prog := fun i =>
      if i = 0 then .done [(0, 5)] 0 else .read 0 (fun v => .done [(1, v + 1)] v)
    (ideal txs (fun _ => 0) 1) = { reads := [(0, 5)], out := .ok [(1, 6)] 5 } := by
  decide

/-- **stale_source_read_is_not_in_order** (necessity of the read hypothesis; the shape of seeded
    change C01d).  tx 0 sets x; tx 1 writes y := 7 only while x is unset; tx 2 stores y + 1.  A run of
    tx 2 that read y = 7 — the write of a DISCARDED attempt of tx 1, which ran before tx 0 — is a
    possible run of its program, but it is not the in-order run, and the value it read is not the
    view of the final write sets: a validation that lets it pass (because the entry it read from has
    since been removed and no earlier writer is left) commits z = 8 instead of z = 1. -/
theorem stale_source_read_is_not_in_order :
    let txs : TxId → Prog := fun i =>
      if i = 0 then .done [(0, 1)] 0
      else if i = 1 then .read 0 (fun x => if x = 0 then .done [(1, 7)] 0 else .done [] 0)
      else .read 1 (fun y => .done [(2, y + 1)] 0)
    let stale : Run := { reads := [(1, 7)], out := .ok [(2, 8)] 0 }
    Consistent (txs 2) stale.reads stale.out ∧
    stale ≠ ideal txs (fun _ => 0) 2 ∧
    (ideal txs (fun _ => 0) 2) = { reads := [(1, 0)], out := .ok [(2, 1)] 0 } ∧
    view (idealWrites txs (fun _ => 0)) (fun _ => 0) 2 1 = 0 := by
  refine ⟨?_, ?_, ?_, ?_⟩
  · simp [Consistent]
  · decide
  · decide
  · decide

end Grevm.Block
