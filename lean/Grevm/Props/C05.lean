/-
C05 — every execution terminates: the part that is a safety property of the models.

* `progress`: no reachable state of the pipeline model (`Model/Sched.lean`) is stuck before the
  whole block is committed: some action is enabled.  Together with `Props/C16`
  (`claimable_covered`, `claimable_quiescent`, `edge_covered`: no transaction waits on an edge nobody
  will release, no claimable transaction is hidden from the claim cursor), `Props/C15`
  (`no_skip`, `rewind_reoffers`: the validation cursor re-offers every index that needs it) and
  `Props/C17` (`no_lost_wakeup`: a coordinator never sleeps through a notification) this rules out
  deadlock.  Fair termination itself (no livelock) is not a theorem here: the model lets the
  scheduler re-claim work arbitrarily; it is decided by the controller exploration (DESIGN.md).
-/
import Grevm.Lemmas.SchedInv5

namespace Grevm.Sched

open Grevm.Block

/-- The disjunction of `head_progress`: the action concerns transaction `i` (or is `finalize`). -/
private def Concerns (i : TxId) (a : Act) : Prop :=
  a = .finalize ∨ a = .claimExec i ∨ a = .claimVal i ∨ a = .execRead i ∨ a = .execFetch i ∨
  a = .execFinish i ∨ (∃ l, a = .publishOne i l) ∨ a = .endPublish i ∨
  (∃ l, a = .removeOne i l) ∨ (∃ b, a = .recordResult i b) ∨
  (∃ l, a = .markOne i l) ∨ a = .endErrMark i ∨ a = .tailTs i ∨
  a = .tailLts i ∨ a = .valTs i ∨ (∃ k, a = .valCheck i k) ∨
  a = .endScan i ∨ a = .endValMark i

private theorem pack {P : Params} {s : State} {i : TxId} (a : Act)
    (he : ∃ s', step P s a = some s') (hc : Concerns i a) :
    ∃ a s', step P s a = some s' ∧ Concerns i a := by
  obtain ⟨s', hs'⟩ := he
  exact ⟨a, s', hs', hc⟩

/-- The worker holding the first unfinalised transaction (or, if nobody holds it, the scheduler)
    can always take a step. -/
private theorem head_enabled (P : Params) (s : State) (i1 : Inv1 P s) (i2 : Inv2 s)
    (hfn : s.fin < P.n) : ∃ a s', step P s a = some s' ∧ Concerns s.fin a := by
  have hst := i1.st_phase s.fin
  have hsh := (i2 s.fin).shape
  have hnf : s.status s.fin ≠ .finality := by
    intro hc
    have := (i1.fin_status s.fin).mp hc
    omega
  unfold Shape at hsh
  cases hp : s.phase s.fin with
  | idle =>
    rw [hp] at hst
    simp only [PhaseStatus] at hst
    cases hs : s.status s.fin with
    | initial => exact pack (.claimExec s.fin) (by simp [step, hfn, hp, hs]) (by simp [Concerns])
    | conflict => exact pack (.claimExec s.fin) (by simp [step, hfn, hp, hs]) (by simp [Concerns])
    | executed => exact pack (.claimVal s.fin) (by simp [step, hp, hs]) (by simp [Concerns])
    | unconfirmed => exact pack (.claimVal s.fin) (by simp [step, hp, hs]) (by simp [Concerns])
    | executing => exact absurd hs hst.1
    | validating => exact absurd hs hst.2
    | finality => exact absurd hs hnf
  | reading p reads blocked =>
    cases p with
    | read l k =>
      refine pack (.execRead s.fin) ?_ (by simp [Concerns])
      simp only [step, hp]
      split <;> exact ⟨_, rfl⟩
    | done w o => exact pack (.execFinish s.fin) (by simp [step, hp]) (by simp [Concerns])
    | fail e => exact pack (.execFinish s.fin) (by simp [step, hp]) (by simp [Concerns])
  | fetching l k reads blocked =>
    exact pack (.execFetch s.fin) (by simp [step, hp]) (by simp [Concerns])
  | publishing run todo nl =>
    cases todo with
    | nil => exact pack (.endPublish s.fin) (by simp [step, hp]) (by simp [Concerns])
    | cons l rest =>
      rw [hp] at hsh
      simp only [] at hsh
      obtain ⟨done, hcov, _⟩ := hsh
      have hmem : l ∈ writeLocs run.writes := (hcov l).mpr (Or.inr List.mem_cons_self)
      obtain ⟨v, hv⟩ := mem_writeLocs.mp hmem
      exact pack (.publishOne s.fin l) (by simp [step, hp, hv]) (by simp [Concerns])
  | removing run todo nl =>
    cases todo with
    | nil =>
      refine pack (.recordResult s.fin false) ?_ (by simp [Concerns])
      simp only [step, hp]
      split
      · exact ⟨_, rfl⟩
      · split <;> exact ⟨_, rfl⟩
    | cons l rest => exact pack (.removeOne s.fin l) (by simp [step, hp]) (by simp [Concerns])
  | errMark e ow todo =>
    cases todo with
    | nil => exact pack (.endErrMark s.fin) (by simp [step, hp]) (by simp [Concerns])
    | cons l rest =>
      refine pack (.markOne s.fin l) ?_ (by simp [Concerns])
      simp only [step, hp, List.mem_cons, true_or, if_true]
      split <;> exact ⟨_, rfl⟩
  | valPreTs =>
    rw [hp] at hsh
    simp only [] at hsh
    obtain ⟨r, hr, _⟩ := hsh
    exact pack (.valTs s.fin) (by simp [step, hp, hr]) (by simp [Concerns])
  | valScan ts done todo c =>
    cases todo with
    | nil =>
      refine pack (.endScan s.fin) ?_ (by simp [Concerns])
      simp only [step, hp]
      split <;> exact ⟨_, rfl⟩
    | cons r rest => exact pack (.valCheck s.fin 0) (by simp [step, hp]) (by simp [Concerns])
  | valMark todo =>
    cases todo with
    | nil => exact pack (.endValMark s.fin) (by simp [step, hp]) (by simp [Concerns])
    | cons l rest =>
      refine pack (.markOne s.fin l) ?_ (by simp [Concerns])
      simp only [step, hp, List.mem_cons, true_or, if_true]
      split <;> exact ⟨_, rfl⟩
  | tailPreTs k st =>
    refine pack (.tailTs s.fin) ?_ (by simp [Concerns])
    simp only [step, hp]
    split <;> exact ⟨_, rfl⟩
  | tailLts k ts st => exact pack (.tailLts s.fin) (by simp [step, hp]) (by simp [Concerns])

/-- The action can be chosen for the first uncommitted or unfinalised transaction: nothing ahead of
    the commit boundary can block it (the worker holding it can always take its next step, and when
    nobody holds it, it can be claimed, validated, finalised or committed). -/
theorem head_progress (P : Params) (s : State) (h : Reachable P s) (hn : s.com < P.n) :
    (s.com < s.fin ∧ ∃ s', step P s .commit = some s') ∨
    (s.com = s.fin ∧ s.fin < P.n ∧
      ∃ a s', step P s a = some s' ∧
        (a = .finalize ∨ a = .claimExec s.fin ∨ a = .claimVal s.fin ∨ a = .execRead s.fin ∨
         a = .execFetch s.fin ∨ a = .execFinish s.fin ∨ (∃ l, a = .publishOne s.fin l) ∨
         a = .endPublish s.fin ∨
         (∃ l, a = .removeOne s.fin l) ∨ (∃ b, a = .recordResult s.fin b) ∨
         (∃ l, a = .markOne s.fin l) ∨ a = .endErrMark s.fin ∨ a = .tailTs s.fin ∨
         a = .tailLts s.fin ∨ a = .valTs s.fin ∨ (∃ k, a = .valCheck s.fin k) ∨
         a = .endScan s.fin ∨ a = .endValMark s.fin)) := by
  obtain ⟨i1, i2, _, _, i5⟩ := inv_reach (reach_of_reachable h)
  have hcf := i1.com_le.1
  by_cases hlt : s.com < s.fin
  · left
    obtain ⟨r, hr, _⟩ := i5.exact s.com hlt
    exact ⟨hlt, by simp [step, hlt, hr]⟩
  · right
    have hfn : s.fin < P.n := by omega
    exact ⟨by omega, hfn, head_enabled P s i1 i2 hfn⟩

/-- **progress.** In every reachable state in which some transaction is not yet committed, some
    action of the pipeline is enabled. -/
theorem progress (P : Params) (s : State) (h : Reachable P s) (hn : s.com < P.n) :
    ∃ a s', step P s a = some s' := by
  rcases head_progress P s h hn with ⟨_, s', hs'⟩ | ⟨_, _, a, s', hs', _⟩
  · exact ⟨.commit, s', hs'⟩
  · exact ⟨a, s', hs'⟩

end Grevm.Sched
