/-
C07 — fee-recipient accounting is exact, deferred or immediate.
Model: `Grevm/Model/History.lean`.
-/
import Grevm.Model.History

namespace Grevm.History

/-- The exact effect of an entry, if any. -/
def effOf (e : Entry) : Option Effect :=
  match e.val with
  | .exact eff => some eff
  | .estimate => none

/-- In-order beneficiary account after the effects `effs` (oldest first). -/
def inOrder (anchor : Option Acct) (effs : List Effect) : Option Acct :=
  effs.foldl applyEffect anchor

theorem resolve_cons_reward (base : Option Acct) (amt : Nat) (rs : List Nat) :
    ({ base := base, rewards := amt :: rs, origins := [] } : Scan).resolve =
      some (applyReward amt ({ base := base, rewards := rs, origins := [] } : Scan).resolve) := by
  simp [Scan.resolve, List.foldl_append]

theorem resolve_origins_irrel (s : Scan) (o : List (Nat × Nat)) :
    ({ s with origins := o } : Scan).resolve = s.resolve := rfl

/-- Core of `scan_fold` on the reversed prefix (newest first). -/
theorem scanRev_fold (anchor : Option Acct) :
    ∀ (rev : List Entry) (k : Nat) (effs : List Effect),
      rev.map effOf = effs.map some →
      ∃ s, scanRev anchor rev k = .ok s ∧ s.resolve = inOrder anchor effs.reverse := by
  intro rev
  induction rev with
  | nil =>
    intro k effs h
    cases effs with
    | nil => exact ⟨_, rfl, rfl⟩
    | cons _ _ => simp at h
  | cons e rest ih =>
    intro k effs h
    cases effs with
    | nil => simp at h
    | cons eff effs' =>
      simp only [List.map_cons, List.cons.injEq] at h
      obtain ⟨he, hrest⟩ := h
      obtain ⟨s', hs', hres'⟩ := ih (k - 1) effs' hrest
      have hval : e.val = .exact eff := by
        unfold effOf at he
        split at he <;> simp_all
      simp only [List.reverse_cons, inOrder, List.foldl_append, List.foldl_cons, List.foldl_nil]
      cases eff with
      | unchanged =>
        refine ⟨{ s' with origins := (k, e.inc) :: s'.origins }, ?_, ?_⟩
        · simp [scanRev, hval, hs']
        · rw [resolve_origins_irrel, hres']; rfl
      | reward amt =>
        refine ⟨{ s' with rewards := amt :: s'.rewards, origins := (k, e.inc) :: s'.origins }, ?_, ?_⟩
        · simp [scanRev, hval, hs']
        · have : s'.resolve = inOrder anchor effs'.reverse := hres'
          simp only [Scan.resolve, List.reverse_cons, List.foldl_append, List.foldl_cons,
            List.foldl_nil, applyEffect]
          simp only [Scan.resolve] at this
          rw [this]; rfl
      | snapshot a =>
        refine ⟨{ base := a, rewards := [], origins := [(k, e.inc)] }, ?_, ?_⟩
        · simp [scanRev, hval]
        · simp [Scan.resolve, applyEffect]

/-- **scan_fold.** If every entry below the reader is exact, a beneficiary read resolves to the
    in-order account: the anchor with the preceding effects applied oldest first, each reward
    with its own checked add (not sum-then-add), restarting at the nearest snapshot. -/
theorem scan_fold (h : Hist) (txid : Nat) (effs : List Effect)
    (hex : (h.entries.take txid).map effOf = effs.map some) :
    ∃ origins, resolveBefore h txid = .ok (inOrder h.anchor effs, origins) := by
  have hrev : (h.entries.take txid).reverse.map effOf = effs.reverse.map some := by
    rw [List.map_reverse, hex, List.map_reverse]
  obtain ⟨s, hs, hres⟩ := scanRev_fold h.anchor _ (txid - 1) effs.reverse hrev
  refine ⟨s.origins, ?_⟩
  simp only [resolveBefore, scanBefore, hs]
  rw [hres, List.reverse_reverse]

/-- An estimate below the reader blocks the read and names the blocker. -/
theorem scanRev_estimate_blocks (anchor : Option Acct) (e : Entry) (rest : List Entry) (k : Nat)
    (h : e.val = .estimate) : scanRev anchor (e :: rest) k = .error k := by
  simp [scanRev, h]

/-! ### Version determines value -/

/-- `h2` is a later state of the same block's history as `h1`: incarnations only grow, and an
    entry with an unchanged incarnation keeps its value or has been invalidated. -/
structure Evolves (h1 h2 : Hist) : Prop where
  anchor : h1.anchor = h2.anchor
  len : h1.entries.length = h2.entries.length
  entry : ∀ (j : Nat) (e1 e2 : Entry), h1.entries[j]? = some e1 → h2.entries[j]? = some e2 →
    e1.inc ≤ e2.inc ∧ (e1.inc = e2.inc → e2.val = e1.val ∨ e2.val = .estimate)

theorem Evolves.refl (h : Hist) : Evolves h h :=
  ⟨rfl, rfl, fun j e1 e2 h1 h2 => by rw [h1] at h2; cases h2; exact ⟨Nat.le_refl _, fun _ => Or.inl rfl⟩⟩

theorem Evolves.trans {h1 h2 h3 : Hist} (a : Evolves h1 h2) (b : Evolves h2 h3) : Evolves h1 h3 := by
  refine ⟨a.anchor.trans b.anchor, a.len.trans b.len, ?_⟩
  intro j e1 e3 g1 g3
  have hlt : j < h2.entries.length := by
    have := (List.getElem?_eq_some_iff.mp g1).1
    rw [← a.len]; exact this
  obtain ⟨e2, g2⟩ : ∃ e2, h2.entries[j]? = some e2 := ⟨h2.entries[j], List.getElem?_eq_getElem hlt⟩
  obtain ⟨l12, v12⟩ := a.entry j e1 e2 g1 g2
  obtain ⟨l23, v23⟩ := b.entry j e2 e3 g2 g3
  refine ⟨Nat.le_trans l12 l23, ?_⟩
  intro heq
  have h12 : e1.inc = e2.inc := by omega
  have h23 : e2.inc = e3.inc := by omega
  rcases v12 h12 with h | h <;> rcases v23 h23 with h' | h'
  · left; rw [h', h]
  · right; exact h'
  · right; rw [h', h]
  · right; exact h'

/-- History operations performed by workers. -/
inductive Op where
  | record (txid inc : Nat) (v : EntryVal)
  | invalidate (txid inc : Nat)
  deriving Repr

def applyOp (h : Hist) : Op → Hist
  | .record t i v => (record h t i v).1
  | .invalidate t i => (invalidate h t i).1

theorem getElem?_set_cases {α : Type} (l : List α) (i j : Nat) (v x : α)
    (h : (l.set i v)[j]? = some x) : (j = i ∧ x = v ∧ i < l.length) ∨ (j ≠ i ∧ l[j]? = some x) := by
  by_cases hij : j = i
  · subst hij
    left
    rw [List.getElem?_set_self'] at h
    cases hl : l[j]? with
    | none => simp [hl] at h
    | some y =>
      simp [hl] at h
      exact ⟨rfl, h.symm, (List.getElem?_eq_some_iff.mp hl).1⟩
  · right
    rw [List.getElem?_set_ne (Ne.symm hij)] at h
    exact ⟨hij, h⟩

theorem evolves_op (h : Hist) (op : Op) : Evolves h (applyOp h op) := by
  cases op with
  | record t i v =>
    simp only [applyOp, record]
    split
    · exact Evolves.refl h
    · rename_i e he
      split
      · exact Evolves.refl h
      · rename_i hlt
        refine ⟨rfl, by simp, ?_⟩
        intro j e1 e2 g1 g2
        rcases getElem?_set_cases _ _ _ _ _ g2 with ⟨rfl, rfl, _⟩ | ⟨_, g2'⟩
        · rw [he] at g1; cases g1
          exact ⟨by simp; omega, fun heq => by simp at heq; omega⟩
        · rw [g1] at g2'; cases g2'
          exact ⟨Nat.le_refl _, fun _ => Or.inl rfl⟩
  | invalidate t i =>
    simp only [applyOp, invalidate]
    split
    · exact Evolves.refl h
    · rename_i e he
      split
      · exact Evolves.refl h
      · rename_i heq
        split
        · refine ⟨rfl, by simp, ?_⟩
          intro j e1 e2 g1 g2
          rcases getElem?_set_cases _ _ _ _ _ g2 with ⟨rfl, rfl, _⟩ | ⟨_, g2'⟩
          · rw [he] at g1; cases g1
            have : e.inc = i := by simpa using heq
            exact ⟨by simp [this], fun _ => Or.inr rfl⟩
          · rw [g1] at g2'; cases g2'
            exact ⟨Nat.le_refl _, fun _ => Or.inl rfl⟩
        · exact Evolves.refl h

/-- Every state reached by any sequence of record / invalidate operations (any incarnations, any
    order, stale ones included) evolves from the earlier one. -/
theorem evolves_ops (ops : List Op) : ∀ h : Hist, Evolves h (ops.foldl applyOp h) := by
  induction ops with
  | nil => intro h; exact Evolves.refl h
  | cons op ops ih => intro h; exact (evolves_op h op).trans (ih _)

/-- Two scans of coherent prefixes with equal origin chains are equal. -/
theorem scanRev_eq_of_origins (anchor : Option Acct) :
    ∀ (r1 r2 : List Entry) (k : Nat) (s1 s2 : Scan),
      r1.length = r2.length →
      (∀ (j : Nat) (e1 e2 : Entry), r1[j]? = some e1 → r2[j]? = some e2 →
        (e1.inc = e2.inc → e2.val = e1.val ∨ e2.val = .estimate)) →
      scanRev anchor r1 k = .ok s1 → scanRev anchor r2 k = .ok s2 →
      s1.origins = s2.origins → s1 = s2 := by
  intro r1
  induction r1 with
  | nil =>
    intro r2 k s1 s2 hl _ h1 h2 _
    cases r2 with
    | nil => simp [scanRev] at h1 h2; rw [← h1, ← h2]
    | cons _ _ => simp at hl
  | cons e1 t1 ih =>
    intro r2 k s1 s2 hl hco h1 h2 ho
    cases r2 with
    | nil => simp at hl
    | cons e2 t2 =>
      have hl' : t1.length = t2.length := by simpa using hl
      have hco' : ∀ (j : Nat) (a b : Entry), t1[j]? = some a → t2[j]? = some b →
          (a.inc = b.inc → b.val = a.val ∨ b.val = .estimate) := by
        intro j a b ga gb
        exact hco (j + 1) a b (by simpa using ga) (by simpa using gb)
      have hhead := hco 0 e1 e2 (by simp) (by simp)
      -- both heads are exact (else the scan is an error) and contribute origin (k, inc)
      cases hv1 : e1.val with
      | estimate => simp [scanRev, hv1] at h1
      | exact f1 =>
        cases hv2 : e2.val with
        | estimate => simp [scanRev, hv2] at h2
        | exact f2 =>
          -- extract head origins
          have horig1 : s1.origins.head? = some (k, e1.inc) := by
            cases f1 <;> simp only [scanRev, hv1] at h1
            · split at h1 <;> simp at h1; subst h1; simp
            · split at h1 <;> simp at h1; subst h1; simp
            · simp at h1; subst h1; simp
          have horig2 : s2.origins.head? = some (k, e2.inc) := by
            cases f2 <;> simp only [scanRev, hv2] at h2
            · split at h2 <;> simp at h2; subst h2; simp
            · split at h2 <;> simp at h2; subst h2; simp
            · simp at h2; subst h2; simp
          have hinc : e1.inc = e2.inc := by
            rw [ho, horig2] at horig1; simpa using horig1.symm
          have hval : f2 = f1 := by
            rcases hhead hinc with h | h
            · rw [hv1, hv2] at h; simpa using h
            · rw [hv2] at h; simp at h
          subst hval
          cases f2 with
          | unchanged =>
            simp only [scanRev, hv1] at h1
            simp only [scanRev, hv2] at h2
            cases ha : scanRev anchor t1 (k - 1) with
            | error _ => simp [ha] at h1
            | ok a =>
              cases hb : scanRev anchor t2 (k - 1) with
              | error _ => simp [hb] at h2
              | ok b =>
                simp [ha] at h1; simp [hb] at h2
                subst h1; subst h2
                simp at ho
                have := ih t2 (k - 1) a b hl' hco' ha hb ho.2
                subst this
                simp [hinc]
          | reward amt =>
            simp only [scanRev, hv1] at h1
            simp only [scanRev, hv2] at h2
            cases ha : scanRev anchor t1 (k - 1) with
            | error _ => simp [ha] at h1
            | ok a =>
              cases hb : scanRev anchor t2 (k - 1) with
              | error _ => simp [hb] at h2
              | ok b =>
                simp [ha] at h1; simp [hb] at h2
                subst h1; subst h2
                simp at ho
                have := ih t2 (k - 1) a b hl' hco' ha hb ho.2
                subst this
                simp [hinc]
          | snapshot a =>
            simp only [scanRev, hv1] at h1
            simp only [scanRev, hv2] at h2
            simp at h1 h2
            subst h1; subst h2
            simp [hinc]

theorem take_reverse_getElem? {α : Type} (l : List α) (n j : Nat) (x : α)
    (h : (l.take n).reverse[j]? = some x) : ∃ i, l[i]? = some x ∧ i = (l.take n).length - 1 - j ∧
      j < (l.take n).length := by
  have hj : j < (l.take n).reverse.length := (List.getElem?_eq_some_iff.mp h).1
  rw [List.length_reverse] at hj
  rw [List.getElem?_reverse hj] at h
  refine ⟨(l.take n).length - 1 - j, ?_, rfl, hj⟩
  rw [List.getElem?_take] at h
  split at h
  · exact h
  · simp at h

/-- **validate_sound.** Whatever records, estimates and invalidations (with stale incarnations
    too) happened between a beneficiary read and its validation: if validation accepts the
    origin chain recorded by the read, the account resolved now equals the account that was read —
    comparing the whole chain, not only the newest writer, is what makes this true. -/
theorem validate_sound (h1 : Hist) (ops : List Op) (txid : Nat) (acct : Option Acct)
    (origins : List (Nat × Nat))
    (hread : resolveBefore h1 txid = .ok (acct, origins))
    (hvalid : (validate (ops.foldl applyOp h1) txid origins).1 = true) :
    resolveBefore (ops.foldl applyOp h1) txid = .ok (acct, origins) := by
  have hev := evolves_ops ops h1
  generalize ops.foldl applyOp h1 = h2 at hev hvalid ⊢
  simp only [resolveBefore] at hread ⊢
  simp only [validate] at hvalid
  cases hs1 : scanBefore h1 txid with
  | error b => simp [hs1] at hread
  | ok s1 =>
    simp [hs1] at hread
    obtain ⟨hacct, horig⟩ := hread
    cases hs2 : scanBefore h2 txid with
    | error b => simp [hs2] at hvalid
    | ok s2 =>
      simp [hs2] at hvalid
      simp only [scanBefore] at hs1 hs2
      rw [← hev.anchor] at hs2
      have hlen : (h1.entries.take txid).reverse.length = (h2.entries.take txid).reverse.length := by
        simp [hev.len]
      have hco : ∀ (j : Nat) (e1 e2 : Entry), (h1.entries.take txid).reverse[j]? = some e1 →
          (h2.entries.take txid).reverse[j]? = some e2 →
          (e1.inc = e2.inc → e2.val = e1.val ∨ e2.val = .estimate) := by
        intro j e1 e2 g1 g2
        obtain ⟨i1, gi1, hi1, _⟩ := take_reverse_getElem? _ _ _ _ g1
        obtain ⟨i2, gi2, hi2, _⟩ := take_reverse_getElem? _ _ _ _ g2
        have : i1 = i2 := by
          rw [hi1, hi2]; simp [hev.len]
        subst this
        exact (hev.entry i1 e1 e2 gi1 gi2).2
      have := scanRev_eq_of_origins h1.anchor _ _ _ s1 s2 hlen hco hs1 hs2 (by rw [horig, hvalid])
      subst this
      simp [hacct, horig]

/-! ### Guards -/

/-- A record is accepted exactly for a strictly newer incarnation of an existing entry; a stale
    record changes nothing. -/
theorem record_guard (h : Hist) (txid inc : Nat) (v : EntryVal) (e : Entry)
    (he : h.entries[txid]? = some e) :
    ((record h txid inc v).2 = true ↔ e.inc < inc) ∧
    ((record h txid inc v).2 = false → (record h txid inc v).1 = h) := by
  simp only [record, he]
  split
  · exact ⟨by simp; omega, fun _ => rfl⟩
  · exact ⟨by simp; omega, by simp⟩

/-- An invalidation touches only the incarnation it names. -/
theorem invalidate_guard (h : Hist) (txid inc : Nat) (e : Entry)
    (he : h.entries[txid]? = some e) (hne : e.inc ≠ inc) : invalidate h txid inc = (h, false) := by
  simp [invalidate, he, hne]

/-! ### Reward policy -/

/-- **defer_iff.** A reward is deferred to ordered commit iff fee charging is on, the amount is
    non-zero and the beneficiary is not in the transaction's journal; a zero reward always goes
    through revm's own hook (and touches the account as revm does). -/
theorem defer_iff (i : RewardInput) (inJournal : Bool) (amt : Nat) :
    rewardDecision i inJournal = some (true, amt) ↔
      (rewardAmount i = some amt ∧ amt ≠ 0 ∧ inJournal = false) := by
  simp only [rewardDecision]
  cases h : rewardAmount i with
  | none => simp
  | some a =>
    simp
    constructor
    · rintro ⟨⟨h1, h2⟩, rfl⟩; exact ⟨rfl, h1, h2⟩
    · rintro ⟨rfl, h1, h2⟩; exact ⟨⟨h1, h2⟩, rfl⟩

/-- The reservoir gas is excluded and the base fee is subtracted only from London on. -/
theorem reward_formula (i : RewardInput) (hfee : i.feeDisabled = false) :
    rewardAmount i = some ((if i.london then i.effectiveGasPrice - i.basefee else i.effectiveGasPrice)
      * (i.gasUsed - i.reservoir)) := by
  simp [rewardAmount, hfee]

/-- A deferred (hence non-zero) reward materialises an absent beneficiary; overflow keeps the
    balance; every other field is preserved. -/
theorem applyReward_spec (amt : Nat) (a : Option Acct) :
    (applyReward amt a).rest = (a.getD Acct.default).rest ∧
    ((a.getD Acct.default).balance + amt ≤ U256_MAX →
      (applyReward amt a).balance = (a.getD Acct.default).balance + amt) ∧
    (U256_MAX < (a.getD Acct.default).balance + amt →
      (applyReward amt a).balance = (a.getD Acct.default).balance) := by
  simp only [applyReward]
  refine ⟨?_, ?_, ?_⟩
  · split <;> rfl
  · intro h; simp [h]
  · intro h
    have : ¬ ((a.getD Acct.default).balance + amt ≤ U256_MAX) := by omega
    simp [this]

/-- **commit_fold.** Ordered commit, which applies the deferred reward of each transaction to the
    committed account in block order, leaves exactly the in-order account. -/
theorem commit_fold (anchor : Option Acct) (effs : List Effect) :
    effs.foldl applyEffect anchor = inOrder anchor effs := rfl

/-- Per-step checked add differs from sum-then-add: the order of application matters. -/
example : inOrder (some { balance := U256_MAX - 1, rest := 0 }) [.reward 2, .reward 1] =
    some { balance := U256_MAX, rest := 0 } := by decide

/-- Non-vacuity of `validate_sound`: an older reward changes incarnation while the newest stays;
    validation of the old chain fails, of the fresh chain succeeds. -/
example :
    let h0 := Hist.new (some { balance := 10, rest := 0 }) 3
    let h1 := [Op.record 0 1 (.exact (.reward 3)), Op.record 1 1 (.exact (.reward 4))].foldl applyOp h0
    let h2 := [Op.invalidate 0 1, Op.record 0 2 (.exact (.reward 5))].foldl applyOp h1
    (resolveBefore h1 2).toOption = some (some { balance := 17, rest := 0 }, [(1, 1), (0, 1)]) ∧
    (validate h2 2 [(1, 1), (0, 1)]).1 = false ∧
    (resolveBefore h2 2).toOption = some (some { balance := 19, rest := 0 }, [(1, 1), (0, 2)]) := by
  decide

/-- A committer that folds rewards into a RUNNING copy of the fee recipient and refreshes that copy
    from the `info` a touching transaction leaves behind — `dead` stands for the info a
    self-destructed account still carries — instead of from what the commit makes of it (`none`
    for a deleted account).  The shape of seeded change C07e. -/
def applyEffectRunning (dead : Acct) (a : Option Acct) : Effect → Option Acct
  | .unchanged => a
  | .reward amt => some (applyReward amt a)
  | .snapshot none => some dead
  | .snapshot (some s) => some s

/-- **running_copy_violates.** After the fee recipient is deleted, in-order execution credits the
    next fee to an ABSENT account (a fresh one is materialised); the running-copy committer credits
    it to the dead contract: nonce, code and the burned balance survive. -/
theorem running_copy_violates :
    let dead : Acct := { balance := 77, rest := 1 }
    inOrder (some dead) [.snapshot none, .reward 5] = some { balance := 5, rest := 0 } ∧
    [Effect.snapshot none, .reward 5].foldl (applyEffectRunning dead) (some dead) =
      some { balance := 82, rest := 1 } := by
  decide

/-- The two committers agree on every history in which the fee recipient is never deleted. -/
theorem running_copy_agrees_without_deletion (dead : Acct) (effs : List Effect) (a : Option Acct)
    (h : ∀ e ∈ effs, e ≠ .snapshot none) :
    effs.foldl (applyEffectRunning dead) a = effs.foldl applyEffect a := by
  induction effs generalizing a with
  | nil => rfl
  | cons e rest ih =>
    have he : e ≠ .snapshot none := h e (by simp)
    have hrest : ∀ e' ∈ rest, e' ≠ .snapshot none := fun e' he' => h e' (by simp [he'])
    simp only [List.foldl_cons]
    have : applyEffectRunning dead a e = applyEffect a e := by
      cases e with
      | unchanged => rfl
      | reward amt => rfl
      | snapshot s =>
        cases s with
        | none => exact absurd rfl he
        | some v => rfl
    rw [this]
    exact ih _ hrest

end Grevm.History
