/-
C03 — invalid transactions are skipped exactly as in-order validation dictates.
Model: `Grevm/Model/Commit.lean` (decision logic); the "validated reads = in-order state" premise
is the pipeline theorem of C01/C02.
-/
import Grevm.Model.Commit

namespace Grevm.Commit

/-- **nonce_gate.** Ordered commit accepts a speculative result iff nonce checking is disabled or
    the transaction nonce equals the committed state nonce and is not the overflow case. -/
theorem nonce_gate (d : Bool) (t s : Nat) :
    nonceGate d t s = .committed ↔ (d = true ∨ (t = s ∧ ¬ (t = U64_MAX ∧ s = U64_MAX))) := by
  unfold nonceGate
  cases d
  · simp only [Bool.false_eq_true, if_false, false_or]
    split
    · rename_i h; simp; intro h1; omega
    · rename_i h
      split
      · simp; intro h1; omega
      · split
        · simp; intro h1; omega
        · simp
          refine ⟨by omega, ?_⟩
          intro h1 h2
          exact h ⟨h1, h2⟩
  · simp

/-- The gate passes exactly when in-order nonce validation accepts the transaction. The gate only
    ever sees a transaction that HAS a speculative result, and revm produces none for nonce
    `u64::MAX` (`nonce_max_always_invalid`), hence the hypothesis. -/
theorem gate_iff_valid (d : Bool) (t s : Nat) (ht : t ≠ U64_MAX) :
    nonceGate d t s = .committed ↔ nonceInvalid d t s = none := by
  unfold nonceGate nonceInvalid
  cases d
  · simp only [Bool.false_eq_true, if_false, ht, false_and]
    split
    · simp
    · split <;> simp
  · simp [ht]

/-- A transaction with nonce `u64::MAX` is invalid in order whatever the state and the
    configuration; its speculative run is rejected by revm before execution, so it takes the
    invalid-transaction path (sequential replay) and never reaches the commit gate. -/
theorem nonce_max_always_invalid (d : Bool) (s : Nat) : nonceInvalid d U64_MAX s = some 0 := by
  simp [nonceInvalid]

/-- With nonce checking disabled no nonce-based skip or fallback occurs (nonce `u64::MAX` aside,
    which revm rejects in every configuration). -/
theorem nonce_check_off (t s : Nat) :
    nonceGate true t s = .committed ∧ (t ≠ U64_MAX → nonceInvalid true t s = none) := by
  simp [nonceGate, nonceInvalid]

/-- What the block reports for a transaction whose speculative (nonce-unchecked) result is
    `unchecked` and whose reads were validated against the in-order state: committed as is when the
    gate passes, otherwise left to the sequential replay, which runs revm with the nonce check on. -/
def reported (d : Bool) (t s : Nat) (unchecked : TxRes) (checkedInOrder : TxRes) : TxRes :=
  match nonceGate d t s with
  | .committed => unchecked
  | .fallback => checkedInOrder

/-- **gate_equiv.** If revm's validation is "nonce check ∧ nonce-independent rest" — i.e. the
    checked in-order run is the invalid-nonce verdict when the nonce is bad and otherwise equals the
    unchecked run on the same state — then what is reported equals the checked in-order result. -/
theorem gate_equiv (d : Bool) (t s : Nat) (unchecked checkedInOrder : TxRes) (ht : t ≠ U64_MAX)
    (hdecomp : checkedInOrder =
      match nonceInvalid d t s with
      | some reason => .invalid reason
      | none => unchecked) :
    reported d t s unchecked checkedInOrder = checkedInOrder := by
  unfold reported
  cases hg : nonceGate d t s with
  | committed =>
    have := (gate_iff_valid d t s ht).mp hg
    simp [this] at hdecomp
    simp [hdecomp]
  | fallback => rfl

/-- **parallel_never_skips / replay_classification.** In the sequential replay an outcome is
    `Skipped r` iff the transaction's checked in-order run is `invalid r`; it is `Executed` iff the
    run succeeded; the replay never invents or drops an outcome before the first fatal error. -/
theorem replay_no_error (rs : List TxRes) (h : ∀ r ∈ rs, ∀ e, r ≠ .fatal e) :
    (replay rs).2 = none ∧ (replay rs).1 = rs.filterMap toOutcome ∧
    (replay rs).1.length = rs.length := by
  induction rs with
  | nil => simp [replay]
  | cons r rest ih =>
    obtain ⟨h1, h2, h3⟩ := ih (fun r hr => h r (List.mem_cons_of_mem _ hr))
    cases r with
    | ok x =>
      refine ⟨by simp [replay, h1], by simp [replay, h2, toOutcome], by simp [replay, h3]⟩
    | invalid x =>
      refine ⟨by simp [replay, h1], by simp [replay, h2, toOutcome], by simp [replay, h3]⟩
    | fatal e => exact absurd rfl (h (.fatal e) List.mem_cons_self e)

/-- A skipped transaction contributes no executed outcome and the replay continues after it:
    outcome `k` is the verdict of transaction `k`. -/
theorem replay_pointwise (rs : List TxRes) (h : ∀ r ∈ rs, ∀ e, r ≠ .fatal e) :
    ∀ (k : Nat) (r : TxRes), rs[k]? = some r → ((replay rs).1[k]?) = toOutcome r := by
  induction rs with
  | nil => intro k r hk; simp at hk
  | cons r0 rest ih =>
    intro k r hk
    have ih' := ih (fun r hr => h r (List.mem_cons_of_mem _ hr))
    cases r0 with
    | fatal e => exact absurd rfl (h (.fatal e) List.mem_cons_self e)
    | ok x =>
      cases k with
      | zero => simp at hk; subst hk; simp [replay, toOutcome]
      | succ k => simp at hk; simpa [replay] using ih' k r hk
    | invalid x =>
      cases k with
      | zero => simp at hk; subst hk; simp [replay, toOutcome]
      | succ k => simp at hk; simpa [replay] using ih' k r hk

/-- An invalid-transaction error observed by a worker is never committed by the parallel path: at
    the commit head it requests the sequential replay (which owns the final verdict), elsewhere it
    is parked. -/
theorem invalid_never_fatal (atHead : Bool) (txid : Nat) :
    errorBranch atHead true txid = (if atHead then some .fallbackSequential else none) := by
  cases atHead <;> rfl

example : replay [.ok 1, .invalid 7, .ok 2] = ([.executed 1, .skipped 7, .executed 2], none) := by decide
example : nonceGate false 5 5 = .committed ∧ nonceGate false 4 5 = .fallback ∧
    nonceGate false U64_MAX U64_MAX = .fallback := by decide

end Grevm.Commit
