/-
C11 — the state facade of custom precompiles: static refusal before any change, sticky faults,
faults enforced by the adapter whatever the implementation does, all accesses through the journal.
Model: `Grevm/Model/Facade.lean`.  That facade accesses take part in conflict detection like opcode
accesses, follow frame reverts and leave no residue is the composition with C01/C02 (they ARE
journal accesses) and is decided end to end against in-order revm with the same adapters.
-/
import Grevm.Model.Facade

namespace Grevm.Facade

theorem call_faulted (dbFails : Op → Bool) (s : FState) (op : Op) (f : Fault) (h : s.fault = some f) :
    call dbFails s op = (s, .err f) := by
  simp [call, h]

/-- **fault_sticky.** After a fault, every further call fails with that same fault and changes
    nothing — journal and fault alike. -/
theorem fault_sticky (dbFails : Op → Bool) (s : FState) (f : Fault) (h : s.fault = some f) :
    ∀ ops, (runOps dbFails s ops).1 = s ∧ ∀ r ∈ (runOps dbFails s ops).2, r = .err f := by
  intro ops
  induction ops with
  | nil => simp [runOps]
  | cons op rest ih =>
    simp only [runOps, call_faulted dbFails s op f h]
    exact ⟨ih.1, by
      intro r hr
      simp only [List.mem_cons] at hr
      rcases hr with rfl | hr
      · rfl
      · exact ih.2 r hr⟩

/-- One call in a static context never changes balances or storage. -/
theorem call_static_no_change (dbFails : Op → Bool) (s : FState) (op : Op) (hs : s.isStatic = true) :
    (call dbFails s op).1.j.bal = s.j.bal ∧ (call dbFails s op).1.j.stor = s.j.stor ∧
      (call dbFails s op).1.isStatic = true := by
  unfold call
  cases hf : s.fault with
  | some f => simp [hs]
  | none =>
    cases op <;> simp [Op.isMutation, hs, load] <;> (split <;> simp [hs]) <;> (try split) <;> simp [hs]

/-- **static_refuses_before_change.** In a static context no sequence of facade calls — whatever
    the implementation does with the errors it is given — changes any balance or storage slot. -/
theorem static_refuses_before_change (dbFails : Op → Bool) (s : FState) (hs : s.isStatic = true) :
    ∀ ops, (runOps dbFails s ops).1.j.bal = s.j.bal ∧ (runOps dbFails s ops).1.j.stor = s.j.stor := by
  intro ops
  induction ops generalizing s with
  | nil => simp [runOps]
  | cons op rest ih =>
    simp only [runOps]
    have h1 := call_static_no_change dbFails s op hs
    have h2 := ih (call dbFails s op).1 h1.2.2
    exact ⟨h2.1.trans h1.1, h2.2.trans h1.2.1⟩

/-- A mutation attempted in a static context while healthy records the static-violation halt. -/
theorem static_mutation_faults (dbFails : Op → Bool) (s : FState) (op : Op)
    (hs : s.isStatic = true) (hf : s.fault = none) (hm : op.isMutation = true) :
    (call dbFails s op).1.fault = some (.halt 0) ∧ (call dbFails s op).2 = .err (.halt 0) := by
  simp [call, hf, hm, hs]

/-- The fault, once recorded, survives the rest of the call sequence. -/
theorem fault_survives (dbFails : Op → Bool) (s : FState) (f : Fault) (h : s.fault = some f) (ops : List Op) :
    (runOps dbFails s ops).1.fault = some f := by
  rw [(fault_sticky dbFails s f h ops).1]; exact h

/-- **fault_enforced.** Whatever the implementation returns, the adapter reports the recorded
    fault: a halt stays a halt, a fatal error stays fatal; without a fault the implementation's
    result passes through unchanged. -/
theorem fault_enforced (final : FState) (impl : Outcome) :
    (∀ w, final.fault = some (.halt w) → adapter final impl = .halt w) ∧
    (∀ w, final.fault = some (.fatal w) → adapter final impl = .fatal w) ∧
    (final.fault = none → adapter final impl = impl) := by
  refine ⟨?_, ?_, ?_⟩ <;> intro h <;> (try intro h') <;> simp_all [adapter]

/-- **static_write_is_halt.** A precompile that tries to write in a static context and ignores the
    refusal is reported as a halt, and nothing was written. -/
theorem static_write_is_halt (dbFails : Op → Bool) (s : FState) (op : Op) (rest : List Op)
    (impl : Outcome) (hs : s.isStatic = true) (hf : s.fault = none) (hm : op.isMutation = true) :
    adapter (runOps dbFails s (op :: rest)).1 impl = .halt 0 ∧
      (runOps dbFails s (op :: rest)).1.j.bal = s.j.bal ∧
      (runOps dbFails s (op :: rest)).1.j.stor = s.j.stor := by
  have h1 := static_mutation_faults dbFails s op hs hf hm
  have h2 : (runOps dbFails s (op :: rest)).1.fault = some (.halt 0) := by
    simp only [runOps]
    exact fault_survives dbFails _ _ h1.1 rest
  exact ⟨(fault_enforced _ impl).1 0 h2, static_refuses_before_change dbFails s hs (op :: rest)⟩

/-- **reads_go_through_journal.** A successful facade access of address `a` leaves `a` loaded in
    the journal — the access is an ordinary journal (hence tracked) access. -/
theorem reads_go_through_journal (dbFails : Op → Bool) (s : FState) (op : Op) (v : Nat)
    (h : (call dbFails s op).2 = .ok v) : op.addr ∈ (call dbFails s op).1.j.loaded := by
  unfold call at h ⊢
  cases hf : s.fault with
  | some f => simp [hf] at h
  | none =>
    simp only [hf] at h ⊢
    by_cases h1 : (op.isMutation && s.isStatic) = true
    · simp [h1] at h
    · by_cases h2 : dbFails op = true
      · simp [h1, h2] at h
      · cases op <;> simp [h1, h2, load, Op.addr] <;> split <;> simp_all

/-- Read-your-writes inside one attempt. -/
theorem read_your_write (dbFails : Op → Bool) (s : FState) (a k v : Nat)
    (hs : s.isStatic = false) (hf : s.fault = none)
    (hd1 : dbFails (.sstore a k v) = false) (hd2 : dbFails (.sload a k) = false) :
    (runOps dbFails s [.sstore a k v, .sload a k]).2 = [.ok 0, .ok v] := by
  simp [runOps, call, hf, hs, hd1, hd2, Op.isMutation, load, Op.addr]
  split <;> (try split) <;> simp

/-- Non-vacuity: static context, write ignored, then a read. -/
example :
    let s : FState := { j := { bal := fun _ => 5, stor := fun _ _ => 7, loaded := [] }, isStatic := true, fault := none }
    ((runOps (fun _ => false) s [.sload 1 0, .sstore 1 0 9, .sload 1 0]).2,
      adapter (runOps (fun _ => false) s [.sload 1 0, .sstore 1 0 9, .sload 1 0]).1 (.ok 1))
      = ([.ok 7, .err (.halt 0), .err (.halt 0)], .halt 0) := by decide

end Grevm.Facade
