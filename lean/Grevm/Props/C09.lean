/-
C09 — in-block code changes (CREATE, EIP-7702 set / re-point / clear / set again) reach later
transactions.  Model: `Grevm/Model/Repr.lean`; storage/balance/nonce follow `Props/C08.lean`.
-/
import Grevm.Props.C08

namespace Grevm.Repr

/-- The `code_changed` predicate of `publish_writes`: the `Code` location is (re)published iff the
    post-state has code and its code id differs from what the account had before this
    transaction (or the account did not exist). -/
def CodeChangedOk (base : LState) (txs : Nat → TxChanges) (codeChanged : Nat → Nat → Bool) : Prop :=
  ∀ j a info slots, (txs j a = .created info slots ∨ txs j a = .updated info slots) →
    (codeChanged j a = true ↔
      (info.code ≠ 0 ∧ ∀ pre, (logical base txs j).acct a = some pre → pre.code ≠ info.code))

/-- Invariant: if a `Code(a)` version exists below `i`, it is the code of the logical account. -/
theorem code_entry_current (base : LState) (txs : Nat → TxChanges) (sb cc : Nat → Nat → Bool)
    (hcc : CodeChangedOk base txs cc) :
    ∀ (i a j c : Nat), latest (fun j => (mvOf txs sb cc j).code a) i = some (j, c) →
      ∀ info, (logical base txs i).acct a = some info → info.code ≠ 0 → info.code = c := by
  intro i
  induction i with
  | zero => intro a j c h; simp [latest] at h
  | succ i ih =>
    intro a j c hl info hacct hne
    simp only [logical, commitTx] at hacct
    rw [commitL_acct] at hacct
    rcases latest_succ (fun j => (mvOf txs sb cc j).code a) i with ⟨h1, h2⟩ | ⟨v, h1, h2⟩
    · -- no code published by tx i
      rw [h2] at hl
      simp only [mvOf, publishTx] at h1
      cases hc : txs i a with
      | unchanged =>
        rw [hc] at hacct; simp only [acctAfter] at hacct
        exact ih a j c hl info hacct hne
      | deleted => rw [hc] at hacct; simp [acctAfter] at hacct
      | created info' slots =>
        rw [hc] at hacct; simp only [acctAfter] at hacct; cases hacct
        simp only [hc, publishAcct] at h1
        have hnc : cc i a = false := by
          cases h3 : cc i a <;> simp_all
        have := (not_congr (hcc i a info slots (Or.inl hc))).mp (by simp [hnc])
        simp only [not_and, Classical.not_forall] at this
        obtain ⟨pre, hpre⟩ := this hne
        simp only [Classical.not_imp, Decidable.not_not] at hpre
        rw [← hpre.2]
        exact ih a j c hl pre hpre.1 (by rw [hpre.2]; exact hne)
      | updated info' slots =>
        rw [hc] at hacct; simp only [acctAfter] at hacct; cases hacct
        simp only [hc, publishAcct] at h1
        have hnc : cc i a = false := by
          cases h3 : cc i a <;> simp_all
        have := (not_congr (hcc i a info slots (Or.inr hc))).mp (by simp [hnc])
        simp only [not_and, Classical.not_forall] at this
        obtain ⟨pre, hpre⟩ := this hne
        simp only [Classical.not_imp, Decidable.not_not] at hpre
        rw [← hpre.2]
        exact ih a j c hl pre hpre.1 (by rw [hpre.2]; exact hne)
    · -- tx i published code v
      rw [h2] at hl
      simp at hl
      obtain ⟨_, rfl⟩ := hl
      simp only [mvOf, publishTx] at h1
      cases hc : txs i a with
      | unchanged => simp [hc, publishAcct] at h1
      | deleted => simp [hc, publishAcct] at h1
      | created info' slots =>
        rw [hc] at hacct; simp only [acctAfter] at hacct; cases hacct
        simp only [hc, publishAcct] at h1
        split at h1 <;> simp at h1
        exact h1
      | updated info' slots =>
        rw [hc] at hacct; simp only [acctAfter] at hacct; cases hacct
        simp only [hc, publishAcct] at h1
        split at h1 <;> simp at h1
        exact h1

/-- **repr_code.** An account read fills its code from the latest preceding `Code(a)` version, else
    from the backing store by the account's code id — and that is always the code in-order execution
    sees, for every sequence of deploy / set / re-point / clear / set-again / delete / recreate. -/
theorem repr_code (base : LState) (txs : Nat → TxChanges) (sb cc : Nat → Nat → Bool)
    (hcc : CodeChangedOk base txs cc) (i a : Nat) (info : Info)
    (hacct : (logical base txs i).acct a = some info) (hne : info.code ≠ 0) :
    readCode (mvOf txs sb cc) i a info.code = info.code := by
  simp only [readCode]
  cases hl : latest (fun j => (mvOf txs sb cc j).code a) i with
  | none => rfl
  | some p =>
    obtain ⟨j, c⟩ := p
    exact (code_entry_current base txs sb cc hcc i a j c hl info hacct hne).symm

theorem codeChangedOk_real (base : LState) (txs : Nat → TxChanges) :
    CodeChangedOk base txs (codeChangedReal base txs) := by
  intro j a info slots hch
  have hinfo : (txs j a).info? = some info := by
    rcases hch with h1 | h1 <;> simp [h1, Change.info?]
  simp only [codeChangedReal, hinfo]
  cases hp : (logical base txs j).acct a with
  | none => simp
  | some pre => simp

/-- **repr_code for the decision the code makes.** -/
theorem repr_code_real (base : LState) (txs : Nat → TxChanges) (i a : Nat) (info : Info)
    (hacct : (logical base txs i).acct a = some info) (hne : info.code ≠ 0) :
    readCode (mvOf txs (skipReal base txs) (codeChangedReal base txs)) i a info.code = info.code :=
  repr_code base txs _ _ (codeChangedOk_real base txs) i a info hacct hne

/-- Re-delegation (an update) never publishes a reset marker: storage is kept. -/
theorem redelegation_keeps_storage (ch : Change) (info : Info) (slots : List (Nat × Nat))
    (sb cc : Bool) (h : ch = .updated info slots) : (publishAcct ch sb cc).2.1 = false := by
  subst h; rfl

/-- Non-vacuity: account 5 has code 7 in the backing store; tx 0 re-points it to 8, tx 1 clears
    it (code 0), tx 2 sets it again to 7. -/
example :
    let base : LState := { acct := fun _ => some ⟨1, 7⟩, stor := fun _ _ => 0 }
    let txs : Nat → TxChanges := fun j a =>
      if a ≠ 5 then .unchanged
      else if j = 0 then .updated ⟨2, 8⟩ []
      else if j = 1 then .updated ⟨3, 0⟩ []
      else if j = 2 then .updated ⟨4, 7⟩ []
      else .unchanged
    let cc : Nat → Nat → Bool := fun j a => a == 5 && (j == 0 || j == 2)
    let mv := mvOf txs (fun _ _ => false) cc
    (readCode mv 0 5 7, readCode mv 1 5 8, readCode mv 3 5 7,
      (readBasic mv base 2 5).map (·.code)) = (7, 8, 7, some 0) := by decide

end Grevm.Repr
