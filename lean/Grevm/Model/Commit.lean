/-
Decision logic of ordered commit, error routing and sequential suffix replay:
`OrderedCommitter::commit` nonce gate (`src/scheduler/ordered_commit.rs`), the error branch of
`execute_task` (`src/scheduler.rs`), `post_execute` (`src/scheduler/control.rs`),
`execute_sequential_suffix` / `reject_nonce_overflow` (`src/scheduler/fallback.rs`) and the path
selection of `parallel_execute_inner`.  Import-free.
-/
namespace Grevm.Commit

def U64_MAX : Nat := 2 ^ 64 - 1

inductive Gate where
  | committed
  | fallback
  deriving DecidableEq, Repr

/-- The nonce re-check of `OrderedCommitter::commit`, as the match is written in the source. -/
def nonceGate (disableNonceCheck : Bool) (txNonce stateNonce : Nat) : Gate :=
  if disableNonceCheck then .committed
  else if txNonce = U64_MAX ∧ stateNonce = U64_MAX then .fallback
  else if txNonce > stateNonce then .fallback
  else if txNonce < stateNonce then .fallback
  else .committed

/-- revm's in-order nonce validation: `validate_tx_env` rejects a transaction whose nonce is
    `u64::MAX` unconditionally (even with the nonce check disabled, and whatever the state); then
    `validate_against_state` compares with the state nonce unless the check is disabled.
    `none` = acceptable. Reasons: 0 overflow, 1 too high, 2 too low. -/
def nonceInvalid (disableNonceCheck : Bool) (txNonce stateNonce : Nat) : Option Nat :=
  if txNonce = U64_MAX then some 0
  else if disableNonceCheck then none
  else if txNonce > stateNonce then some 1
  else if txNonce < stateNonce then some 2
  else none

/-- Result of running one transaction (parameterised over revm's execution result). -/
inductive TxRes where
  | ok (result : Nat)
  | invalid (reason : Nat)
  | fatal (err : Nat)
  deriving DecidableEq, Repr

inductive Outcome where
  | executed (result : Nat)
  | skipped (reason : Nat)
  deriving DecidableEq, Repr

/-- `execute_sequential_suffix`: run transactions in order; invalid ones are skipped and the replay
    keeps going; the first fatal error stops it, keeping the completed prefix. Returns the outcomes
    and the position (relative to the start) and payload of the error, if any. -/
def replay : List TxRes → List Outcome × Option (Nat × Nat)
  | [] => ([], none)
  | .ok r :: rest =>
      (.executed r :: (replay rest).1, (replay rest).2.map fun p => (p.1 + 1, p.2))
  | .invalid reason :: rest =>
      (.skipped reason :: (replay rest).1, (replay rest).2.map fun p => (p.1 + 1, p.2))
  | .fatal err :: _ => ([], some (0, err))

/-- The outcome reported for a non-fatal run. -/
def toOutcome : TxRes → Option Outcome
  | .ok r => some (.executed r)
  | .invalid reason => some (.skipped reason)
  | .fatal _ => none

inductive AbortReason where
  | fatalEvmError (txid : Nat)
  | commitError (txid err : Nat)
  | parallelError (txid : Nat)
  | fallbackSequential
  deriving DecidableEq, Repr

/-- The error branch of `execute_task` for an attempt that was not blocked on an estimate:
    `atCommitHead` is the comparison `committed_idx() == txid`. -/
def errorBranch (atCommitHead invalidTransaction : Bool) (txid : Nat) : Option AbortReason :=
  if atCommitHead then
    if invalidTransaction then some .fallbackSequential else some (.fatalEvmError txid)
  else none

inductive PostExecute where
  | ok
  | returnError (txid err : Nat)
  | replaySuffix
  deriving DecidableEq, Repr

/-- `post_execute`: `storedError` is the error held in `tx_results[txid]`, if any. -/
def postExecute (aborted : Bool) (reason : Option AbortReason) (storedError : Nat → Option Nat) :
    PostExecute :=
  if !aborted then .ok
  else match reason with
    | some (.fatalEvmError txid) =>
        match storedError txid with
        | some e => .returnError txid e
        | none => .replaySuffix
    | some (.commitError txid e) => .returnError txid e
    | some (.parallelError _) => .replaySuffix
    | some .fallbackSequential => .replaySuffix
    | none => .replaySuffix

inductive Path where
  | sequential
  | parallel
  deriving DecidableEq, Repr

/-- `parallel_execute_inner`'s first test. -/
def pathSelect (forceSequential : Bool) (blockSize minParallelTxs : Nat) : Path :=
  if forceSequential ∨ blockSize < minParallelTxs then .sequential else .parallel

/-- What an attempt of transaction `txid` yields, as far as the error branch is concerned.
    `nonceChecked` = the attempt validates the nonce (attempts that start at the commit head, after
    the repair of finding F7; speculative attempts never do); `nonceBad` = in-order validation
    rejects the nonce; `exec` = what execution yields when it is reached. -/
def attempt (nonceChecked : Bool) (nonceBad : Option Nat) (exec : TxRes) : TxRes :=
  match nonceChecked, nonceBad with
  | true, some reason => .invalid reason
  | _, _ => exec

/-- In-order execution of one transaction: nonce validation first. -/
def inOrderTx (nonceBad : Option Nat) (exec : TxRes) : TxRes :=
  match nonceBad with
  | some reason => .invalid reason
  | none => exec

/-- The abort decision for an attempt's result (`execute_task` error branch + classification). -/
def abortFor (atCommitHead : Bool) (txid : Nat) : TxRes → Option AbortReason
  | .ok _ => none
  | .invalid _ => errorBranch atCommitHead true txid
  | .fatal _ => errorBranch atCommitHead false txid

/-- Loading the fee recipient's account. `feeFault = some e`: the database cannot serve that
    account (error `e`). `replayPreload` is `replay_uncommitted_suffix` after the repair of finding
    F8, and what `parallel_execute_inner` does before it starts its workers: the account is loaded
    at the boundary, before the first transaction. -/
def replayPreload (feeFault : Option Nat) (txs : List TxRes) : List Outcome × Option (Nat × Nat) :=
  match feeFault with
  | some e => ([], some (0, e))
  | none => replay txs

/-- The sequential path BEFORE the repair: nothing is loaded up front; the first transaction that
    is executed and loads the fee recipient (`needs`) hits the fault. An invalid transaction is
    rejected before anything else is loaded. -/
def replayNoPreload (feeFault : Option Nat) (needs : Nat → Bool) : Nat → List TxRes →
    List Outcome × Option (Nat × Nat)
  | _, [] => ([], none)
  | i, .ok r :: rest =>
      match feeFault, needs i with
      | some e, true => ([], some (0, e))
      | _, _ =>
        (.executed r :: (replayNoPreload feeFault needs (i + 1) rest).1,
          (replayNoPreload feeFault needs (i + 1) rest).2.map fun p => (p.1 + 1, p.2))
  | i, .invalid reason :: rest =>
      (.skipped reason :: (replayNoPreload feeFault needs (i + 1) rest).1,
        (replayNoPreload feeFault needs (i + 1) rest).2.map fun p => (p.1 + 1, p.2))
  | _, .fatal err :: _ => ([], some (0, err))

end Grevm.Commit
