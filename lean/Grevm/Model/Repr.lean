/-
Model of the representation layer: how finalized journal accounts are published as physical
multi-version locations (`IncarnationDb::publish_writes`, `FinalizedAccount::from`) and how a later
transaction reads them back (`IncarnationDb::{basic, code_by_address, storage}`), next to the
logical account/storage state that in-order execution over revm's `State` maintains
(`CacheState::apply_account_state`: destroy clears storage, create resets it to the created slots,
update overwrites changed slots).  Addresses, slots, values, code identifiers are naturals; an
account's info is (an opaque `fields` for balance+nonce, a code id, 0 = no code).  Import-free.
-/
namespace Grevm.Repr

structure Info where
  fields : Nat
  /-- code identifier (stands for the code hash); 0 = empty code -/
  code : Nat
  deriving DecidableEq, Repr, Inhabited

/-- `FinalizedAccount` with the data that is published. -/
inductive Change where
  | unchanged
  | deleted
  | created (info : Info) (slots : List (Nat × Nat))
  | updated (info : Info) (slots : List (Nat × Nat))
  deriving DecidableEq, Repr, Inhabited

/-- `FinalizedAccount::from`: classification of a journal account by its flags. -/
def classify (touched selfdestructed created empty : Bool) : Nat :=
  if !touched then 0 else if selfdestructed then 1 else if created then 2 else if empty then 1 else 3

/-- Logical state (revm `State` semantics). -/
structure LState where
  acct : Nat → Option Info
  stor : Nat → Nat → Nat

def lookupSlot (slots : List (Nat × Nat)) (k : Nat) : Option Nat :=
  match slots.find? (fun p => p.1 == k) with
  | some p => some p.2
  | none => none

/-- Commit one account change to the logical state. -/
def commitL (s : LState) (a : Nat) : Change → LState
  | .unchanged => s
  | .deleted =>
      { acct := fun b => if b = a then none else s.acct b,
        stor := fun b k => if b = a then 0 else s.stor b k }
  | .created info slots =>
      { acct := fun b => if b = a then some info else s.acct b,
        stor := fun b k => if b = a then (lookupSlot slots k).getD 0 else s.stor b k }
  | .updated info slots =>
      { acct := fun b => if b = a then some info else s.acct b,
        stor := fun b k => if b = a then (lookupSlot slots k).getD (s.stor b k) else s.stor b k }

/-- What one transaction does to every account (its finalized journal state). -/
abbrev TxChanges := Nat → Change

def commitTx (s : LState) (c : TxChanges) : LState :=
  { acct := fun a => (commitL s a (c a)).acct a,
    stor := fun a k => (commitL s a (c a)).stor a k }

/-- Logical state before transaction `i`: base, then the changes of `0..i-1`. -/
def logical (base : LState) (txs : Nat → TxChanges) : Nat → LState
  | 0 => base
  | i + 1 => commitTx (logical base txs i) (txs i)

/-! ## Physical publication -/

/-- Physical entries of one transaction, as predicates/functions per location kind.
    `pubBasic j a = false` models the skip when nonce, balance and code are what the transaction
    read. -/
structure Published where
  basic : Nat → Option (Option Info)      -- Basic(a): some none = deleted, some (some info)
  reset : Nat → Bool                       -- StorageReset(a)
  slot : Nat → Nat → Option Nat            -- Storage(a, k)
  code : Nat → Option Nat                  -- Code(a)

/-- `publish_writes` for one account. `skipBasic` / `codeChanged` are the two comparisons against
    the account snapshot taken at read time. -/
def publishAcct (ch : Change) (skipBasic codeChanged : Bool) :
    Option (Option Info) × Bool × (Nat → Option Nat) × Option Nat :=
  match ch with
  | .unchanged => (none, false, fun _ => none, none)
  | .deleted => (some none, true, fun _ => none, none)
  | .created info slots =>
      (if skipBasic && !codeChanged then none else some (some info), true,
       fun k => lookupSlot slots k, if codeChanged then some info.code else none)
  | .updated info slots =>
      (if skipBasic && !codeChanged then none else some (some info), false,
       fun k => lookupSlot slots k, if codeChanged then some info.code else none)

def publishTx (c : TxChanges) (skipBasic codeChanged : Nat → Bool) : Published :=
  { basic := fun a => (publishAcct (c a) (skipBasic a) (codeChanged a)).1,
    reset := fun a => (publishAcct (c a) (skipBasic a) (codeChanged a)).2.1,
    slot := fun a k => (publishAcct (c a) (skipBasic a) (codeChanged a)).2.2.1 k,
    code := fun a => (publishAcct (c a) (skipBasic a) (codeChanged a)).2.2.2 }

/-- Latest transaction below `i` for which `f j` is `some`. -/
def latest {α : Type} (f : Nat → Option α) : Nat → Option (Nat × α)
  | 0 => none
  | i + 1 => match f i with
    | some v => some (i, v)
    | none => latest f i

/-- `IncarnationDb::storage` (with the backing store as `base`). -/
def readStorage (mv : Nat → Published) (base : LState) (i a k : Nat) : Nat :=
  let resetTx := latest (fun j => if (mv j).reset a then some () else none) i
  let slotW := latest (fun j => (mv j).slot a k) i
  match slotW, resetTx with
  | some (st, v), none => v
  | some (st, v), some (rt, _) => if st ≥ rt then v else 0
  | none, some _ => 0
  | none, none => base.stor a k

/-- `IncarnationDb::basic` without the code part. -/
def readBasic (mv : Nat → Published) (base : LState) (i a : Nat) : Option Info :=
  match latest (fun j => (mv j).basic a) i with
  | some (_, v) => v
  | none => base.acct a

/-- `code_by_address`: the latest preceding `Code(a)` version, else the backing code `h`. -/
def readCode (mv : Nat → Published) (i a h : Nat) : Nat :=
  match latest (fun j => (mv j).code a) i with
  | some (_, c) => c
  | none => h

/-- The multi-version memory after every transaction published (incarnations that were
    superseded are overwritten in place, so only the final one per transaction matters). -/
def mvOf (txs : Nat → TxChanges) (skipBasic codeChanged : Nat → Nat → Bool) (j : Nat) : Published :=
  publishTx (txs j) (skipBasic j) (codeChanged j)

/-- The post-state info of a change, if it has one. -/
def Change.info? : Change → Option Info
  | .created info _ => some info
  | .updated info _ => some info
  | _ => none

/-- The two comparisons `publish_writes` makes against the account snapshot the transaction read
    (by validation: the in-order pre-state): nonce and balance unchanged; code set and different. -/
def skipReal (base : LState) (txs : Nat → TxChanges) (j a : Nat) : Bool :=
  match (txs j a).info?, (logical base txs j).acct a with
  | some info, some pre => pre.fields == info.fields
  | _, _ => false

def codeChangedReal (base : LState) (txs : Nat → TxChanges) (j a : Nat) : Bool :=
  match (txs j a).info? with
  | some info =>
      info.code != 0 && (match (logical base txs j).acct a with
        | some pre => pre.code != info.code
        | none => true)
  | none => false

end Grevm.Repr
