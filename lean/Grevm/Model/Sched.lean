/-
The speculative pipeline of `src/scheduler.rs` as a labelled transition system:
(re-)execution with per-location multi-version reads and publications, estimate marking,
validation with a timestamp taken BEFORE the read-set scan, validation rewinds that publish
`clock → lower_timestamps[k]`, contiguous finality gated by
`unconfirmed_timestamps[i] > max(lower, lower_timestamps[i])`, and ordered commit.

Granularity: one action = one shared-memory access of the code (one MV-memory lookup / insert /
remove / mark, one atomic fetch_add / fetch_max, one lock-protected status change).  Everything
a worker does to transaction `i` happens under `tx_states[i]`'s lock, so the control state of that
worker is attached to the transaction (`phase i`); any number of workers is thereby covered.

Deliberately over-approximated (safety only): WHICH transaction a worker claims (validation
cursor, dependency graph, execution frontier) is left to the scheduler of the model, i.e. is
arbitrary; the `finality_idx < validation_idx` pre-filter of `lock_finality_candidate` is dropped.
Reads of a location with no preceding MV entry are NOT atomic: the MV miss (`execRead`) and the
read of the committed-state cache (`execFetch`) are separate actions, commits may happen in between,
and the value read is that of the latest committed writer (`cval`), else the block-start value `base`.
Import-free.
-/
import Grevm.Model.Block

namespace Grevm.Sched

open Grevm.Block

inductive Status where
  | initial | executing | executed | validating | unconfirmed | conflict | finality
  deriving DecidableEq, Repr, Inhabited

/-- `MemoryEntry`. -/
structure Entry where
  inc : Nat
  val : Val
  est : Bool
  deriving DecidableEq, Repr, Inhabited

/-- One entry of a read set: location, `ReadVersion` (`none` = `Storage`) and, as ghost data, the
    value that was read. -/
structure ReadRec where
  loc : Loc
  ver : Option (TxId × Nat)
  val : Val
  deriving DecidableEq, Repr, Inhabited

/-- `TransactionResult` (+ ghost: incarnation and written values). -/
structure Result where
  inc : Nat
  reads : List ReadRec
  writes : List (Loc × Val)
  out : Out
  deriving DecidableEq, Repr

/-- The distinct locations of a write list (the `write_set` of the code). -/
def writeLocs : List (Loc × Val) → List Loc
  | [] => []
  | p :: rest => if p.1 ∈ writeLocs rest then writeLocs rest else p.1 :: writeLocs rest

def Result.locs (r : Result) : List Loc := writeLocs r.writes

/-- A successful incarnation between the end of its EVM run and the publication of its result. -/
structure Pending where
  reads : List ReadRec
  writes : List (Loc × Val)
  out : Nat
  blocked : Bool
  deriving DecidableEq, Repr

/-- Control state of the worker holding `tx_states[i]`. -/
inductive Phase where
  | idle
  /-- EVM run in progress: remaining program, reads so far (newest first), blocked-on-estimate -/
  | reading (p : Prog) (reads : List ReadRec) (blocked : Bool)
  /-- the MV lookup of `read l k` missed; about to read the committed-state cache -/
  | fetching (l : Loc) (k : Val → Prog) (reads : List ReadRec) (blocked : Bool)
  /-- `publish_writes`: locations still to publish; `newLoc` = a location outside the previous
      write set has been published -/
  | publishing (run : Pending) (todo : List Loc) (newLoc : Bool)
  /-- removal of stale locations of the previous write set -/
  | removing (run : Pending) (todo : List Loc) (newLoc : Bool)
  /-- execution error: marking the previous write set as estimates -/
  | errMark (err : Nat) (oldWrites : List (Loc × Val)) (todo : List Loc)
  /-- `validate`: before `logical_timestamp()` -/
  | valPreTs
  /-- read-set scan: checked and unchecked reads -/
  | valScan (ts : Nat) (done todo : List ReadRec) (conflict : Bool)
  /-- failed validation: marking the write set as estimates -/
  | valMark (todo : List Loc)
  /-- about to `rewind_validation_to(target)`: before the clock fetch_add.  `st` is the status the
      transaction shows once the lock is released. -/
  | tailPreTs (target : Nat) (st : Status)
  /-- fetched `ts`, before `lower_timestamps[target].fetch_max(ts)` -/
  | tailLts (target ts : Nat) (st : Status)

structure State where
  mv : Loc → TxId → Option Entry
  clock : Nat
  lts : Nat → Nat
  uts : Nat → Nat
  fin : Nat
  lower : Nat
  com : Nat
  outcomes : List Out
  status : TxId → Status
  inc : TxId → Nat
  result : TxId → Option Result
  phase : TxId → Phase
  /-- ghost: the write list of every finished incarnation -/
  hist : TxId → Nat → Option (List (Loc × Val))

/-- Block parameters. -/
structure Params where
  n : Nat
  txs : TxId → Prog
  base : Loc → Val

def init : State :=
  { mv := fun _ _ => none, clock := 1, lts := fun _ => 0, uts := fun _ => 0, fin := 0, lower := 0,
    com := 0, outcomes := [], status := fun _ => .initial, inc := fun _ => 0,
    result := fun _ => none, phase := fun _ => .idle, hist := fun _ _ => none }

/-- The entry of the highest transaction below `i` that has one at `l`
    (`written_transactions.range(..txid).next_back()`). -/
def resolve (mv : Loc → TxId → Option Entry) : (i : TxId) → Loc → Option (TxId × Entry)
  | 0, _ => none
  | i + 1, l =>
      match mv l i with
      | some e => some (i, e)
      | none => resolve mv i l

/-- Value of location `l` in the committed state after the first `c` transactions were committed:
    the write of the latest committed transaction below `c` whose (successful) result writes `l`,
    else the block-start value. -/
def cval (P : Params) (s : State) : Nat → Loc → Val
  | 0, l => P.base l
  | c + 1, l =>
      match s.result c with
      | some r =>
          match r.out with
          | .ok w _ => match lookup w l with
              | some v => v
              | none => cval P s c l
          | .err _ => cval P s c l
      | none => cval P s c l

def updF {α : Type} (f : Nat → α) (i : Nat) (v : α) : Nat → α := fun j => if j = i then v else f j

def setMv (mv : Loc → TxId → Option Entry) (l : Loc) (i : TxId) (e : Option Entry) :
    Loc → TxId → Option Entry :=
  fun l' i' => if l' = l ∧ i' = i then e else mv l' i'

/-- The per-read check of `validate`. -/
def readOk (mv : Loc → TxId → Option Entry) (i : TxId) (r : ReadRec) : Bool :=
  match resolve mv i r.loc with
  | some (k, e) => !e.est && decide (r.ver = some (k, e.inc))
  | none => decide (r.ver = none)

def oldLocs (s : State) (i : TxId) : List Loc :=
  match s.result i with
  | some r => r.locs
  | none => []

def oldWrites (s : State) (i : TxId) : List (Loc × Val) :=
  match s.result i with
  | some r => r.writes
  | none => []

inductive Act where
  | claimExec (i : TxId)
  | execRead (i : TxId)
  /-- after an MV miss: read the committed-state cache (commits may have happened in between) -/
  | execFetch (i : TxId)
  | execFinish (i : TxId)
  /-- publish location `l` of the write set (HashMap order is arbitrary) -/
  | publishOne (i : TxId) (l : Loc)
  | endPublish (i : TxId)
  | removeOne (i : TxId) (l : Loc)
  /-- store the result and decide the tail; `handoff` = `tx_dependency.remove` returned a successor -/
  | recordResult (i : TxId) (handoff : Bool)
  | markOne (i : TxId) (l : Loc)
  | endErrMark (i : TxId)
  | tailTs (i : TxId)
  | tailLts (i : TxId)
  | claimVal (i : TxId)
  | valTs (i : TxId)
  /-- check read-set entry number `k` of the unchecked ones (HashMap order is arbitrary) -/
  | valCheck (i : TxId) (k : Nat)
  | endScan (i : TxId)
  | endValMark (i : TxId)
  | finalize
  | commit

def setPhase (s : State) (i : TxId) (p : Phase) : State := { s with phase := updF s.phase i p }

def step (P : Params) (s : State) : Act → Option State
  | .claimExec i =>
      if i < P.n then
        match s.phase i, s.status i with
        | .idle, .initial | .idle, .conflict =>
            some { s with status := updF s.status i .executing, inc := updF s.inc i (s.inc i + 1),
                          phase := updF s.phase i (.reading (P.txs i) [] false) }
        | _, _ => none
      else none
  | .execRead i =>
      match s.phase i with
      | .reading (.read l k) reads blocked =>
          match resolve s.mv i l with
          | some (j, e) =>
              some (setPhase s i (.reading (k e.val)
                ({ loc := l, ver := some (j, e.inc), val := e.val } :: reads) (blocked || e.est)))
          | none => some (setPhase s i (.fetching l k reads blocked))
      | _ => none
  | .execFetch i =>
      match s.phase i with
      | .fetching l k reads blocked =>
          let v := cval P s s.com l
          some (setPhase s i (.reading (k v) ({ loc := l, ver := none, val := v } :: reads) blocked))
      | _ => none
  | .execFinish i =>
      match s.phase i with
      | .reading (.done w o) reads blocked =>
          some { s with hist := fun j m => if j = i ∧ m = s.inc i then some w else s.hist j m,
                        phase := updF s.phase i
                          (.publishing { reads := reads.reverse, writes := w, out := o, blocked := blocked }
                            (writeLocs w) false) }
      | .reading (.fail e) _ _ =>
          some (setPhase s i (.errMark e (oldWrites s i) (oldLocs s i)))
      | _ => none
  | .publishOne i l =>
      match s.phase i with
      | .publishing run todo newLoc =>
          if l ∈ todo then
            match lookup run.writes l with
            | some v =>
                some { s with mv := setMv s.mv l i (some { inc := s.inc i, val := v, est := run.blocked }),
                              phase := updF s.phase i
                                (.publishing run (todo.erase l) (newLoc || !decide (l ∈ oldLocs s i))) }
            | none => none
          else none
      | _ => none
  | .endPublish i =>
      match s.phase i with
      | .publishing run [] newLoc =>
          some (setPhase s i (.removing run
            ((oldLocs s i).filter (fun l => !decide (l ∈ writeLocs run.writes))) newLoc))
      | _ => none
  | .removeOne i l =>
      match s.phase i with
      | .removing run todo newLoc =>
          if l ∈ todo then
            some { s with mv := setMv s.mv l i none,
                          phase := updF s.phase i (.removing run (todo.erase l) newLoc) }
          else none
      | _ => none
  | .recordResult i handoff =>
      match s.phase i with
      | .removing run [] newLoc =>
          let res : Result := { inc := s.inc i, reads := run.reads, writes := run.writes,
                                out := .ok run.writes run.out }
          let s1 := { s with result := updF s.result i (some res) }
          if run.blocked then some (setPhase s1 i (.tailPreTs (i + 1) .conflict))
          else if newLoc || handoff then some (setPhase s1 i (.tailPreTs i .executed))
          else some { s1 with status := updF s1.status i .validating,
                              phase := updF s1.phase i .valPreTs }
      | _ => none
  | .markOne i l =>
      match s.phase i with
      | .errMark e ow todo =>
          if l ∈ todo then
            match s.mv l i with
            | some en => some { s with mv := setMv s.mv l i (some { en with est := true }),
                                       phase := updF s.phase i (.errMark e ow (todo.erase l)) }
            | none => some (setPhase s i (.errMark e ow (todo.erase l)))
          else none
      | .valMark todo =>
          if l ∈ todo then
            match s.mv l i with
            | some en => some { s with mv := setMv s.mv l i (some { en with est := true }),
                                       phase := updF s.phase i (.valMark (todo.erase l)) }
            | none => some (setPhase s i (.valMark (todo.erase l)))
          else none
      | _ => none
  | .endErrMark i =>
      match s.phase i with
      | .errMark e ow [] =>
          let res : Result := { inc := s.inc i, reads := [], writes := ow, out := .err e }
          some { s with result := updF s.result i (some res),
                        phase := updF s.phase i (.tailPreTs (i + 1) .conflict) }
      | _ => none
  | .tailTs i =>
      match s.phase i with
      | .tailPreTs k st =>
          -- `rewind_validation_to` returns at once for an index beyond the block
          if k < P.n then
            some { s with clock := s.clock + 1, phase := updF s.phase i (.tailLts k s.clock st) }
          else some { s with status := updF s.status i st, phase := updF s.phase i .idle }
      | _ => none
  | .tailLts i =>
      match s.phase i with
      | .tailLts k ts st =>
          some { s with lts := updF s.lts k (max (s.lts k) ts), status := updF s.status i st,
                        phase := updF s.phase i .idle }
      | _ => none
  | .claimVal i =>
      match s.phase i, s.status i with
      | .idle, .executed | .idle, .unconfirmed =>
          some { s with status := updF s.status i .validating, phase := updF s.phase i .valPreTs }
      | _, _ => none
  | .valTs i =>
      match s.phase i, s.result i with
      | .valPreTs, some r =>
          some { s with clock := s.clock + 1, phase := updF s.phase i (.valScan s.clock [] r.reads false) }
      | _, _ => none
  | .valCheck i k =>
      match s.phase i with
      | .valScan ts done todo conflict =>
          match todo[k]? with
          | some r =>
              some (setPhase s i (.valScan ts (r :: done) (todo.eraseIdx k)
                (conflict || !readOk s.mv i r)))
          | none => none
      | _ => none
  | .endScan i =>
      match s.phase i with
      | .valScan ts _ [] conflict =>
          if conflict then some (setPhase s i (.valMark (oldLocs s i)))
          else some { s with uts := updF s.uts i (max (s.uts i) ts),
                             status := updF s.status i .unconfirmed, phase := updF s.phase i .idle }
      | _ => none
  | .endValMark i =>
      match s.phase i with
      | .valMark [] => some (setPhase s i (.tailPreTs (i + 1) .conflict))
      | _ => none
  | .finalize =>
      let i := s.fin
      if i < P.n then
        match s.phase i, s.status i with
        | .idle, .unconfirmed =>
            let eff := max s.lower (s.lts i)
            if s.uts i > eff then
              some { s with lower := eff, status := updF s.status i .finality, fin := i + 1 }
            else none
        | _, _ => none
      else none
  | .commit =>
      if s.com < s.fin then
        match s.result s.com with
        | some r => some { s with outcomes := s.outcomes ++ [r.out], com := s.com + 1 }
        | none => none
      else none

def run (P : Params) (s : State) : List Act → Option State
  | [] => some s
  | a :: as => match step P s a with
    | none => none
    | some s' => run P s' as

/-- Reachable states of the block `P`. -/
def Reachable (P : Params) (s : State) : Prop := ∃ as, run P init as = some s

end Grevm.Sched
