/-
Model of `src/beneficiary/history.rs` (`BeneficiaryHistory`: record / invalidate / scan_before /
resolve / validate), of `DeferredBeneficiaryReward::apply_to` and of the reward amount computed by
`BeneficiaryReward::from_gas` (`src/beneficiary/reward.rs`).  Balances are naturals bounded by
`2^256` (checked add).  Import-free.
-/
namespace Grevm.History

def U256_MAX : Nat := 2 ^ 256 - 1

/-- The beneficiary's account as far as rewards are concerned: the balance and an opaque rest
    (nonce, code hash, …) that rewards preserve. -/
structure Acct where
  balance : Nat
  rest : Nat
  deriving DecidableEq, Repr, Inhabited

def Acct.default : Acct := { balance := 0, rest := 0 }

/-- `DeferredBeneficiaryReward::apply_to`: checked add; overflow leaves the balance unchanged; an
    absent account is materialised (with default fields). -/
def applyReward (amt : Nat) (a : Option Acct) : Acct :=
  let acc := a.getD Acct.default
  if acc.balance + amt ≤ U256_MAX then { acc with balance := acc.balance + amt } else acc

inductive Effect where
  | unchanged
  | reward (amt : Nat)
  | snapshot (a : Option Acct)
  deriving DecidableEq, Repr, Inhabited

inductive EntryVal where
  | estimate
  | exact (e : Effect)
  deriving DecidableEq, Repr, Inhabited

structure Entry where
  inc : Nat
  val : EntryVal
  deriving DecidableEq, Repr, Inhabited

structure Hist where
  anchor : Option Acct
  entries : List Entry
  deriving Repr

def Hist.new (anchor : Option Acct) (n : Nat) : Hist :=
  { anchor := anchor, entries := List.replicate n { inc := 0, val := .estimate } }

/-- `HistoryEntry::record`: only the first publication of a newer incarnation is accepted. -/
def record (h : Hist) (txid inc : Nat) (v : EntryVal) : Hist × Bool :=
  match h.entries[txid]? with
  | none => (h, false)
  | some e =>
      if inc ≤ e.inc then (h, false)
      else ({ h with entries := h.entries.set txid { inc := inc, val := v } }, true)

/-- `HistoryEntry::invalidate`: only the incarnation that validation inspected. -/
def invalidate (h : Hist) (txid inc : Nat) : Hist × Bool :=
  match h.entries[txid]? with
  | none => (h, false)
  | some e =>
      if e.inc ≠ inc then (h, false)
      else match e.val with
        | .exact _ => ({ h with entries := h.entries.set txid { inc := inc, val := .estimate } }, true)
        | .estimate => (h, true)

structure Scan where
  base : Option Acct
  /-- rewards newest first -/
  rewards : List Nat
  /-- contributing `(txid, incarnation)`, newest first -/
  origins : List (Nat × Nat)
  deriving DecidableEq, Repr

/-- `scan_before`, walking from `txid - 1` down to `0`; `entries` is the prefix below the reader,
    newest LAST, processed by recursion on the reversed list. `k` is the txid of the head. -/
def scanRev (anchor : Option Acct) : (revPrefix : List Entry) → (k : Nat) → Except Nat Scan
  | [], _ => .ok { base := anchor, rewards := [], origins := [] }
  | e :: rest, k =>
      match e.val with
      | .estimate => .error k
      | .exact .unchanged =>
          match scanRev anchor rest (k - 1) with
          | .error b => .error b
          | .ok s => .ok { s with origins := (k, e.inc) :: s.origins }
      | .exact (.reward amt) =>
          match scanRev anchor rest (k - 1) with
          | .error b => .error b
          | .ok s => .ok { s with rewards := amt :: s.rewards, origins := (k, e.inc) :: s.origins }
      | .exact (.snapshot a) => .ok { base := a, rewards := [], origins := [(k, e.inc)] }

def scanBefore (h : Hist) (txid : Nat) : Except Nat Scan :=
  scanRev h.anchor (h.entries.take txid).reverse (txid - 1)

/-- `HistoryScan::resolve`: apply the rewards oldest first, each with its own checked add. -/
def Scan.resolve (s : Scan) : Option Acct :=
  s.rewards.reverse.foldl (fun acc amt => some (applyReward amt acc)) s.base

def resolveBefore (h : Hist) (txid : Nat) : Except Nat (Option Acct × List (Nat × Nat)) :=
  match scanBefore h txid with
  | .error b => .error b
  | .ok s => .ok (s.resolve, s.origins)

/-- `validate`: `(valid, dependency)`. -/
def validate (h : Hist) (txid : Nat) (expected : List (Nat × Nat)) : Bool × Option Nat :=
  match scanBefore h txid with
  | .error b => (false, some b)
  | .ok s => (decide (s.origins = expected), s.origins.head?.map (·.1))

/-- In-order semantics of one exact effect on the beneficiary account. -/
def applyEffect (a : Option Acct) : Effect → Option Acct
  | .unchanged => a
  | .reward amt => some (applyReward amt a)
  | .snapshot s => s

/-! ## Reward amount (`BeneficiaryReward::from_gas`) -/

structure RewardInput where
  feeDisabled : Bool
  london : Bool
  basefee : Nat
  effectiveGasPrice : Nat
  gasUsed : Nat
  reservoir : Nat
  deriving DecidableEq, Repr

/-- `None` when fee charging is disabled, else price × (used − reservoir) with the base fee
    subtracted (saturating) from London on. -/
def rewardAmount (i : RewardInput) : Option Nat :=
  if i.feeDisabled then none
  else
    let price := if i.london then i.effectiveGasPrice - i.basefee else i.effectiveGasPrice
    some (price * (i.gasUsed - i.reservoir))

/-- The handler's decision: `none` = fee disabled, nothing happens; `some (true, amt)` = deferred to
    ordered commit; `some (false, amt)` = applied immediately through revm's hook (touching). -/
def rewardDecision (i : RewardInput) (beneficiaryInJournal : Bool) : Option (Bool × Nat) :=
  match rewardAmount i with
  | none => none
  | some amt => some (decide (amt ≠ 0) && !beneficiaryInJournal, amt)

end Grevm.History
