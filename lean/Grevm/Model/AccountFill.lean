/-
Account entries of the committed-state cache (`ParallelStateView::db_basic`,
`load_mut_cache_account`, `apply_account_state` in src/parallel_state.rs).

A speculative worker that misses the cache fetches the account from the backing database and then
PUBLISHES the fetched entry; the two steps are not atomic, so any number of commits may happen in
between.  The database is immutable during the block, so every reader publishes the same value
`db`; an interleaving of readers and commits is therefore a list of `publish` and `commit v` steps
in any order.  The code publishes with insert-if-absent (`Entry::Vacant` / `Entry::Occupied`).
-/
namespace Grevm.AccountFill

/-- `entry`: what the cache holds for the account (`none` = not cached).
    `last`: ghost — the value of the latest commit, `none` before the first. -/
structure State (α : Type) where
  entry : Option α
  last : Option α

inductive Op (α : Type) where
  /-- a reader publishes the value it fetched from the database -/
  | publish
  /-- the commit thread applies a finalized account (`v` is the new account, `none` = deleted) -/
  | commit (v : α)

def init {α : Type} : State α := { entry := none, last := none }

/-- The code: insert-if-absent; returns the new state and the value handed to the reader. -/
def step {α : Type} (db : α) (s : State α) : Op α → State α
  | .publish => { s with entry := some (s.entry.getD db) }
  | .commit v => { entry := some v, last := some v }

/-- The value a reader is handed at its publication: the entry that is in the cache afterwards. -/
def returned {α : Type} (db : α) (s : State α) : α := s.entry.getD db

/-- The variant that publishes blindly (`cache.accounts.insert`). -/
def blindStep {α : Type} (db : α) (s : State α) : Op α → State α
  | .publish => { s with entry := some db }
  | .commit v => { entry := some v, last := some v }

/-- What revm's `State` serves after the same commits: the latest committed value, else the
    database value. -/
def logical {α : Type} (db : α) (s : State α) : α := s.last.getD db

def run {α : Type} (db : α) (ops : List (Op α)) : State α := ops.foldl (step db) init
def blindRun {α : Type} (db : α) (ops : List (Op α)) : State α := ops.foldl (blindStep db) init

end Grevm.AccountFill
