/-
Model of the delegated-balance reserve (`src/delegated_safety/reserve.rs`, decision part of
`handler.rs`): the lazily built per-sender suffix sums (`ReservePlanner`), the scan of the
surviving journal for debits of delegated accounts with the reconstruction of the pre-debit balance
(`delegated_debits_since`, `balance_before_entry`), and the violation test
(`has_reserve_violation`).  Amounts are naturals; `MAXU = 2^256 - 1` is where U256 saturates.
Import-free.
-/
namespace Grevm.Reserve

def MAXU : Nat := 2 ^ 256 - 1

def satAdd (a b : Nat) : Nat := if a + b > MAXU then MAXU else a + b
def satSub (a b : Nat) : Nat := a - b

/-- A block transaction as the planner sees it: its caller and `max_balance_spending()`
    (`none` = the computation overflowed, treated as `U256::MAX`). -/
structure Tx where
  caller : Nat
  cost : Option Nat
  deriving Repr, DecidableEq, Inhabited

def Tx.maxCost (t : Tx) : Nat := t.cost.getD MAXU

/-! ## Planner as implemented -/

/-- `sender_index()[a]`: ascending ids of the transactions sent by `a`. -/
def senderIds (txs : List Tx) (a : Nat) : List Nat :=
  (List.range txs.length).filter fun i => (txs.getD i default).caller == a

/-- `build_schedule`: suffix sums aligned with the id list, accumulated from the right. -/
def costFrom (txs : List Tx) : List Nat → List Nat
  | [] => []
  | i :: rest =>
      let tail := costFrom txs rest
      satAdd (tail.headD 0) ((txs.getD i default).maxCost) :: tail

/-- `partition_point(|c| c <= txid)` on an ascending list. -/
def partitionPoint (txid : Nat) : List Nat → Nat
  | [] => 0
  | i :: rest => if i ≤ txid then 1 + partitionPoint txid rest else 0

/-- `ReservePlanner::required_after`. -/
def requiredAfter (txs : List Tx) (txid a : Nat) : Nat :=
  let ids := senderIds txs a
  let idx := partitionPoint txid ids
  if idx == ids.length then 0 else (costFrom txs ids).getD idx 0

/-! ## Specification of the planner -/

/-- Saturating sum of the maximum costs of `a`'s transactions with index in `[k, k+m)`,
    accumulated from the last one backwards (as U256 saturating addition is applied). -/
def reqFrom (txs : List Tx) (a : Nat) : Nat → Nat → Nat
  | _, 0 => 0
  | k, m + 1 =>
      let r := reqFrom txs a (k + 1) m
      if (txs.getD k default).caller == a then satAdd r ((txs.getD k default).maxCost) else r

/-- The same sum without saturation. -/
def sumFrom (txs : List Tx) (a : Nat) : Nat → Nat → Nat
  | _, 0 => 0
  | k, m + 1 =>
      let r := sumFrom txs a (k + 1) m
      if (txs.getD k default).caller == a then r + (txs.getD k default).maxCost else r

/-- What `required_after(txid, a)` has to be: the (saturating) cost of `a`'s transactions
    strictly after `txid`. -/
def requiredSpec (txs : List Tx) (txid a : Nat) : Nat :=
  reqFrom txs a (txid + 1) (txs.length - (txid + 1))

/-! ## Journal scan -/

inductive Entry where
  | transfer (src dst v : Nat)
  | destroyed (addr target had : Nat)
  | balanceChange (addr old : Nat)
  | other
  deriving Repr, DecidableEq, Inhabited

/-- The root transaction as the scan needs it. `target = none` for a create transaction. -/
structure Root where
  caller : Nat
  value : Nat
  target : Option Nat
  deriving Repr, DecidableEq, Inhabited

def isRootTransfer (e : Entry) (r : Root) : Bool :=
  match e with
  | .transfer src dst v =>
      src == r.caller && v == r.value &&
        (match r.target with | some t => dst == t | none => true)
  | _ => false

/-- Source of a value-moving entry (`None` for self-transfers, zero amounts, other entries). -/
def debitSource : Entry → Option Nat
  | .transfer src dst v => if src != dst && v != 0 then some src else none
  | .destroyed addr _ had => if had != 0 then some addr else none
  | _ => none

/-- Undo one entry for `a` (going backwards). -/
def undo (a : Nat) (bal : Nat) : Entry → Nat
  | .transfer src dst v =>
      if src == a && dst != a then satAdd bal v
      else if dst == a && src != a then satSub bal v
      else bal
  | .destroyed addr target had =>
      if addr == a then satAdd bal had
      else if target == a then satSub bal had
      else bal
  | .balanceChange addr old => if addr == a then old else bal
  | .other => bal

/-- `balance_before_entry`: undo `entries[idx..]` from the back. -/
def balanceBefore (entries : List Entry) (idx a final : Nat) : Nat :=
  (entries.drop idx).foldr (fun e bal => undo a bal e) final

/-- First surviving protected debit per delegated account: list of `(address, entry index)`,
    in order of first occurrence. -/
def firstDebits (entries : List Entry) (root : Root) (delegated : Nat → Bool) :
    List (Nat × Nat) :=
  let rec go (es : List Entry) (i : Nat) (pending : Bool) (acc : List (Nat × Nat)) : List (Nat × Nat) :=
    match es with
    | [] => acc
    | e :: rest =>
        if pending && isRootTransfer e root then go rest (i + 1) false acc
        else match debitSource e with
          | some s =>
              if delegated s && !(acc.any (·.1 == s)) then go rest (i + 1) pending (acc ++ [(s, i)])
              else go rest (i + 1) pending acc
          | none => go rest (i + 1) pending acc
  go entries 0 (root.value != 0) []

structure Debit where
  address : Nat
  before : Nat
  final : Nat
  deriving Repr, DecidableEq, Inhabited

def delegatedDebits (entries : List Entry) (root : Root) (delegated : Nat → Bool)
    (finalBal : Nat → Nat) : List Debit :=
  (firstDebits entries root delegated).map fun (a, i) =>
    { address := a, before := balanceBefore entries i a (finalBal a), final := finalBal a }

/-- `has_reserve_violation`. -/
def violates (txs : List Tx) (txid : Nat) (debits : List Debit) : Bool :=
  debits.any fun d =>
    let fc := requiredAfter txs txid d.address
    fc != 0 && d.final < min d.before fc

end Grevm.Reserve
