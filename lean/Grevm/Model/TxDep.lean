/-
Model of `src/tx_dependency.rs` (`TxDependency::{next, remove, commit, key_tx, add}`) together with
the committed cursor that `key_tx` reads, for any number of threads.  One step = the code between
two schedule points: a lock acquisition (enabled only when the lock is free) followed by the
lock-protected body up to the next acquisition or atomic `fetch_min`, which is its own step
performed while the locks are still held — exactly the hook sites of the instrumented source.
-/
namespace Grevm.TxDep

abbrev Tid := Nat

inductive Pc where
  | idle
  | nextLoad
  | nextAdd
  | nextLock (idx : Nat)
  | rmLockAff (d : Nat) (pop : Bool)
  /-- holds `affect[d]`; `seen` = elements already processed; `nx` = direct hand-off so far -/
  | rmIter (d : Nat) (pop : Bool) (seen : List Nat) (nx : Option Nat)
  /-- holds `affect[d]` and `dep[tx]`; about to `fetch_min(tx)` -/
  | rmMin (d : Nat) (pop : Bool) (seen : List Nat) (nx : Option Nat) (tx : Nat)
  | cmLock (nx : Nat)
  | cmMin (nx : Nat)
  | keyLock (t : Nat)
  | keyRead (t : Nat)
  | keyMin (t : Nat)
  | addLockAff (t d : Nat)
  | addLockDep (t d : Nat)
  | addLockTx (t d : Nat)
  | addMin (t d : Nat)
  | addNoneLock (t : Nat)
  | addNoneMin (t : Nat)
  | pubCommit (v : Nat)
  deriving DecidableEq, Repr, Inhabited

structure State where
  n : Nat
  onboard : Nat → Bool
  dependency : Nat → Option Nat
  affect : Nat → List Nat
  depLock : Nat → Option Tid
  affLock : Nat → Option Tid
  index : Nat
  committed : Nat
  pc : Tid → Pc

def init (n : Nat) : State :=
  { n := n, onboard := fun _ => true, dependency := fun _ => none, affect := fun _ => [],
    depLock := fun _ => none, affLock := fun _ => none, index := 0, committed := 0,
    pc := fun _ => .idle }

/-- API calls. `commit t` stands for `publish_commit(t+1)` followed by `commit(t)`. -/
inductive Call where
  | next
  | remove (d : Nat) (pop : Bool)
  | commit (t : Nat)
  | keyTx (t : Nat)
  | add (t : Nat) (d : Option Nat)
  deriving DecidableEq, Repr

inductive Act where
  | call (t : Tid) (c : Call)
  /-- next step of thread `t`; `pick` selects the element for the `remove` iteration -/
  | stepT (t : Tid) (pick : Nat)
  deriving DecidableEq, Repr

/-- Return value of a finished call (`none` for unit-returning calls is `some none` here). -/
abbrev Ret := Option (Option Nat)

def upd {α : Type} (f : Nat → α) (i : Nat) (v : α) : Nat → α := fun j => if j = i then v else f j

def setPc (s : State) (t : Tid) (p : Pc) : State := { s with pc := upd s.pc t p }

/-- Finish or continue the `remove(d)` iteration after one element has been processed. -/
def rmContinue (s : State) (t : Tid) (d : Nat) (pop : Bool) (seen : List Nat) (nx : Option Nat) :
    State × Ret :=
  if (s.affect d).all (fun x => seen.contains x) then
    (setPc { s with affect := upd s.affect d [], affLock := upd s.affLock d none } t .idle, some nx)
  else (setPc s t (.rmIter d pop seen nx), none)

def step (s : State) : Act → Option (State × Ret)
  | .call t c =>
      match s.pc t with
      | .idle =>
          match c with
          | .next => some (setPc s t .nextLoad, none)
          | .remove d pop => if d < s.n then some (setPc s t (.rmLockAff d pop), none) else none
          | .commit x => if x < s.n then some (setPc s t (.pubCommit (x + 1)), none) else none
          | .keyTx x => if x < s.n then some (setPc s t (.keyLock x), none) else none
          | .add x (some d) =>
              if d < x ∧ x < s.n then some (setPc s t (.addLockAff x d), none) else none
          | .add x none => if x < s.n then some (setPc s t (.addNoneLock x), none) else none
      | _ => none
  | .stepT t pick =>
      match s.pc t with
      | .idle => none
      | .nextLoad =>
          if s.index ≥ s.n then some (setPc s t .idle, some none)
          else some (setPc s t .nextAdd, none)
      | .nextAdd =>
          let idx := s.index
          let s1 := { s with index := s.index + 1 }
          if idx ≥ s.n then some (setPc s1 t .idle, some none)
          else some (setPc s1 t (.nextLock idx), none)
      | .nextLock idx =>
          match s.depLock idx with
          | some _ => none
          | none =>
              if s.onboard idx = true ∧ s.dependency idx = none then
                some (setPc { s with onboard := upd s.onboard idx false } t .idle, some (some idx))
              else some (setPc s t .idle, some none)
      | .rmLockAff d pop =>
          match s.affLock d with
          | some _ => none
          | none =>
              if (s.affect d).isEmpty then some (setPc s t .idle, some none)
              else some (setPc { s with affLock := upd s.affLock d (some t) } t
                          (.rmIter d pop [] none), none)
      | .rmIter d pop seen nx =>
          let tx := pick
          if (s.affect d).contains tx ∧ !seen.contains tx then
            match s.depLock tx with
            | some _ => none
            | none =>
                if s.dependency tx = some d then
                  let s1 := { s with dependency := upd s.dependency tx none }
                  if s.onboard tx = true then
                    if pop = true ∧ tx = d + 1 ∧ s.index > tx then
                      some (rmContinue { s1 with onboard := upd s1.onboard tx false } t d pop
                              (tx :: seen) (some tx))
                    else
                      some (setPc { s1 with depLock := upd s1.depLock tx (some t) } t
                              (.rmMin d pop (tx :: seen) nx tx), none)
                  else some (rmContinue s1 t d pop (tx :: seen) nx)
                else some (rmContinue s t d pop (tx :: seen) nx)
          else none
      | .rmMin d pop seen nx tx =>
          some (rmContinue { s with index := min s.index tx, depLock := upd s.depLock tx none }
                  t d pop seen nx)
      | .pubCommit v =>
          -- `commit(v-1)`: `next = v`
          let s1 := { s with committed := v }
          if v < s.n then some (setPc s1 t (.cmLock v), none) else some (setPc s1 t .idle, some none)
      | .cmLock nx =>
          match s.depLock nx with
          | some _ => none
          | none =>
              if s.onboard nx = true then
                some (setPc { s with dependency := upd s.dependency nx none,
                                     depLock := upd s.depLock nx (some t) } t (.cmMin nx), none)
              else some (setPc s t .idle, some none)
      | .cmMin nx =>
          some (setPc { s with index := min s.index nx, depLock := upd s.depLock nx none } t .idle,
                some none)
      | .keyLock x =>
          match s.depLock x with
          | some _ => none
          | none => some (setPc { s with depLock := upd s.depLock x (some t) } t (.keyRead x), none)
      | .keyRead x =>
          let dep' := if x > s.committed then some x else s.dependency x
          let s1 := { s with dependency := upd s.dependency x dep', onboard := upd s.onboard x true }
          if dep' = none then some (setPc s1 t (.keyMin x), none)
          else some (setPc { s1 with depLock := upd s1.depLock x none } t .idle, some none)
      | .keyMin x =>
          some (setPc { s with index := min s.index x, depLock := upd s.depLock x none } t .idle,
                some none)
      | .addLockAff x d =>
          match s.affLock d with
          | some _ => none
          | none => some (setPc { s with affLock := upd s.affLock d (some t) } t (.addLockDep x d),
                          none)
      | .addLockDep x d =>
          match s.depLock d with
          | some _ => none
          | none => some (setPc { s with depLock := upd s.depLock d (some t) } t (.addLockTx x d),
                          none)
      | .addLockTx x d =>
          match s.depLock x with
          | some _ => none
          | none =>
              let s1 := { s with
                dependency := upd s.dependency x (some d),
                onboard := upd (upd s.onboard x true) d true,
                affect := upd s.affect d (if (s.affect d).contains x then s.affect d
                                          else x :: s.affect d) }
              if s.dependency d = none then
                some (setPc { s1 with depLock := upd s1.depLock x (some t) } t (.addMin x d), none)
              else
                some (setPc { s1 with depLock := upd s1.depLock d none,
                                      affLock := upd s1.affLock d none } t .idle, some none)
      | .addMin x d =>
          some (setPc { s with index := min s.index d,
                               depLock := upd (upd s.depLock x none) d none,
                               affLock := upd s.affLock d none } t .idle, some none)
      | .addNoneLock x =>
          match s.depLock x with
          | some _ => none
          | none =>
              if s.onboard x = false then
                some (setPc { s with onboard := upd s.onboard x true,
                                     dependency := upd s.dependency x none,
                                     depLock := upd s.depLock x (some t) } t (.addNoneMin x), none)
              else some (setPc s t .idle, some none)
      | .addNoneMin x =>
          some (setPc { s with index := min s.index x, depLock := upd s.depLock x none } t .idle,
                some none)

def run (s : State) : List Act → Option (State × List Ret)
  | [] => some (s, [])
  | a :: as =>
      match step s a with
      | none => none
      | some (s', r) =>
          match run s' as with
          | none => none
          | some (s'', rs) => some (s'', r :: rs)

end Grevm.TxDep
