/-
Model of `src/scheduler/wait.rs` (`WaitSlot::{register_current_thread, notify, wait_while}`) with
`park` modelled by its contract — block until a token is present, consume it — and NO timeout.
One waiter (the slot is single-consumer), any number of producers.  A producer changes the
state the waiter's predicate reads and then notifies, as `validate`, the finality loop and
`cancel` do.
-/
namespace Grevm.WaitSlot

/-- Waiter control state: the coordinator loop `while !done { ...; wait_while(blocked) }`. -/
inductive WPc where
  | start      -- before `register_current_thread`
  | check1     -- about to evaluate `blocked()` the first time
  | check2     -- yielded, about to evaluate `blocked()` again
  | park       -- second check said blocked: at `park_timeout`
  | done       -- predicate was seen false: `wait_while` returned for good
  deriving DecidableEq, Repr, Inhabited

/-- Producer control state. -/
inductive NPc where
  | idle
  | published   -- has written the condition, about to read the registered thread
  | unparking   -- read `Some(thread)`, about to `unpark`
  deriving DecidableEq, Repr, Inhabited

structure State where
  registered : Bool
  token : Bool
  ready : Bool          -- `blocked() = !ready`
  wpc : WPc
  npc : Nat → NPc

inductive Act where
  | wStep                     -- the waiter performs its next step
  | nPublish (j : Nat) (v : Bool)   -- producer j writes the condition (true or false)
  | nStep (j : Nat)           -- producer j performs its next step of `notify`
  deriving DecidableEq, Repr

def setN (s : State) (j : Nat) (p : NPc) : State :=
  { s with npc := fun u => if u = j then p else s.npc u }

def step (s : State) : Act → Option State
  | .wStep =>
      match s.wpc with
      | .start => some { s with registered := true, wpc := .check1 }
      | .check1 => if s.ready then some { s with wpc := .done } else some { s with wpc := .check2 }
      | .check2 => if s.ready then some { s with wpc := .done } else some { s with wpc := .park }
      | .park => if s.token then some { s with token := false, wpc := .check1 } else none
      | .done => none
  | .nPublish j v =>
      match s.npc j with
      | .idle => some (setN { s with ready := v } j .published)
      | _ => none
  | .nStep j =>
      match s.npc j with
      | .idle => none
      | .published => if s.registered then some (setN s j .unparking) else some (setN s j .idle)
      | .unparking => some (setN { s with token := true } j .idle)

def run (s : State) : List Act → Option State
  | [] => some s
  | a :: as => match step s a with
    | none => none
    | some s' => run s' as

def init : State :=
  { registered := false, token := false, ready := false, wpc := .start, npc := fun _ => .idle }

end Grevm.WaitSlot
