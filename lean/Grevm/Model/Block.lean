/-
Transactions as deterministic programs over database reads, the in-order ("ideal") semantics of
a block, and multi-version read resolution.  This is the abstraction of revm used by the
pipeline model: a transaction is an interaction tree branching on the values it reads; revm's
interpreter, journal and handler are NOT modelled.  Import-free.
-/
namespace Grevm.Block

/- Plain notations (not `abbrev`s, which hide hypotheses from `omega`). -/
notation "Loc" => Nat
notation "Val" => Nat
notation "TxId" => Nat

/-- A transaction: reads locations (the continuation depends on the value read), then finishes
    with a write set and an output, or fails with an error. -/
inductive Prog where
  | done (writes : List (Loc × Val)) (out : Nat)
  | fail (err : Nat)
  | read (l : Loc) (k : Val → Prog)

/-- What a finished run produced. -/
inductive Out where
  | ok (writes : List (Loc × Val)) (out : Nat)
  | err (e : Nat)
  deriving DecidableEq, Repr

/-- A run of a program: the values read, in order, and the result. -/
structure Run where
  reads : List (Loc × Val)
  out : Out
  deriving DecidableEq, Repr

/-- Run a program against a read function. -/
def exec : Prog → (Loc → Val) → Run
  | .done w o, _ => { reads := [], out := .ok w o }
  | .fail e, _ => { reads := [], out := .err e }
  | .read l k, rd =>
      let r := exec (k (rd l)) rd
      { r with reads := (l, rd l) :: r.reads }

/-- `Consistent p reads out`: feeding `p` the recorded values in order yields `out`
    (the recorded run is a possible run of the program). -/
def Consistent : Prog → List (Loc × Val) → Out → Prop
  | .done w o, [], out => out = .ok w o
  | .fail e, [], out => out = .err e
  | .read l k, (l', v) :: rest, out => l' = l ∧ Consistent (k v) rest out
  | _, _, _ => False

def Out.writes : Out → List (Loc × Val)
  | .ok w _ => w
  | .err _ => []

def lookup (w : List (Loc × Val)) (l : Loc) : Option Val :=
  match w.find? (fun p => p.1 == l) with
  | some p => some p.2
  | none => none

/-- The value of `l` seen by transaction `i` when transactions `0..i-1` wrote `W 0 … W (i-1)`:
    the write of the highest `j < i` that wrote `l`, else the base value. -/
def view (W : TxId → List (Loc × Val)) (base : Loc → Val) : (i : TxId) → Loc → Val
  | 0, l => base l
  | i + 1, l =>
      match lookup (W i) l with
      | some v => v
      | none => view W base i l

instance : Inhabited Run := ⟨{ reads := [], out := .err 0 }⟩

/-- In-order execution of the first `n` transactions, as a function on indices below `n`. -/
def idealUpTo (txs : TxId → Prog) (base : Loc → Val) : Nat → TxId → Run
  | 0 => fun _ => default
  | n + 1 => fun j =>
      if j = n then exec (txs n) (view (fun k => (idealUpTo txs base n k).out.writes) base n)
      else idealUpTo txs base n j

/-- The in-order run of transaction `i`: executed against the state left by `0..i-1`. -/
def ideal (txs : TxId → Prog) (base : Loc → Val) (i : TxId) : Run :=
  idealUpTo txs base (i + 1) i

def idealWrites (txs : TxId → Prog) (base : Loc → Val) (i : TxId) : List (Loc × Val) :=
  (ideal txs base i).out.writes

end Grevm.Block
