/-
Model of the delegated-CREATE guard: `guarded_create` (`src/delegated_safety/instructions.rs`),
the decision to swap the instruction table (`src/scheduler/executor.rs`) and the per-spec
normalisation of the policy (`DelegatedSafetyConfig::for_spec`).  The inputs of the decision are
six booleans, so every theorem about it is a complete case analysis.  Import-free.
-/
namespace Grevm.Guard

/-- What executing CREATE / CREATE2 does to the frame. -/
inductive Outcome where
  | staticViolation      -- `StateChangeDuringStaticCall`
  | notActivated         -- `NotActivated` (halts the frame, consumes its gas)
  | stock                -- revm's `contract::create` runs (may still fail for its own reasons)
  deriving DecidableEq, Repr, Inhabited

/-- The checks stock revm makes before creating. -/
def stockCreate (isStatic isCreate2 petersburg : Bool) : Outcome :=
  if isStatic then .staticViolation
  else if isCreate2 && !petersburg then .notActivated
  else .stock

/-- `guarded_create`: `delegatedTarget` = the frame's `target_address` carries an EIP-7702
    designator. -/
def guardedCreate (isStatic isCreate2 petersburg delegatedTarget : Bool) : Outcome :=
  if isStatic then .staticViolation
  else if isCreate2 && !petersburg then .notActivated
  else if delegatedTarget then .notActivated
  else .stock

/-- `DelegatedSafetyConfig::for_spec` for the create switch. -/
def forSpec (enabled prague : Bool) : Bool := enabled && prague

/-- `create_evm`: the guarded table is installed iff the switch is on and the spec is >= Prague. -/
def tableSwapped (enabled prague : Bool) : Bool := enabled && prague

/-- The engine's behaviour at a CREATE / CREATE2. -/
def effective (enabled prague isStatic isCreate2 petersburg delegatedTarget : Bool) : Outcome :=
  if tableSwapped (forSpec enabled prague) prague then
    guardedCreate isStatic isCreate2 petersburg delegatedTarget
  else stockCreate isStatic isCreate2 petersburg

def Outcome.code : Outcome → Nat
  | .staticViolation => 0
  | .notActivated => 1
  | .stock => 2

end Grevm.Guard
