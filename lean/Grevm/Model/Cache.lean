/-
Model of the committed-state cache shared by speculative workers (cache-filling reads,
`ParallelStateView::db_storage`) and the ordered commit (`ParallelCacheState::apply_account_state`)
in `src/parallel_state.rs`, for ONE storage slot of ONE account (the maps are keyed by address and
slot, other keys do not interact).  `logical` is what revm's `State` serves for the slot after the
same commits.  One action = one critical section of the code:

* reader: `rLook` (cache hit, or read the account status and fetch from the database),
  `rInsert` (under the storage-map guard: re-check the status, insert if absent);
* commit: `cBegin` (update the account: status / info), `cClear` (`storage.remove(address)`),
  `cWrite` (`update_storage_slot`).

`fixed = true` is the code after the repair of finding F1 (status published before the clearing,
status re-checked at the insert); `fixed = false` is the original order without the re-check.
Import-free.
-/
namespace Grevm.Cache

inductive RPc where
  | idle
  /-- fetched `v`; `wasKnown` = the storage-known status read before the fetch -/
  | fetched (v : Nat) (wasKnown : Bool)
  | done (v : Nat)
  deriving DecidableEq, Repr, Inhabited

/-- What the commit of one transaction does to the account, seen from this slot. -/
inductive Op where
  /-- SELFDESTRUCT or EIP-161 empty-touch: the slot becomes 0 -/
  | destroy
  /-- (re-)creation: the slot becomes what the constructor wrote (`none` = not written = 0) -/
  | create (slot : Option Nat)
  /-- plain update: the slot is overwritten if written; `becomesKnown` = the status turns
      storage-known (an account without nonce and code becomes in-memory) -/
  | update (slot : Option Nat) (becomesKnown : Bool)
  deriving DecidableEq, Repr, Inhabited

inductive CPc where
  | idle
  /-- original order only: slots cleared, status not yet updated -/
  | clearedFirst (op : Op)
  /-- status updated, slots not yet cleared -/
  | statusSet (write : Option Nat)
  /-- about to write the slot -/
  | pendingWrite (v : Nat)
  deriving DecidableEq, Repr, Inhabited

structure State where
  /-- account status is storage-known (or the account is absent) -/
  known : Bool
  /-- cached value of the slot -/
  cache : Option Nat
  /-- value in the backing database (constant) -/
  dbv : Nat
  /-- what revm's State serves -/
  logical : Nat
  rpc : Nat → RPc
  cpc : CPc

inductive Act where
  | rLook (t : Nat)
  | rInsert (t : Nat)
  | cBegin (op : Op)
  | cClear
  | cWrite
  deriving DecidableEq, Repr

def setR (s : State) (t : Nat) (p : RPc) : State :=
  { s with rpc := fun u => if u = t then p else s.rpc u }

/-- The new logical value and the slot write of an operation. -/
def Op.logicalAfter (op : Op) (old : Nat) : Nat :=
  match op with
  | .destroy => 0
  | .create slot => slot.getD 0
  | .update slot _ => slot.getD old

def Op.write : Op → Option Nat
  | .destroy => none
  | .create slot => slot
  | .update slot _ => slot

def step (fixed : Bool) (s : State) : Act → Option State
  | .rLook t =>
      match s.rpc t with
      | .idle =>
          match s.cache with
          | some v => some (setR s t (.done v))
          | none => some (setR s t (.fetched (if s.known then 0 else s.dbv) s.known))
      | _ => none
  | .rInsert t =>
      match s.rpc t with
      | .fetched v wasKnown =>
          let fresh := if fixed && !wasKnown && s.known then 0 else v
          match s.cache with
          | some c => some (setR s t (.done c))
          | none => some (setR { s with cache := some fresh } t (.done fresh))
      | _ => none
  | .cBegin op =>
      match s.cpc with
      | .idle =>
          match op with
          | .update slot becomesKnown =>
              -- an account that becomes storage-known by a plain update had neither nonce nor
              -- code, hence no storage in the backing store
              if becomesKnown && !s.known && s.dbv != 0 then none
              else
                let s1 := { s with known := s.known || becomesKnown, logical := op.logicalAfter s.logical }
                match slot with
                | some v => some { s1 with cpc := .pendingWrite v }
                | none => some s1
          | _ =>
              if fixed then
                some { s with known := true, logical := op.logicalAfter s.logical, cpc := .statusSet op.write }
              else
                some { s with cache := none, logical := op.logicalAfter s.logical, cpc := .clearedFirst op }
      | _ => none
  | .cClear =>
      match s.cpc with
      | .statusSet w =>
          match w with
          | some v => some { s with cache := none, cpc := .pendingWrite v }
          | none => some { s with cache := none, cpc := .idle }
      | .clearedFirst op =>
          -- original order: this step is the status update
          match op.write with
          | some v => some { s with known := true, cpc := .pendingWrite v }
          | none => some { s with known := true, cpc := .idle }
      | _ => none
  | .cWrite =>
      match s.cpc with
      | .pendingWrite v => some { s with cache := some v, cpc := .idle }
      | _ => none

def run (fixed : Bool) (s : State) : List Act → Option State
  | [] => some s
  | a :: as => match step fixed s a with
    | none => none
    | some s' => run fixed s' as

/-- A fresh cache over a database holding `dbv`; `known` as loaded (absent account = known). -/
def init (dbv : Nat) (known : Bool) : State :=
  { known := known, cache := none, dbv := dbv, logical := if known then 0 else dbv,
    rpc := fun _ => .idle, cpc := .idle }

/-- What a read serves once nobody is in flight. -/
def serve (s : State) : Nat :=
  match s.cache with
  | some v => v
  | none => if s.known then 0 else s.dbv

end Grevm.Cache
