/-
Model of `Scheduler::run_once` (`src/scheduler/control.rs`): the `started` flag elects exactly
one caller among `execute`, `parallel_execute` and `fallback_sequential`; the body (the whole
block execution) is one abstract step that appends to `applied`.
-/
namespace Grevm.RunOnce

inductive Pc where
  | idle
  | electing          -- about to `compare_exchange(false, true)`
  | running           -- won the election, body not yet finished
  | returnedOk
  | returnedErr       -- "a Scheduler can execute only once"
  deriving DecidableEq, Repr, Inhabited

structure State where
  started : Bool
  /-- how many times the block body has been applied to outcomes/state -/
  applied : Nat
  /-- ghost: number of successful elections so far -/
  wins : Nat
  pc : Nat → Pc

inductive Act where
  | call (t : Nat)     -- any of the three public entry points
  | cas (t : Nat)
  | body (t : Nat)
  deriving DecidableEq, Repr

def setPc (s : State) (t : Nat) (p : Pc) : State :=
  { s with pc := fun u => if u = t then p else s.pc u }

def step (s : State) : Act → Option State
  | .call t => match s.pc t with
      | .idle | .returnedOk | .returnedErr => some (setPc s t .electing)
      | _ => none
  | .cas t => match s.pc t with
      | .electing =>
          if s.started then some (setPc s t .returnedErr)
          else some (setPc { s with started := true, wins := s.wins + 1 } t .running)
      | _ => none
  | .body t => match s.pc t with
      | .running => some (setPc { s with applied := s.applied + 1 } t .returnedOk)
      | _ => none

def run (s : State) : List Act → Option State
  | [] => some s
  | a :: as => match step s a with
    | none => none
    | some s' => run s' as

def init : State := { started := false, applied := 0, wins := 0, pc := fun _ => .idle }

end Grevm.RunOnce
