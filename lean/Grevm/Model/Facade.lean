/-
Model of the capability-restricted state facade of custom precompiles
(`ParallelPrecompileState` and the adapter `DynParallelPrecompile::to_alloy`, `src/precompile.rs`):
every access goes through the journal; a mutation in a static context is refused BEFORE any
change and recorded as a sticky fault; after a fault every operation fails with that fault; the
adapter replaces whatever the implementation returns by the recorded fault.  Import-free.
-/
namespace Grevm.Facade

inductive Fault where
  | halt (why : Nat)      -- 0 = state change during static call
  | fatal (why : Nat)     -- database error
  deriving DecidableEq, Repr, Inhabited

/-- The journal as far as the facade can touch it. `loaded` = accounts loaded through the journal
    (hence through the read tracking of `IncarnationDb`). -/
structure Journal where
  bal : Nat → Nat
  stor : Nat → Nat → Nat
  loaded : List Nat

structure FState where
  j : Journal
  isStatic : Bool
  fault : Option Fault

inductive Op where
  | balance (a : Nat)
  | sload (a k : Nat)
  | setBalance (a v : Nat)
  | sstore (a k v : Nat)
  deriving DecidableEq, Repr, Inhabited

def Op.isMutation : Op → Bool
  | .setBalance .. | .sstore .. => true
  | _ => false

def Op.addr : Op → Nat
  | .balance a | .sload a _ | .setBalance a _ | .sstore a _ _ => a

inductive Res where
  | ok (v : Nat)
  | err (f : Fault)
  deriving DecidableEq, Repr, Inhabited

def load (j : Journal) (a : Nat) : Journal :=
  if j.loaded.contains a then j else { j with loaded := a :: j.loaded }

/-- One facade call. `dbFails op` = the underlying journal access reports a database error. -/
def call (dbFails : Op → Bool) (s : FState) (op : Op) : FState × Res :=
  match s.fault with
  | some f => (s, .err f)
  | none =>
      if op.isMutation && s.isStatic then ({ s with fault := some (.halt 0) }, .err (.halt 0))
      else if dbFails op then ({ s with fault := some (.fatal 1) }, .err (.fatal 1))
      else
        let j := load s.j op.addr
        match op with
        | .balance a => ({ s with j := j }, .ok (j.bal a))
        | .sload a k => ({ s with j := j }, .ok (j.stor a k))
        | .setBalance a v =>
            ({ s with j := { j with bal := fun b => if b = a then v else j.bal b } }, .ok 0)
        | .sstore a k v =>
            ({ s with j := { j with stor := fun b l => if b = a ∧ l = k then v else j.stor b l } }, .ok 0)

/-- An implementation is any sequence of facade calls; it may ignore every error it is given. -/
def runOps (dbFails : Op → Bool) (s : FState) : List Op → FState × List Res
  | [] => (s, [])
  | op :: rest =>
      let (s1, r) := call dbFails s op
      let (s2, rs) := runOps dbFails s1 rest
      (s2, r :: rs)

/-- What the implementation returns / what the adapter reports. -/
inductive Outcome where
  | ok (out : Nat)
  | halt (why : Nat)
  | fatal (why : Nat)
  deriving DecidableEq, Repr, Inhabited

/-- `to_alloy`: `input.state.take_fault().map_or(result, Err)`. -/
def adapter (final : FState) (impl : Outcome) : Outcome :=
  match final.fault with
  | some (.halt w) => .halt w
  | some (.fatal w) => .fatal w
  | none => impl

end Grevm.Facade
