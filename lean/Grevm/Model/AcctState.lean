/-
The account-status machine of the committed state, for ONE account (accounts do not interact):

* `G…`  — grevm: `CacheAccountInfo` (`selfdestruct`, `newly_created`, `touch_empty_eip161`,
  `change`, `account_info_change`), `ParallelCacheState::apply_account_state` with its separate
  slot map (`storage.remove`, `update_storage_slot`), `ParallelStateView::{db_basic, db_storage,
  load_mut_cache_account, increment_balance_transitions}`, `ParallelState::drain_balances`
  (`src/parallel_state.rs`), run sequentially (the races are `Model/Cache`, `Model/AccountFill`);
* `S…`  — revm: `CacheAccount` (`states/cache_account.rs`), `CacheState::apply_account_state`
  (`states/cache.rs`), `State::{load_cache_account, storage}` (`states/state.rs`) and the default
  `DatabaseCommitExt::{increment_balances, drain_balances}` (`revm-database-interface`);
* `Status.*` — revm's `AccountStatus` transition functions (`states/account_status.rs`), which both
  sides call.

grevm keeps the account (`info`, `status`) and its slots in two maps and may cache slots of an
account it has not loaded; revm keeps the slots inside the account.  `Props/C10` proves that the
two machines produce the same transitions, infos and slot values for every operation history.

Abstractions: code is an identifier (0 = no code); the changed-slot map of a committed account is a
function `Nat → Option Nat` (present values; the original values are handed through unchanged by
both implementations and are not modelled); balances saturate at `umax`.  A commit operation on an
account that is not cached makes grevm panic ("All accounts should be present inside cache") and
makes revm rebuild the account from the journal's original info: `G.step` returns `none` there and
the theorems are about histories on which it does not (execution loads every account it commits).
Import-free.
-/
namespace Grevm.Acct

inductive Status where
  | loadedNotExisting | loaded | loadedEmptyEIP161 | inMemoryChange | changed
  | destroyed | destroyedChanged | destroyedAgain
  deriving DecidableEq, Repr, Inhabited

namespace Status

/-- `AccountStatus::is_storage_known` -/
def known : Status → Bool
  | loadedNotExisting | inMemoryChange | destroyed | destroyedChanged | destroyedAgain => true
  | loaded | loadedEmptyEIP161 | changed => false

/-- `AccountStatus::was_destroyed` -/
def wasDestroyed : Status → Bool
  | destroyed | destroyedChanged | destroyedAgain => true
  | _ => false

/-- `AccountStatus::on_created` -/
def onCreated : Status → Status
  | destroyedAgain | destroyed | destroyedChanged => destroyedChanged
  | loadedNotExisting | loadedEmptyEIP161 | loaded | changed | inMemoryChange => inMemoryChange

/-- `AccountStatus::on_touched_empty_post_eip161` -/
def onTouchedEmpty : Status → Status
  | loadedNotExisting => loadedNotExisting
  | inMemoryChange | destroyed | loadedEmptyEIP161 => destroyed
  | destroyedAgain | destroyedChanged => destroyedAgain
  | changed | loaded => destroyed

/-- `AccountStatus::on_changed` -/
def onChanged (s : Status) (hadNoNonceAndCode : Bool) : Status :=
  match s with
  | loadedNotExisting => inMemoryChange
  | loadedEmptyEIP161 => inMemoryChange
  | loaded => if hadNoNonceAndCode then inMemoryChange else changed
  | changed => changed
  | inMemoryChange => inMemoryChange
  | destroyedChanged => destroyedChanged
  | destroyed | destroyedAgain => destroyedChanged

/-- `AccountStatus::on_selfdestructed` -/
def onSelfdestructed : Status → Status
  | loadedNotExisting => loadedNotExisting
  | destroyedChanged | destroyedAgain | destroyed => destroyedAgain
  | _ => destroyed

/-- the `matches!` of `touch_empty_eip161`: no transition is reported from these -/
def silentOnTouch : Status → Bool
  | loadedNotExisting | destroyed | destroyedAgain => true
  | _ => false

end Status

structure Info where
  nonce : Nat
  balance : Nat
  code : Nat
  deriving DecidableEq, Repr, Inhabited

def Info.zero : Info := ⟨0, 0, 0⟩
/-- `AccountInfo::is_empty` -/
def Info.isEmpty (i : Info) : Bool := i.nonce == 0 && i.balance == 0 && i.code == 0
/-- `AccountInfo::has_no_code_and_nonce` -/
def Info.noCodeNonce (i : Info) : Bool := i.nonce == 0 && i.code == 0

/-- `previous_info.as_ref().map(AccountInfo::has_no_code_and_nonce).unwrap_or_default()` -/
def hadNoCodeNonce : Option Info → Bool
  | some i => i.noCodeNonce
  | none => false

def umax : Nat := 2 ^ 256 - 1
def satAdd (a b : Nat) : Nat := if a + b ≤ umax then a + b else umax

/-- The backing database, for this account. -/
structure Db where
  info : Option Info
  slot : Nat → Nat

abbrev Slots := Nat → Option Nat
def Slots.none : Slots := fun _ => Option.none
/-- `extend` / `update_storage_slot`: the entries of `c` win -/
def Slots.extend (m c : Slots) : Slots := fun k => match c k with
  | some v => some v
  | Option.none => m k
def Slots.set (m : Slots) (k v : Nat) : Slots := fun j => if j = k then some v else m j

/-- `TransitionAccount` without the storage map (handed through unchanged on both sides). -/
structure Trans where
  info : Option Info
  status : Status
  prevInfo : Option Info
  prevStatus : Status
  storageWasDestroyed : Bool
  deriving DecidableEq, Repr

inductive Op where
  /-- `basic` / `basic_ref`: load the account into the cache if it is not there; returns the info -/
  | basic
  /-- `storage` / `storage_ref` of slot `k` -/
  | read (k : Nat)
  /-- committed journal account: selfdestructed -/
  | selfdestruct
  /-- committed journal account: created, with the slots its constructor wrote -/
  | create (i : Info) (c : Slots)
  /-- committed journal account: touched, empty, not created -/
  | touchEmpty
  /-- committed journal account: touched, not empty -/
  | change (i : Info) (c : Slots)
  /-- `increment_balances` entry -/
  | increment (amt : Nat)
  /-- `drain_balances` entry -/
  | drain

inductive Out where
  | info (i : Option Info)
  | val (v : Nat)
  | trans (t : Option Trans)
  | drained (amt : Nat) (t : Option Trans)
  deriving DecidableEq, Repr

/-! ### grevm -/

structure GAcct where
  info : Option Info
  status : Status
  deriving DecidableEq, Repr

structure G where
  acct : Option GAcct
  slots : Slots

def G.init : G := ⟨none, Slots.none⟩

/-- the `match info { None => …, Some(acc) if acc.is_empty() => …, Some(acc) => … }` of
`db_basic` / `load_mut_cache_account` (and of revm's `load_cache_account_with`) -/
def loadFromDb (db : Db) : GAcct :=
  match db.info with
  | none => ⟨none, .loadedNotExisting⟩
  | some i => if i.isEmpty then ⟨some Info.zero, .loadedEmptyEIP161⟩ else ⟨some i, .loaded⟩

def G.loaded (db : Db) (g : G) : GAcct := match g.acct with
  | some a => a
  | none => loadFromDb db

def G.load (db : Db) (g : G) : G := { g with acct := some (g.loaded db) }

/-- `storage_known()` of `db_storage` -/
def G.known (g : G) : Bool := match g.acct with
  | some a => a.status.known || a.info.isNone
  | none => false

def GAcct.selfdestruct (a : GAcct) : GAcct × Option Trans :=
  let st := a.status.onSelfdestructed
  (⟨none, st⟩,
   if a.status = .loadedNotExisting then none else some ⟨none, st, a.info, a.status, true⟩)

def GAcct.newlyCreated (a : GAcct) (i : Info) : GAcct × Option Trans :=
  let st := a.status.onCreated
  (⟨some i, st⟩, some ⟨some i, st, a.info, a.status, false⟩)

def GAcct.touchEmpty (a : GAcct) : GAcct × Option Trans :=
  let st := a.status.onTouchedEmpty
  (⟨none, st⟩,
   if a.status.silentOnTouch then none else some ⟨none, st, a.info, a.status, true⟩)

def GAcct.change (a : GAcct) (i : Info) : GAcct × Option Trans :=
  let st := a.status.onChanged (hadNoCodeNonce a.info)
  (⟨some i, st⟩, some ⟨some i, st, a.info, a.status, false⟩)

/-- `apply_account_state` for a touched, not selfdestructed, not created account with info `i` and
no changed slot (what `drain_balances` commits) -/
def G.applyTouched (g : G) (a : GAcct) (i : Info) : G × Option Trans :=
  if i.isEmpty then
    let (a', t) := a.touchEmpty
    (⟨some a', Slots.none⟩, t)
  else
    let (a', t) := a.change i
    (⟨some a', g.slots⟩, t)

/-- `none` = the code panics (commit of an account that is not in the cache). -/
def G.step (db : Db) (g : G) : Op → Option (G × Out)
  | .basic => let g' := g.load db; some (g', .info (g.loaded db).info)
  | .read k =>
      match g.slots k with
      | some v => some (g, .val v)
      | none =>
          let v := if g.known then 0 else db.slot k
          some ({ g with slots := g.slots.set k v }, .val v)
  | .selfdestruct => g.acct.map fun a =>
      let (a', t) := a.selfdestruct
      (⟨some a', Slots.none⟩, .trans t)
  | .create i c => g.acct.map fun a =>
      let (a', t) := a.newlyCreated i
      (⟨some a', Slots.none.extend c⟩, .trans t)
  | .touchEmpty => g.acct.map fun a =>
      let (a', t) := a.touchEmpty
      (⟨some a', Slots.none⟩, .trans t)
  | .change i c => g.acct.map fun a =>
      let (a', t) := a.change i
      (⟨some a', g.slots.extend c⟩, .trans t)
  | .increment amt =>
      if amt = 0 then some (g, .trans none) else
      let a := g.loaded db
      let i0 := a.info.getD Info.zero
      let (a', t) := a.change { i0 with balance := satAdd i0.balance amt }
      some (⟨some a', g.slots⟩, .trans t)
  | .drain =>
      let a := g.loaded db
      let i0 := a.info.getD Info.zero
      let (g', t) := g.applyTouched a { i0 with balance := 0 }
      some (g', .drained i0.balance t)

/-! ### revm -/

structure SAcct where
  /-- `Option<PlainAccount>`: info and the slots known to the cache -/
  acct : Option (Info × Slots)
  status : Status

abbrev S := Option SAcct

def S.init : S := none

def sLoadFromDb (db : Db) : SAcct :=
  match db.info with
  | none => ⟨none, .loadedNotExisting⟩
  | some i => if i.isEmpty then ⟨some (Info.zero, Slots.none), .loadedEmptyEIP161⟩
              else ⟨some (i, Slots.none), .loaded⟩

def S.loaded (db : Db) (s : S) : SAcct := match s with
  | some a => a
  | none => sLoadFromDb db

def SAcct.info (a : SAcct) : Option Info := a.acct.map (·.1)

def SAcct.selfdestruct (a : SAcct) : SAcct × Option Trans :=
  let st := a.status.onSelfdestructed
  (⟨none, st⟩,
   if a.status = .loadedNotExisting then none else some ⟨none, st, a.info, a.status, true⟩)

def SAcct.newlyCreated (a : SAcct) (i : Info) (c : Slots) : SAcct × Option Trans :=
  let st := a.status.onCreated
  (⟨some (i, Slots.none.extend c), st⟩, some ⟨some i, st, a.info, a.status, false⟩)

def SAcct.touchEmpty (a : SAcct) : SAcct × Option Trans :=
  let st := a.status.onTouchedEmpty
  (⟨none, st⟩,
   if a.status.silentOnTouch then none else some ⟨none, st, a.info, a.status, true⟩)

def SAcct.change (a : SAcct) (i : Info) (c : Slots) : SAcct × Option Trans :=
  let st := a.status.onChanged (hadNoCodeNonce a.info)
  let stor : Slots := match a.acct with
    | some (_, m) => m
    | none => Slots.none
  (⟨some (i, stor.extend c), st⟩, some ⟨some i, st, a.info, a.status, false⟩)

/-- `CacheState::apply_account_state` for a touched, not selfdestructed, not created account with
no changed slot (what the default `increment_balances` / `drain_balances` commit) -/
def SAcct.applyTouched (a : SAcct) (i : Info) : SAcct × Option Trans :=
  if i.isEmpty then a.touchEmpty else a.change i Slots.none

def S.step (db : Db) (s : S) : Op → S × Out
  | .basic => let a := s.loaded db; (some a, .info a.info)
  | .read k =>
      let a := s.loaded db
      match a.acct with
      | none => (some a, .val 0)
      | some (i, m) =>
          match m k with
          | some v => (some a, .val v)
          | none =>
              let v := if a.status.known then 0 else db.slot k
              (some { a with acct := some (i, m.set k v) }, .val v)
  | .selfdestruct => let a := s.loaded db; let (a', t) := a.selfdestruct; (some a', .trans t)
  | .create i c => let a := s.loaded db; let (a', t) := a.newlyCreated i c; (some a', .trans t)
  | .touchEmpty => let a := s.loaded db; let (a', t) := a.touchEmpty; (some a', .trans t)
  | .change i c => let a := s.loaded db; let (a', t) := a.change i c; (some a', .trans t)
  | .increment amt =>
      let a := s.loaded db
      let i0 := a.info.getD Info.zero
      let (a', t) := a.applyTouched { i0 with balance := satAdd i0.balance amt }
      (some a', .trans t)
  | .drain =>
      let a := s.loaded db
      let i0 := a.info.getD Info.zero
      let (a', t) := a.applyTouched { i0 with balance := 0 }
      (some a', .drained i0.balance t)

/-! ### runs -/

def G.run (db : Db) : G → List Op → Option (G × List Out)
  | g, [] => some (g, [])
  | g, op :: ops =>
      match g.step db op with
      | none => none
      | some (g', o) =>
          match G.run db g' ops with
          | none => none
          | some (g'', os) => some (g'', o :: os)

def S.run (db : Db) : S → List Op → S × List Out
  | s, [] => (s, [])
  | s, op :: ops =>
      let (s', o) := S.step db s op
      let (s'', os) := S.run db s' ops
      (s'', o :: os)

/-- what a reader obtains for slot `k` (the value `G.step … (.read k)` returns) -/
def G.readVal (db : Db) (g : G) (k : Nat) : Nat := match g.slots k with
  | some v => v
  | none => if g.known then 0 else db.slot k

def S.readVal (db : Db) (s : S) (k : Nat) : Nat :=
  let a := s.loaded db
  match a.acct with
  | none => 0
  | some (_, m) => match m k with
      | some v => v
      | none => if a.status.known then 0 else db.slot k

/-- revm's assumption about the backing store: an account without nonce and code (or no account)
has no storage.  (The harness generates only such stores; recorded in DESIGN.md §9.) -/
def Db.Ok (db : Db) : Prop :=
  (match db.info with | none => True | some i => i.noCodeNonce = true) → ∀ k, db.slot k = 0

/-- Documented precondition of `increment_balances`: amounts are non-zero (grevm skips a zero
amount, the default revm implementation commits it as a touch). -/
def Op.Pre : Op → Prop
  | .increment amt => amt ≠ 0
  | _ => True

end Grevm.Acct
