/-
Model of `src/scheduler/cursor.rs` (`claim_before`, `RewindableCursor::rewind`) and of
`ExecutionFrontier` in `src/scheduler/context.rs`, at the granularity of one atomic operation
per step, for any number of threads.  Import-free: executable in the driver.
-/
namespace Grevm.Cursor

/-! ## Validation cursor: `claim_before` CAS loop versus `fetch_min` rewind -/

/-- Control state of one thread using the cursor. -/
inductive Pc where
  | idle
  /-- inside `claim_before(limit)`, about to `load` -/
  | claimLoad (limit : Nat)
  /-- loaded `cur < limit`, about to `compare_exchange_weak(cur, cur+1)` -/
  | claimCas (limit cur : Nat)
  /-- inside `rewind(v)`, about to `fetch_min(v)` -/
  | rewind (v : Nat)
  deriving DecidableEq, Repr, Inhabited

structure State where
  cursor : Nat
  pc : Nat → Pc

/-- Observable result of a step. -/
inductive Ev where
  | tau
  | claimed (t k limit : Nat)
  | claimNone (t limit : Nat)
  | rewound (t v prev : Nat)
  deriving DecidableEq, Repr

/-- One atomic action of thread `t`. `casOk`/`casFail` are the two outcomes of the weak CAS:
    failure is always allowed (spurious), success only when the value still matches. -/
inductive Act where
  | callClaim (t limit : Nat)
  | callRewind (t v : Nat)
  | load (t : Nat)
  | casOk (t : Nat)
  | casFail (t : Nat)
  | fetchMin (t : Nat)
  deriving DecidableEq, Repr

def setPc (s : State) (t : Nat) (p : Pc) : State :=
  { s with pc := fun u => if u = t then p else s.pc u }

def step (s : State) : Act → Option (State × Ev)
  | .callClaim t limit =>
      match s.pc t with
      | .idle => some (setPc s t (.claimLoad limit), .tau)
      | _ => none
  | .callRewind t v =>
      match s.pc t with
      | .idle => some (setPc s t (.rewind v), .tau)
      | _ => none
  | .load t =>
      match s.pc t with
      | .claimLoad limit =>
          if s.cursor ≥ limit then some (setPc s t .idle, .claimNone t limit)
          else some (setPc s t (.claimCas limit s.cursor), .tau)
      | _ => none
  | .casOk t =>
      match s.pc t with
      | .claimCas limit cur =>
          if s.cursor = cur then
            some (setPc { s with cursor := cur + 1 } t .idle, .claimed t cur limit)
          else none
      | _ => none
  | .casFail t =>
      match s.pc t with
      | .claimCas limit _ => some (setPc s t (.claimLoad limit), .tau)
      | _ => none
  | .fetchMin t =>
      match s.pc t with
      | .rewind v =>
          some (setPc { s with cursor := min s.cursor v } t .idle, .rewound t v s.cursor)
      | _ => none

/-- Run a schedule; `none` if some action is not enabled. Events are returned oldest first. -/
def run (s : State) : List Act → Option (State × List Ev)
  | [] => some (s, [])
  | a :: as =>
      match step s a with
      | none => none
      | some (s', e) =>
          match run s' as with
          | none => none
          | some (s'', es) => some (s'', e :: es)

def init (c : Nat) : State := { cursor := c, pc := fun _ => .idle }

/-- Thread-local invariant: a thread about to CAS has loaded a value below its limit. -/
def Inv (s : State) : Prop := ∀ t limit cur, s.pc t = .claimCas limit cur → cur < limit

/-! ## Execution frontier -/

namespace Frontier

/-- Control state of a thread inside `publish`, `current` or `advance`. `ret` says what the
    enclosing call does once `advance` returns. -/
inductive Ret where
  | unit (i : Nat)   -- `publish(i)`: return ()
  | reload    -- `current`: reload the frontier and return it
  deriving DecidableEq, Repr, Inhabited

inductive Pc where
  | idle
  | pubLoad1 (i : Nat)
  | pubStore (i : Nat)
  | pubLoad2 (i : Nat)
  | curLoad
  | curCheck (f : Nat)
  | curReload
  /-- `advance`: scanning, `start ≤ end_`; about to test `executed[end_]` -/
  | advScan (start end_ : Nat) (ret : Ret)
  /-- `advance`: scan finished with `end_ > start`, about to `fetch_max(end_)` -/
  | advMax (start end_ : Nat) (ret : Ret)
  deriving DecidableEq, Repr, Inhabited

structure State where
  n : Nat
  executed : Nat → Bool
  frontier : Nat
  pc : Nat → Pc

inductive Ev where
  | tau
  | published (t i : Nat)
  | current (t f : Nat)
  deriving DecidableEq, Repr

inductive Act where
  | callPublish (t i : Nat)
  | callCurrent (t : Nat)
  | stepT (t : Nat)
  deriving DecidableEq, Repr

def setPc (s : State) (t : Nat) (p : Pc) : State :=
  { s with pc := fun u => if u = t then p else s.pc u }

def afterAdvance (s : State) (t : Nat) : Ret → State × Ev
  | .unit i => (setPc s t .idle, .published t i)
  | .reload => (setPc s t .curReload, .tau)

/-- One atomic step of thread `t` (every `stepT` performs exactly one shared access). -/
def step (s : State) : Act → Option (State × Ev)
  | .callPublish t i =>
      match s.pc t with
      | .idle => if i < s.n then some (setPc s t (.pubLoad1 i), .tau) else none
      | _ => none
  | .callCurrent t =>
      match s.pc t with
      | .idle => some (setPc s t .curLoad, .tau)
      | _ => none
  | .stepT t =>
      match s.pc t with
      | .idle => none
      | .pubLoad1 i =>
          if i < s.frontier then some (setPc s t .idle, .published t i)
          else some (setPc s t (.pubStore i), .tau)
      | .pubStore i =>
          some (setPc { s with executed := fun j => if j = i then true else s.executed j } t
                  (.pubLoad2 i), .tau)
      | .pubLoad2 i =>
          if i = s.frontier then some (setPc s t (.advScan s.frontier s.frontier (.unit i)), .tau)
          else some (setPc s t .idle, .published t i)
      | .curLoad => some (setPc s t (.curCheck s.frontier), .tau)
      | .curCheck f =>
          if f < s.n ∧ s.executed f = true then some (setPc s t (.advScan f f .reload), .tau)
          else some (setPc s t .idle, .current t f)
      | .curReload => some (setPc s t .idle, .current t s.frontier)
      | .advScan start end_ ret =>
          if end_ < s.n ∧ s.executed end_ = true then
            some (setPc s t (.advScan start (end_ + 1) ret), .tau)
          else if end_ = start then some (afterAdvance s t ret)
          else some (setPc s t (.advMax start end_ ret), .tau)
      | .advMax _ end_ ret =>
          some (setPc { s with frontier := max s.frontier end_ } t
                  (.advScan (max s.frontier end_) (max s.frontier end_) ret), .tau)

def run (s : State) : List Act → Option (State × List Ev)
  | [] => some (s, [])
  | a :: as =>
      match step s a with
      | none => none
      | some (s', e) =>
          match run s' as with
          | none => none
          | some (s'', es) => some (s'', e :: es)

def init (n : Nat) : State :=
  { n := n, executed := fun _ => false, frontier := 0, pc := fun _ => .idle }

end Frontier

end Grevm.Cursor
