-- Root of the `Grevm` library: every model, lemma and property module.
import Grevm.Model.Cursor
import Grevm.Model.WaitSlot
import Grevm.Model.RunOnce
import Grevm.Model.TxDep
import Grevm.Lemmas.Frontier
import Grevm.Driver.Kernel
import Grevm.Props.C14
import Grevm.Props.C15
import Grevm.Props.C16
import Grevm.Props.C17
