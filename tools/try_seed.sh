#!/bin/sh
# usage: try_seed.sh <seed-dir-name> <property> [tier]   -- applies the seeded change to /repo, runs the check, restores /repo
cd /verif || exit 2
S=$1; P=$2; T=${3:-quick}
[ -z "$(git -C /repo status --porcelain)" ] || { echo "$S: /repo not clean"; exit 2; }
git -C /repo apply "/verif/seeded/$S/patch.diff" || { echo "$S: does not apply"; exit 2; }
out=$(timeout 2400 ./check "$P" --tier "$T" 2>&1 | tail -3)
git -C /repo checkout -- .
echo "$S [$P]: $out"
