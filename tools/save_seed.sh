#!/bin/sh
# usage: save_seed.sh <worktree> <seed-dir-name> <demo-file-relative-to-worktree>
# Saves the uncommitted change under src/ of a scratch worktree as seeded/<name>/patch.diff with its demonstration.
W=$1; N=$2; D=$3
mkdir -p /verif/seeded/$N
git -C "$W" diff -- src > /verif/seeded/$N/patch.diff
cp "$W/$D" /verif/seeded/$N/
wc -l /verif/seeded/$N/patch.diff
