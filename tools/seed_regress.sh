#!/bin/sh
# usage: tools/seed_regress.sh <seed-dir-name>...   (default: all of seeded/)
# Applies each seeded change to /repo, runs the check of its property, and restores /repo.
cd /verif || exit 2
[ $# -eq 0 ] && set -- $(ls seeded)
for s in "$@"; do
  prop=$(python3 -c "import json,sys;print(json.load(open('seeded/$s/meta.json'))['property'])")
  git -C /repo apply "/verif/seeded/$s/patch.diff" || { echo "$s: does not apply"; continue; }
  out=$(timeout 2400 ./check "$prop" 2>&1 | tail -1)
  git -C /repo checkout -- .
  echo "$s: $out"
done
