#!/bin/sh
# usage: confirm_seed.sh <worktree> <demo cargo args...>
# Confirms a seeded change: unit suite passes with it; the demonstration fails with it and passes without.
W=$1; shift
cd "$W" || exit 2
export CARGO_NET_OFFLINE=true CARGO_TARGET_DIR="$W/target"
echo "== with change: unit suite"; cargo test --workspace --offline 2>&1 | grep -E "^test result|FAILED|^error" | head -5
echo "== with change: demonstration ($*)"; cargo test --offline "$@" 2>&1 | grep -E "^test result|FAILED|panicked|^error" | head -8
git stash push -q -- src
echo "== without change: demonstration"; cargo test --offline "$@" 2>&1 | grep -E "^test result|FAILED|panicked|^error" | head -8
git stash pop -q
git diff --stat -- src | tail -1
