#!/bin/sh
# usage: confirm_seed.sh <worktree> <demo cargo args...>
# Confirms a seeded change: unit suite passes with it; the demonstration fails with it and passes without.
# (uses a reverse-applied diff rather than git stash: the stash list is shared between worktrees)
W=$1; shift
cd "$W" || exit 2
export CARGO_NET_OFFLINE=true CARGO_TARGET_DIR="$W/target"
P="$W/.seed-change.diff"
git diff -- src > "$P"
[ -s "$P" ] || { echo "no change under src/"; exit 2; }
echo "== with change: unit suite"; cargo test --workspace --offline 2>&1 | grep -E "^test result|FAILED|^error" | head -5
echo "== with change: demonstration ($*)"; cargo test --offline "$@" 2>&1 | grep -E "^test result|FAILED|panicked|^error" | head -8
git apply -R "$P"
echo "== without change: demonstration"; cargo test --offline "$@" 2>&1 | grep -E "^test result|FAILED|panicked|^error" | head -8
git apply "$P"
git diff --stat -- src | tail -1
