#!/usr/bin/env python3
"""Regenerate MANIFEST.json from checklib/props.py and properties.jsonl."""
import json, subprocess, sys, os
ROOT = os.path.dirname(os.path.dirname(os.path.abspath(__file__)))
sys.path.insert(0, os.path.join(ROOT, 'checklib'))
from props import PROPS
props = [json.loads(l) for l in open(os.path.join(ROOT, 'properties.jsonl'))]
NOT_YET = {}
checks = []
for p in props:
    pid = p['id']
    if pid in PROPS:
        c = PROPS[pid]
        checks.append({
            "property_id": pid,
            "quick_cmd": f"./check {pid} --tier quick",
            "thorough_cmd": f"./check {pid} --tier thorough",
            "evidence_file": f"/verif/evidence/{pid}.json",
            "replay_cmd_template": f"./check {pid} --replay {{path}}",
            "engine": "lean4-proof+correspondence",
            "level_claimed": {"category": "proof", "text": c["explanation"], "design_ref": "DESIGN.md section 7 (" + pid + ")"},
            "level_note": "trusted: " + "; ".join(c["trusted_base"][:3]) + " | modelled rather than verified: " + "; ".join(c["modelled"])
                          + ((" | partial: " + "; ".join(c["partial"])) if c.get("partial") else ""),
            "technique": "Lean 4 theorems (kernel-checked, axiom-audited) over an executable model of the code + correspondence check of model and oracle against the real code (trace conformance under a deterministic controller / line-protocol differential / in-order revm oracle)",
        })
na = [{"property_id": p['id'], "reason": NOT_YET.get(p['id'], "check not built yet in this round; model and proofs in progress (DESIGN.md section 9)")}
      for p in props if p['id'] not in PROPS]
hooks = subprocess.check_output(['git', '-C', '/repo', 'log', '--format=%h %s'], text=True).splitlines()
hook_commits = [l.split()[0] for l in hooks if 'verif-hooks' in l]
m = {
    "version": 1,
    "setup_cmd": "./setup.sh",
    "hooks": {"guard": "cargo feature verif-hooks", "enable": "harness/Cargo.toml depends on /repo with features=[\"verif-hooks\"]",
              "baseline_off_cmd": "cd /repo && cargo test --workspace --no-fail-fast --offline",
              "source_commits": hook_commits, "add_only": True},
    "engines": [{"name": "lean4-proof+correspondence", "path": "/verif/check", "serves_properties": sorted(PROPS),
                 "kind_free_text": "Lean 4 models + theorems (lean/), Rust harness with deterministic controller, block generators, in-order revm oracle, fault injection (harness/), python entry script (check)"}],
    "checks": checks,
    "not_applicable": na,
    "notes": "Findings and fixes: known_findings.json; design and trusted base: DESIGN.md",
}
json.dump(m, open(os.path.join(ROOT, 'MANIFEST.json'), 'w'), indent=1)
print("checks:", [c['property_id'] for c in checks], "not claimed:", [n['property_id'] for n in na])
