#!/bin/sh
# Build the verification machinery from files on disk only (offline).
set -e
cd "$(dirname "$0")"
export CARGO_NET_OFFLINE=true CARGO_TARGET_DIR="$PWD/.cache/target"
mkdir -p .cache evidence replays
(cd lean && lake build Grevm gmodel)
if [ -d translator ]; then (cd translator && cargo build --offline -q); fi
(cd harness && cargo build --offline -q)
echo "setup ok"
